#!/usr/bin/env python3
"""developer regression guard (not a check): the rule-instance keys evaluated on the unchanged tree, compared with the stored list
(psa/baseline_keys.json) so that an edit of a rule module that silently drops an instance is noticed.
usage: ./keys_regress.py [--update]"""
import json, os, subprocess, sys
V = os.path.dirname(os.path.abspath(__file__))
pids = [c["property_id"] for c in json.load(open(os.path.join(V, "MANIFEST.json")))["checks"]]
cur = {}
for pid in pids:
    subprocess.run([os.path.join(V, "check"), pid], stdout=subprocess.DEVNULL, stderr=subprocess.DEVNULL)
    ev = json.load(open(os.path.join(V, "evidence", pid + ".json")))
    keys = []
    for r in ev.get("rules", []) if isinstance(ev.get("rules"), list) else []:
        pass
    cur[pid] = sorted(set(ev.get("coverage", {}).get("instance_keys", [])))
path = os.path.join(V, "psa", "baseline_keys.json")
if "--update" in sys.argv or not os.path.exists(path):
    json.dump(cur, open(path, "w"), indent=0, sort_keys=True)
    print("stored", sum(len(v) for v in cur.values()), "keys")
    sys.exit(0)
old = json.load(open(path))
bad = 0
for pid in pids:
    gone = sorted(set(old.get(pid, [])) - set(cur[pid]))
    new = sorted(set(cur[pid]) - set(old.get(pid, [])))
    if gone or new:
        print(pid, "missing:", gone[:8], "new:", new[:8])
        bad += len(gone)
print("ok" if not bad else "%d instance keys disappeared" % bad)
