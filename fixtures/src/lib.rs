//! Positive / negative controls for the rule engine's detectors.  Analysed by the same driver on every run:
//! every `bad_*` function must make its detector fire, every `good_*` twin must stay silent.  No patronus code.
#![allow(dead_code, unused_variables, clippy::all)]
use std::io::BufRead;

// --- narrowing casts (R01.2 / R04.4 / R12.5) --------------------------------------------------
pub fn bad_narrow(x: u64) -> u32 {
    x as u32
}
pub fn good_narrow_guarded(x: u64, w: u32) -> u32 {
    if x >= w as u64 { w } else { x as u32 }
}
pub fn good_narrow_try(x: u64) -> Option<u32> {
    u32::try_from(x).ok()
}

// --- pairing / must-pass-through (R02.4) ------------------------------------------------------
pub fn open_scope(v: &mut Vec<u8>) -> Result<u8, ()> {
    v.push(1);
    Ok(1)
}
pub fn close_scope(v: &mut Vec<u8>) -> Result<(), ()> {
    v.pop();
    Ok(())
}
pub fn bad_pairing(v: &mut Vec<u8>, n: u8) -> Result<u8, ()> {
    for k in 0..n {
        let r = open_scope(v)?;
        if r == k {
            continue; // leaves the iteration without closing
        }
        close_scope(v)?;
    }
    Ok(0)
}
pub fn good_pairing(v: &mut Vec<u8>, n: u8) -> Result<u8, ()> {
    for k in 0..n {
        let r = open_scope(v)?;
        if r == k {
            return Err(());
        }
        close_scope(v)?;
    }
    Ok(0)
}

// --- evaluation and update fused in one loop (R07.1) ------------------------------------------
pub fn eval_one(store: &[u32], i: usize) -> u32 {
    store[i].wrapping_add(1)
}
pub fn bad_fused(store: &mut Vec<u32>) {
    for i in 0..store.len() {
        let v = eval_one(store, i);
        store[i] = v;
        store.push(v);
    }
}
pub fn good_two_phase(store: &mut Vec<u32>) {
    let next: Vec<u32> = (0..store.len()).map(|i| eval_one(store, i)).collect();
    for v in next {
        store.push(v);
    }
}

// --- read loop without end-of-stream exit (R15.1) ---------------------------------------------
pub fn bad_read_loop(inp: &mut impl BufRead, buf: &mut String) -> std::io::Result<()> {
    while buf.matches('(').count() > buf.matches(')').count() {
        inp.read_line(buf)?;
    }
    Ok(())
}
pub fn good_read_loop(inp: &mut impl BufRead, buf: &mut String) -> std::io::Result<()> {
    while buf.matches('(').count() > buf.matches(')').count() {
        if inp.read_line(buf)? == 0 {
            return Err(std::io::Error::other("eof"));
        }
    }
    Ok(())
}

// --- dropped results (R15.2) ------------------------------------------------------------------
pub fn fallible(x: u8) -> std::io::Result<u8> {
    Ok(x)
}
pub fn bad_result_dropped(x: u8) -> std::io::Result<u8> {
    let _ = fallible(x);
    fallible(x).ok();
    fallible(x)
}
pub fn good_result_used(x: u8) -> std::io::Result<u8> {
    let y = fallible(x)?;
    match fallible(y) {
        Ok(v) => Ok(v),
        Err(e) => Err(e),
    }
}

// --- explicit aborts (R14.5 / R15.6 / R18.1) --------------------------------------------------
pub fn bad_aborts(tokens: &[&str], n: Option<u8>) -> u8 {
    let mut open = 0u64;
    if tokens.is_empty() {
        todo!("empty");
    }
    open -= 1;
    n.unwrap()
}
pub fn good_no_aborts(tokens: &[&str], n: Option<u8>) -> Result<u8, ()> {
    let mut open = 1u64;
    if open == 0 {
        return Err(());
    }
    open -= 1;
    n.ok_or(())
}

// --- ambient state (R13.1) --------------------------------------------------------------------
static COUNTER: std::sync::atomic::AtomicUsize = std::sync::atomic::AtomicUsize::new(0);
pub fn bad_ambient(x: u32) -> u32 {
    COUNTER.fetch_add(1, std::sync::atomic::Ordering::Relaxed) as u32 + x
}
pub fn good_pure(x: u32) -> u32 {
    x + 1
}

// --- sorted-list typestate (R20.1) ------------------------------------------------------------
pub fn delete_entries(list: Vec<usize>, entries: &mut Vec<u8>) {
    let mut it = list.into_iter().peekable();
    let mut index = 0usize;
    entries.retain(|_| {
        let cur = index;
        index += 1;
        if it.peek().cloned() == Some(cur) {
            it.next();
            false
        } else {
            true
        }
    });
}
pub fn bad_unsorted_delete(entries: &mut Vec<u8>, prev: &[usize]) {
    let mut delete_list = vec![];
    for ii in 0..entries.len() {
        delete_list.push(prev[ii]);
    }
    delete_entries(delete_list, entries);
}
pub fn good_sorted_delete(entries: &mut Vec<u8>, prev: &[usize]) {
    let mut delete_list = vec![];
    for ii in 0..entries.len() {
        delete_list.push(prev[ii]);
    }
    delete_list.sort_unstable();
    delete_entries(delete_list, entries);
}
pub fn good_loop_index_delete(entries: &mut Vec<u8>) {
    let mut delete_list = vec![];
    for ii in 0..entries.len() {
        if entries[ii] == 0 {
            delete_list.push(ii);
        }
    }
    delete_entries(delete_list, entries);
}

// --- mutation of an append-only table (R12.1) -------------------------------------------------
pub struct Table {
    items: Vec<u32>,
}
impl Table {
    pub fn bad_remove(&mut self) {
        self.items.swap_remove(0);
    }
    pub fn good_append(&mut self, x: u32) -> usize {
        self.items.push(x);
        self.items.len() - 1
    }
}

// --- memo table keyed by less than the stored reference depends on (R12.6) ---------------------
#[derive(Clone, Copy, PartialEq, Eq, Hash)]
pub struct ExprRef(u32);
pub struct Memo {
    items: Vec<(u32, u32)>,
    by_name: std::collections::HashMap<u32, ExprRef>,
    by_both: std::collections::HashMap<(u32, u32), ExprRef>,
}
impl Memo {
    fn intern(&mut self, name: u32, tpe: u32) -> ExprRef {
        self.items.push((name, tpe));
        ExprRef(self.items.len() as u32 - 1)
    }
    pub fn bad_memo(&mut self, name: u32, tpe: u32) -> ExprRef {
        if let Some(existing) = self.by_name.get(&name) {
            *existing
        } else {
            let reference = self.intern(name, tpe);
            self.by_name.insert(name, reference);
            reference
        }
    }
    pub fn good_memo(&mut self, name: u32, tpe: u32) -> ExprRef {
        let key = (name, tpe);
        match self.by_both.get(&key) {
            Some(existing) => *existing,
            None => {
                let reference = self.intern(name, tpe);
                self.by_both.insert(key, reference);
                reference
            }
        }
    }
}
