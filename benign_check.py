#!/usr/bin/env python3
"""Runs every behaviour-preserving refactoring (benign/<name>.diff) against ALL checks on a scratch copy of /repo:
every report is a false alarm of the machinery.  usage: ./benign_check.py [dir-with-diffs ...]"""
import glob, json, os, shutil, subprocess, sys
sys.path.insert(0, os.path.dirname(os.path.abspath(__file__)))
import selftest
VERIF = os.path.dirname(os.path.abspath(__file__))
PIDS = [c["property_id"] for c in json.load(open(os.path.join(VERIF, "MANIFEST.json")))["checks"]]
dirs = sys.argv[1:] or [os.path.join(VERIF, "benign")]
total = alarms = 0
from concurrent.futures import ThreadPoolExecutor
ONLY = os.environ.get("BENIGN_ONLY", "").split(",") if os.environ.get("BENIGN_ONLY") else None


def one(dd, diff):
    global total, alarms
    if True:
        name = os.path.relpath(diff, os.path.dirname(dd.rstrip("/")))
        sc = selftest.scratch_copy()
        try:
            repo = sc + "/repo"
            r = subprocess.run(["git", "apply", "--unsafe-paths", "--directory=" + repo, diff], cwd="/", stdout=subprocess.PIPE, stderr=subprocess.STDOUT, text=True)
            if r.returncode != 0:
                r = subprocess.run(["patch", "-p1", "-d", repo, "-i", diff], stdout=subprocess.PIPE, stderr=subprocess.STDOUT, text=True)
            if r.returncode != 0:
                print("%-28s SKIPPED (does not apply)" % name)
                return
            total += 1
            fired = []
            for pid in PIDS:
                rc, out = selftest.run_check(pid, repo)
                if rc != 0:
                    keys = [l.strip().split(" at=")[0].split(" key=")[-1] for l in out.splitlines() if l.strip().startswith("rule=")]
                    if rc == 3 or "cargo check of /repo failed" in out:
                        keys = ["ENGINE/BUILD: " + out.strip().splitlines()[-1][:100]]
                    fired.append((pid, keys[:4]))
            if fired:
                alarms += 1
            print("%-28s %s" % (name, "silent" if not fired else "FALSE ALARM " + "; ".join("%s: %s" % (p, ", ".join(k)) for p, k in fired)))
            sys.stdout.flush()
        finally:
            shutil.rmtree(sc, ignore_errors=True)
jobs = [(dd, diff) for dd in dirs for diff in sorted(glob.glob(os.path.join(dd, "*.diff"))) if not ONLY or any(o in diff for o in ONLY)]
with ThreadPoolExecutor(max_workers=int(os.environ.get("BENIGN_JOBS", "5"))) as ex:
    list(ex.map(lambda a: one(*a), jobs))
print("%d refactorings, %d with at least one false alarm" % (total, alarms))
