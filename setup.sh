#!/bin/bash
# builds the fact extractor (offline, nightly toolchain is pre-installed) and warms the dependency cache
set -e
cd "$(dirname "$0")"
export CARGO_NET_OFFLINE=true
(cd psa-extract && cargo build --offline 2>&1 | tail -3)
test -x psa-extract/target/debug/psa-extract
python3 -c "
import sys; sys.path.insert(0,'.')
from psa import facts
d,i = facts.build_facts('lib')
print('facts:', d, i)
facts.load_fixtures()
print('fixture facts ok')
"
