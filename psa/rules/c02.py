"""C02 - loop shell of bounded model checking: ordering, step provenance, verdict provenance, pairing."""
from ..tree import *  # noqa
from .. import norm
from ..flow import Index, Pairing

BMC = "patronus::mc::bmc::bmc"
START = "patronus::mc::bmc::start_bmc_or_pdr"
CHECK = "patronus::mc::utils::check_assuming"
CHECK_END = "patronus::mc::utils::check_assuming_end"
GET_WITNESS = "patronus::mc::bmc::get_witness"
FAIL = "patronus::mc::types::ModelCheckResult::Fail"
SUCCESS = "patronus::mc::types::ModelCheckResult::Success"
SAT = "patronus::smt::solver::CheckSatResponse::Sat"
CTX_OR = "patronus::expr::context::Context::or"

EXPLANATION = ("Static analysis of the control-flow shell of mc::bmc::bmc (rustc HIR facts, structured dominance and a must-pass-through "
               "interpreter): constraints of step k are asserted before every bad-state query of step k, all step arguments are the loop variable "
               "of a loop 0..=k_max, Fail is constructed only under res == Sat of the same iteration's query, Success only after the loop, every "
               "check_assuming is paired with check_assuming_end on every path to the loop latch (also in mc::pdr::query and in the helper pair itself), "
               "both bad-state modes query the same signals. Faithfulness of the encoding is not decided here (see C04).")
ASSUMPTIONS = ["the SMT solver answers correctly", "the encoding means the system (C04, partially decided)",
               "trait-method names get_signal_at/init_at/unroll/assert/check_sat of SolverContext and TransitionSystemEncoding denote what they say"]
LEVEL_TEXT = ("Static ordering/pairing/provenance analysis of the BMC driver on all paths: decides the loop-shell clauses that exactness rests on (constraints before query, "
              "step = loop variable over 0..=k_max, verdict provenance, push/pop pairing, same signals in both modes). The pinned tests execute zero lines of this file (no solver offline); "
              "the rules cover every path of it. Encoding faithfulness and solver correctness are not decided."
              " The SMT-LIB text of every operator (C05's expression-writer clauses) and the encoding clauses (C04) are re-evaluated inside this check because the verdict is only as exact as they are.")
LEVEL_NOTE = "Structural necessary conditions only; assumes solver correctness and the C04 encoding clauses; names of trait methods are taken at face value."
TECHNIQUE = "structured dominance + must-pass-through (pairing) analysis and value-provenance rules on rustc HIR facts"


def mname(n, name):
    return n.get("k") == "mcall" and n["name"] == name


def is_get_signal_at(n):
    return n.get("k") == "mcall" and n["name"] == "get_signal_at" and "TransitionSystemEncoding" in (n.get("path") or "")


def range_of(it, defs):
    """(lo node, hi node, inclusive) of a range iterator expression"""
    it = peel(it)
    if it.get("k") == "call" and callee(it).endswith("RangeInclusive::new") and len(it["args"]) == 2:
        return it["args"][0], it["args"][1], True
    if it.get("k") == "struct" and it["path"].endswith("ops::range::Range"):
        fs = {f["name"]: f["e"] for f in it["fields"]}
        return fs.get("start"), fs.get("end"), False
    return None


def is_lit(n, v):
    n = peel(n)
    return n.get("k") == "lit" and n.get("v") == v


def inclusive_upto(rng, param_id):
    """range covers 0..=param: `0..=p` or `0..p + 1`"""
    if rng is None:
        return False
    lo, hi, inc = rng
    if not is_lit(lo, 0):
        return False
    hi = peel(hi)
    if inc:
        return is_local(hi, param_id)
    if hi.get("k") == "binary" and hi["op"] == "+":
        return (is_local(hi["l"], param_id) and is_lit(hi["r"], 1)) or (is_local(hi["r"], param_id) and is_lit(hi["l"], 1))
    return False


SET_PRESERVING = ("dedup", "sort", "sort_unstable", "sort_by_key", "sort_unstable_by_key", "reverse")


def only_reordered(defs, lid):
    """every edit of the copy keeps it the same set (dedup / sort / reverse): enough where only membership matters"""
    body = DEFS_BODY.get(id(defs))
    if body is None:
        return False
    for n in walk(body):
        k = n.get("k")
        if k in ("assign", "assignop"):
            l = n["l"]
            while isinstance(l, dict) and l.get("k") in ("index", "field", "unary", "paren"):
                l = l["e"]
            if isinstance(l, dict) and l.get("k") == "local" and l["id"] == lid:
                return False
        if k == "mcall" and n["name"] in MUTATORS and n["name"] not in SET_PRESERVING:
            r = n["recv"]
            while isinstance(r, dict) and r.get("k") in ("ref", "paren", "field", "index"):
                r = r["e"]
            if isinstance(r, dict) and r.get("k") == "local" and r["id"] == lid:
                return False
        if k == "ref" and n.get("mut") and isinstance(n.get("e"), dict) and n["e"].get("k") == "local" and n["e"]["id"] == lid:
            return False
    return True


def sys_list(n, defs, sys_id, field, as_set=False):
    """does expression n denote sys.<field> (directly, by clone, or through a local bound to it)?
    as_set: only the elements matter (a query over all of them), not their positions"""
    n = strip_try(n)
    base, ms = chain(n)
    while ms and ms[-1][0] in ("iter", "clone", "into_iter", "as_slice", "to_vec", "copied", "cloned"):
        ms = ms[:-1]
    if ms:
        return False
    fp = field_path(base)
    if fp and fp[1] is not None and sys_id is not None and canon(fp[1]) == canon(sys_id) and fp[2] == [field]:
        return True
    if base.get("k") == "local":
        init = simple_let_init(defs, base["id"])
        if init is not None:
            d = defs.get(base["id"])
            if d and d[0] == "let" and d[2].get("mut") and mutated_after_init(defs, base["id"]) is not False and not (as_set and only_reordered(defs, base["id"])):
                return False      # a copy that is edited afterwards (retain, push, ..; for positions also dedup / sort) is no longer the system's list
            return sys_list(init, defs, sys_id, field, as_set)
    return False


def run(ctx):
    loop_shell(ctx)
    # the encoding clauses (C04) are prerequisites of exactness: re-evaluated here, reported under their own rule ids
    from . import c04
    c04.run(ctx)
    # (c04.run also re-evaluates the expression-writer clauses of C05: a term written with the wrong operator or sort makes the solver
    # answer a different question; smt/serialize.rs is an anchor of this property too)


def loop_shell(ctx):
    ctx.rule("R02.1", "in the step loop of bmc: the loop asserting get_signal_at(c, k) for every constraint dominates every check_assuming; init_at(.., 0) dominates the loop; unroll is called exactly once per iteration, unconditionally, after the queries")
    ctx.rule("R02.2", "every step argument of get_signal_at in bmc is the loop variable; the loop ranges over 0..=k_max")
    ctx.rule("R02.3", "ModelCheckResult::Fail is constructed only under res == Sat where res is the check_assuming result of the same iteration, with a witness from get_witness(.., k, ..); Success only after the loop and under bad_states.is_empty()")
    ctx.rule("R02.4", "every path from a check_assuming call to the loop latch / function end passes check_assuming_end (paths leaving by return/?/panic exempt); push and pop in the helper pair are guarded by the same capability test")
    ctx.rule("R02.5", "both bad-state modes query the bad-state list of the system: individually each element, jointly their Context::or reduction")
    f = ctx.fn("patronus", BMC)
    ix = Index(f["body"])
    defs = local_defs(f)
    pnames = {}
    for p in f["params"]:
        for name, i in pat_bindings(p):
            pnames[name] = i
    sys_id = pnames.get("sys")
    kmax_id = pnames.get("k_max")
    if sys_id is None or kmax_id is None:
        ctx.violation("R02.2", "bmc:params", f["span"], "UNRECOGNISED: bmc has no parameters named sys / k_max")
        return
    # the step loop: outermost `for` whose range is 0..=k_max
    loops = [n for n in ix.nodes if n.get("k") == "for" and "loop" not in ix.region_kinds(n)]
    step_loop = None
    for l in loops:
        if range_of(l["iter"], defs) is not None:
            step_loop = l
    if step_loop is None:
        ctx.violation("R02.2", "bmc:step-loop", f["span"], "UNRECOGNISED: no top-level `for` over an integer range in bmc")
        return
    kb = binding_of_pat(step_loop["pat"])
    rng = range_of(step_loop["iter"], defs)
    ctx.inst("R02.2", "bmc:range", inclusive_upto(rng, kmax_id), step_loop["sp"],
             "the step loop iterates `%s`, not 0..=k_max: the last step (or the first) is never checked" % show(step_loop["iter"]),
             sample={"loop": "for %s in %s" % (show_pat(step_loop["pat"]), show(step_loop["iter"]))})
    k_id = kb[1] if kb else None
    body_nodes = [n for n in walk(step_loop["body"])]
    gsa = [n for n in body_nodes if is_get_signal_at(n)]
    ctx.floor("R02.2", "get_signal_at calls in bmc's step loop", len(gsa), 3)
    for i, n in enumerate(gsa):
        ctx.inst("R02.2", "bmc:get_signal_at#%d:step" % (i + 1), len(n["args"]) == 3 and is_local(n["args"][2], k_id), n["sp"],
                 "step argument of `%s` is not the loop variable" % show(n), sample=show(n))
    encs = {local_id(n["recv"]) for n in gsa}
    # R02.1 ------------------------------------------------------------------------------------------
    checks = [n for n in body_nodes if n.get("k") == "call" and callee(n) == CHECK]
    ends = [n for n in body_nodes if n.get("k") == "call" and callee(n) == CHECK_END]
    ctx.floor("R02.1", "check_assuming calls in bmc", len(checks), 2)
    # constraint loop
    cons_loop = None
    cons_loops = []
    for n in body_nodes:
        if n.get("k") == "for" and sys_list(n["iter"], defs, sys_id, "constraints"):
            vb = binding_of_pat(n["pat"])
            for a in walk(n["body"]):
                if mname(a, "assert") and "SolverContext" in (a.get("path") or ""):
                    # asserted expr must be get_signal_at(ctx, *var, k)
                    e = peel(a["args"][-1])
                    if e.get("k") == "local":
                        init = simple_let_init(defs, e["id"])
                        e = strip_try(init) if init is not None else e
                    if is_get_signal_at(e) and vb and is_local(e["args"][1], vb[1]) and is_local(e["args"][2], k_id):
                        if ix.regions[id(a)] == ix.regions[id(n)] + ix.regions[id(a)][len(ix.regions[id(n)]):][:1] and not any(x.get("k") in ("break", "continue", "return") for x in walk(n["body"])):
                            cons_loop = n
                            cons_loops.append(n)
    ctx.inst("R02.1", "bmc:constraint-loop", cons_loop is not None, step_loop["sp"],
             "no loop in the step loop asserts get_signal_at(c, k) unconditionally for every element of sys.constraints",
             sample=show(cons_loop)[:200] if cons_loop else None)
    for i, c in enumerate(checks):
        ok = any(ix.dominates(cl, c) for cl in cons_loops)
        ctx.inst("R02.1", "bmc:constraints-before-check#%d" % (i + 1), ok, c["sp"],
                 "the bad-state query `%s` is not dominated by the assertion of the step's constraints: executions violating a constraint at the last step count as counterexamples" % show(c)[:120])
    # init_at(.., 0) dominates the loop
    inits = [n for n in ix.nodes if mname(n, "init_at") and "TransitionSystemEncoding" in (n.get("path") or "")]
    ok = any(ix.dominates(n, step_loop) and is_lit(n["args"][-1], 0) and local_id(n["recv"]) in encs for n in inits)
    ctx.inst("R02.1", "bmc:init_at", ok, f["span"], "enc.init_at(.., 0) does not dominate the step loop (found: %s)" % [show(n) for n in inits])
    unrolls = [n for n in ix.nodes if mname(n, "unroll") and "TransitionSystemEncoding" in (n.get("path") or "")]
    in_loop = [n for n in unrolls if contains(step_loop["body"], n)]
    ok = len(unrolls) == 1 and len(in_loop) == 1 and ix.regions[id(in_loop[0])][:-1] == ix.regions[id(step_loop)] and len(ix.regions[id(in_loop[0])]) == len(ix.regions[id(step_loop)]) + 1 \
        and all(ix.precedes(c, in_loop[0]) for c in checks) and local_id(in_loop[0]["recv"]) in encs
    ctx.inst("R02.1", "bmc:unroll", ok, in_loop[0]["sp"] if in_loop else f["span"],
             "enc.unroll must be called exactly once per iteration, unconditionally and after the queries (found %d calls, %d in the loop)" % (len(unrolls), len(in_loop)))
    # R02.3 ------------------------------------------------------------------------------------------
    fails = [n for n in ix.nodes if n.get("k") == "ctor" and callee(n) == FAIL]
    ctx.floor("R02.3", "Fail constructions in bmc", len(fails), 2)
    for i, fl in enumerate(fails):
        why = fail_provenance(fl, ix, defs, k_id)
        ctx.inst("R02.3", "bmc:Fail#%d" % (i + 1), why is None, fl["sp"], "ModelCheckResult::Fail constructed %s" % why, sample=show(fl))
    succ = [n for n in ix.nodes if n.get("k") == "def" and n.get("path") == SUCCESS]
    for i, s_ in enumerate(succ):
        ok = ix.precedes(step_loop, s_) and "loop" not in ix.region_kinds(s_) and not [k for k in ix.region_kinds(s_) if k in ("then", "else", "arm")]
        ctx.inst("R02.3", "bmc:Success#%d" % (i + 1), ok, s_["sp"], "ModelCheckResult::Success is produced before the step loop has completed")
    ctx.inst("R02.3", "bmc:Success:count", len(succ) == 1, f["span"], "expected exactly one Success construction in bmc, found %d" % len(succ))
    g = ctx.fn("patronus", START)
    gix = Index(g["body"])
    for i, s_ in enumerate([n for n in gix.nodes if n.get("k") == "def" and n.get("path") == SUCCESS]):
        anc = [a for a in gix.ancestors(s_) if a.get("k") == "if"]
        ok = False
        for a in anc:
            b, ms = chain(a["cond"])
            fp = field_path(b)
            if fp and fp[2] == ["bad_states"] and [m[0] for m in ms] == ["is_empty"] and contains(a["then"], s_):
                ok = True
        ctx.inst("R02.3", "start_bmc_or_pdr:Success#%d" % (i + 1), ok, s_["sp"], "Success returned by start_bmc_or_pdr without the bad_states.is_empty() test")
    # R02.4 ------------------------------------------------------------------------------------------
    pairing(ctx, f, step_loop["body"], "bmc")
    c = ctx.facts.lib("patronus")
    n_other = 0
    for path, fl in c.fns.items():
        if path == BMC or not path.startswith("patronus::mc::"):
            continue
        for fn_ in fl:
            cs = [n for n in walk(fn_["body"]) if n.get("k") == "call" and callee(n) == CHECK]
            if not cs:
                continue
            n_other += 1
            fix_ = Index(fn_["body"])
            scopes = []
            for c_ in cs:
                l = fix_.enclosing(c_, ("for", "while", "loop"))
                sc = l["body"] if l else fn_["body"]
                if not any(sc is s for s in scopes):
                    scopes.append(sc)
            for sc in scopes:
                pairing(ctx, fn_, sc, path.split("::")[-1])
    ctx.floor("R02.4", "other functions calling check_assuming (pdr::query)", n_other, 1)
    helper_pair(ctx)
    # R02.5 ------------------------------------------------------------------------------------------
    for i, c_ in enumerate(checks):
        mode, why = queried(c_, ix, defs, sys_id, k_id)
        ctx.inst("R02.5", "bmc:check#%d:props" % (i + 1), mode is not None, c_["sp"], "query `%s`: %s" % (show(c_)[:100], why), sample={"mode": mode})


def binding_of_pat(p):
    while p.get("k") in ("pref", "pderef"):
        p = p["pat"]
    if p.get("k") == "pbind":
        return (p["name"], p["id"])
    return None


def is_sat_test(cond, defs):
    """`res == Sat` / `Sat == res`: returns local id of res"""
    c = peel(cond)
    if c.get("k") == "binary" and c["op"] == "==":
        l, r = peel(c["l"]), peel(c["r"])
        for a, b in ((l, r), (r, l)):
            if a.get("k") == "local" and b.get("k") == "def" and b.get("path") == SAT:
                return a["id"]
    return None


def fail_provenance(fl, ix, defs, k_id):
    anc = ix.ancestors(fl)
    res_id = None
    the_if = None
    for a in anc:
        if a.get("k") == "if" and contains(a["then"], fl):
            rid = is_sat_test(a["cond"], defs)
            if rid is not None:
                res_id, the_if = rid, a
                break
        if a.get("k") == "match":
            s_ = peel(a["scrut"])
            for arm in a["arms"]:
                if contains(arm["body"], fl) and s_.get("k") == "local":
                    alts = pat_alts(arm["pat"])
                    if all(x.get("k") == "pvariant" and x["path"] == SAT for x in alts) and "guard" not in arm:
                        res_id, the_if = s_["id"], a
            if res_id is not None:
                break
    guard_form = False
    if res_id is None:
        # `if res != Sat { ..; return/continue }` earlier in the block: the construction runs only under res == Sat
        from .. import norm as norm_
        for cnd, pol in norm_.path_conditions(ix, fl):
            rid = is_sat_test(cnd, defs)
            if rid is not None and pol:
                res_id, guard_form = rid, True
    payload = None
    if res_id is None:
        # `let failed = helper(..)?; if let Some(wit) = failed { Fail(wit) }`: the (inlined) helper hands back Some only under res == Sat
        from .. import norm as norm_
        for a in anc:
            pat = subj = None
            if a.get("k") == "if" and peel(a["cond"]).get("k") == "letexpr" and contains(a["then"], fl):
                pat, subj = peel(a["cond"])["pat"], peel(a["cond"])["init"]
            elif a.get("k") == "match":
                for arm in a["arms"]:
                    if contains(arm["body"], fl) and "guard" not in arm:
                        pat, subj = arm["pat"], a["scrut"]
            if pat is None:
                continue
            while pat.get("k") in ("pref", "pderef"):
                pat = pat["pat"]
            if not (pat.get("k") == "pvariant" and pat["path"].endswith("Option::Some")):
                continue
            tbl = norm_.result_table(ix, subj, unwrap=("Result::Ok",))
            somes = [(cs, leaf) for cs, leaf in tbl if peel(leaf).get("k") == "ctor" and callee(peel(leaf)).endswith("Option::Some")]
            if not somes or len(somes) != 1:
                continue
            cs, leaf = somes[0]
            for cnd, pol in cs:
                rid = is_sat_test(cnd, defs) if isinstance(cnd, dict) and cnd.get("k") != "armpat" else None
                if rid is not None and pol:
                    res_id, guard_form, payload = rid, True, peel(leaf)["args"][0]
            if res_id is not None:
                break
    if res_id is None:
        return "outside a `res == CheckSatResponse::Sat` branch"
    init = simple_let_init(defs, res_id) or LET_INITS.get(res_id) or LET_INITS.get(canon(res_id))
    if init is None:
        return "under a Sat test of a value that is not a plain let-bound query result"
    q = strip_try(init)
    if not (q.get("k") == "call" and callee(q) == CHECK):
        return "under a Sat test of `%s`, which is not the result of check_assuming" % show(init)
    d = (defs.get(res_id) or defs.get(canon(res_id)))[1]
    if guard_form:
        if not ix.precedes(d, fl) or ix.enclosing(d, ("for", "while", "loop")) is not ix.enclosing(fl, ("for", "while", "loop")):
            return "under a Sat test of a query result from a different iteration/branch"
    elif ix.regions[id(d)] != ix.regions[id(the_if)] or not ix.precedes(d, the_if):
        return "under a Sat test of a query result from a different iteration/branch"
    # the witness
    a = peel(fl["args"][0])
    if payload is not None:
        a = peel(payload)      # the value bound by the `Some(..)` pattern is the helper's payload
    w = a
    if a.get("k") == "local":
        wi = simple_let_init(defs, a["id"])
        w = strip_try(wi) if wi is not None else a
    if not (w.get("k") == "call" and callee(w) == GET_WITNESS):
        return "with a witness that does not come from get_witness: %s" % show(w)
    if not any(is_local(x, k_id) for x in w["args"]):
        return "with a witness extracted for a step other than the current loop step: %s" % show(w)
    return None


def returns_final_verdict(n):
    """`return Ok(ModelCheckResult::Fail(..))` / `return Err(..)`: the solver session is over"""
    if "e" not in n:
        return False
    e = peel(n["e"])
    if e.get("k") == "ctor" and callee(e).endswith("Result::Err"):
        return True
    if e.get("k") == "ctor" and callee(e).endswith("Result::Ok") and e["args"]:
        a = peel(e["args"][0])
        return a.get("k") == "ctor" and callee(a) == FAIL
    return False


def pairing(ctx, fn_, scope, tag):
    p = Pairing(lambda n: n.get("k") == "call" and callee(n) == CHECK, lambda n: n.get("k") == "call" and callee(n) == CHECK_END, returns_final_verdict)
    probs = p.run_scope(scope)
    n_starts = len([n for n in walk(scope) if n.get("k") == "call" and callee(n) == CHECK])
    for n, why in p.unrecognised:
        ctx.violation("R02.4", "%s:pairing:unrecognised" % tag, n["sp"], "UNRECOGNISED: " + why)
    ctx.inst("R02.4", "%s:pairing" % tag, not probs, probs[0][0].get("sp") if probs else scope.get("sp"),
             "%d check_assuming call(s) in %s; %s: the push/assert of the push/pop emulation leaks into later queries" % (n_starts, fn_["path"], "; ".join(w for _, w in probs)),
             sample={"function": fn_["path"], "check_assuming_calls": n_starts})


def helper_pair(ctx):
    """check_assuming pushes exactly when check_assuming_end pops: same capability test, opposite branches"""
    a = ctx.fn("patronus", CHECK)
    b = ctx.fn("patronus", CHECK_END)

    is_cap = lambda c: c.get("k") == "mcall" and c["name"] == "supports_check_assuming"
    sa = norm.bool_split(a["body"], is_cap)
    sb = norm.bool_split(b["body"], is_cap)
    if sa is None or sb is None:
        ctx.violation("R02.4", "helpers:shape", a["span"], "UNRECOGNISED: check_assuming / check_assuming_end do not branch on supports_check_assuming()")
        return
    sup_a, push_branch, ia = sa
    sup_b, pop_branch, ib = sb
    pushes = push_branch
    pops = pop_branch
    n_push = len([n for n in pushes if mname(n, "push")])
    n_pop = len([n for n in pops if mname(n, "pop")])
    bad_a = len([n for n in sup_a if mname(n, "push") or mname(n, "pop")])
    bad_b = len([n for n in sup_b if mname(n, "push") or mname(n, "pop")])
    ctx.inst("R02.4", "helpers:push-pop-balance", n_push == 1 and n_pop == 1 and bad_a == 0 and bad_b == 0, ia["sp"],
             "without check-sat-assuming support check_assuming pushes %d time(s) and check_assuming_end pops %d time(s); with support %d/%d stack operations" % (n_push, n_pop, bad_a, bad_b),
             sample={"push_in_unsupported_branch": n_push, "pop_in_unsupported_branch": n_pop})
    # emulation branch asserts every prop and then calls check_sat; supported branch forwards props
    asserts = [n for n in pushes if mname(n, "assert")]
    sat = [n for n in pushes if mname(n, "check_sat")]
    fwd = [n for n in sup_a if mname(n, "check_sat_assuming")]
    props_id = None
    for p in a["params"]:
        for name, i in pat_bindings(p):
            if name == "props":
                props_id = i
    ok = len(asserts) == 1 and len(sat) == 1 and len(fwd) == 1 and props_id is not None and is_local(fwd[0]["args"][-1], props_id)
    if ok:
        itc = norm.iter_context(Index(a["body"]), asserts[0])
        ok = itc is not None and itc["kind"] in ("for", "closure") and itc["via"] in ("for", "for_each", "try_for_each")
        if ok:
            b_, ms = chain(itc["src"])
            eb = pat_bindings(itc["pat"])
            ok = is_local(b_, props_id) and all(m[0] in ("into_iter", "iter", "copied", "cloned") for m in ms) and len(eb) == 1 and is_local(asserts[0]["args"][-1], eb[0][1]) \
                and not any(x.get("k") in ("continue", "break") for x in walk(itc["body"]))
    ctx.inst("R02.4", "helpers:emulation-asserts-props", ok, ia["sp"], "the push/pop emulation does not assert every assumption before check_sat, or the native branch does not forward the assumptions")


def queried(c_, ix, defs, sys_id, k_id):
    """what does this check_assuming query? returns (mode, explanation)"""
    arr = peel(c_["args"][-1])
    if arr.get("k") != "array" or len(arr["es"]) != 1:
        return None, "UNRECOGNISED: assumptions are not a one-element array"
    e = peel(arr["es"][0])
    if e.get("k") == "local":
        init = simple_let_init(defs, e["id"])
        if init is None:
            return None, "UNRECOGNISED: assumption is not let-bound"
        e = strip_try(init)
    if is_get_signal_at(e):
        # individual mode: enclosing loop over sys.bad_states
        l = ix.enclosing(c_, ("for",))
        vb = binding_of_pat(l["pat"]) if l else None
        if l is not None and vb and sys_list(l["iter"], defs, sys_id, "bad_states", as_set=True) and is_local(e["args"][1], vb[1]) and is_local(e["args"][2], k_id):
            return "individual", ""
        return None, "the individually checked signal is not an element of sys.bad_states at the loop step"
    base, ms = chain(e)
    names = [m[0] for m in ms]
    if "reduce" in names:
        red = ms[names.index("reduce")]
        cl = peel(red[1][0])
        okr = False
        if cl.get("k") == "closure" and len(cl["params"]) == 2:
            b = strip_try(peel_block(cl["body"]))
            ids = [binding_of_pat(p)[1] for p in cl["params"] if binding_of_pat(p)]
            if b.get("k") == "mcall" and callee(b) == CTX_OR and sorted(local_id(a) for a in b["args"]) == sorted(ids):
                okr = True
        if not okr:
            return None, "the joint query does not reduce the bad states with Context::or: %s" % show(red[2])[:160]
        # source of the reduction
        src = base
        pre = ms[:names.index("reduce")]
        if src.get("k") == "local":
            init = simple_let_init(defs, src["id"])
            if init is not None:
                src, pre2 = chain(init)
                pre = pre2 + pre
        pn = [m[0] for m in pre]
        if "map" not in pn and peel(base).get("k") == "local":
            # the list may be filled by a loop instead of map/collect
            bl = norm.built_by_loop(ix, defs, peel(base)["id"])
            if bl is not None:
                it, pat, el, lp = bl
                b = strip_try(el)
                vb = binding_of_pat(pat)
                if is_get_signal_at(b) and vb and is_local(b["args"][1], vb[1]) and is_local(b["args"][2], k_id) and sys_list(it, defs, sys_id, "bad_states", as_set=True) \
                        and not any(x in pn for x in ("filter", "skip", "take", "step_by", "rev", "skip_while", "take_while", "filter_map")):
                    return "joint", ""
        if "map" in pn:
            mp = pre[pn.index("map")]
            cl = peel(mp[1][0])
            if cl.get("k") == "closure" and len(cl["params"]) == 1:
                b = strip_try(peel_block(cl["body"]))
                vb = binding_of_pat(cl["params"][0])
                if is_get_signal_at(b) and vb and is_local(b["args"][1], vb[1]) and is_local(b["args"][2], k_id):
                    # the mapped collection
                    fp = field_path(src)
                    if (fp and fp[1] == sys_id and fp[2] == ["bad_states"]) or sys_list(src, defs, sys_id, "bad_states", as_set=True):
                        if any(x in pn for x in ("filter", "skip", "take", "step_by", "rev", "skip_while", "take_while", "filter_map")):
                            return None, "the joint query drops some bad states: %s" % pn
                        return "joint", ""
        return None, "the joint query is not built from get_signal_at over all of sys.bad_states: %s" % show(e)[:200]
    if names == ["unwrap"] or names == ["expect"] or not names:
        # an accumulator folded in a loop: `let mut acc = None; for b in bads { let s = signal(b, k); acc = Some(match acc { None => s, Some(a) => ctx.or(a, s) }) }; acc.unwrap()`
        acc = peel(base)
        if acc.get("k") == "local":
            aid = acc["id"]
            d = defs.get(aid) or defs.get(canon(aid))
            init0 = d[1].get("init") if d and d[0] == "let" else None
            none0 = init0 is not None and (peel(init0).get("path") or callee(peel(init0)) or "").endswith("Option::None")
            asg = [a_ for a_ in ix.nodes if a_.get("k") == "assign" and is_local(a_["l"], aid)]
            if none0 and len(asg) == 1:
                a_ = asg[0]
                lp = ix.enclosing(a_, ("for",))
                vb = binding_of_pat(lp["pat"]) if lp is not None else None
                direct = lp is not None and not norm.path_conditions(ix, a_, upto=lp)
                r = peel(a_["r"])
                inner = peel(r["args"][0]) if r.get("k") == "ctor" and callee(r).endswith("Option::Some") and len(r.get("args", [])) == 1 else None
                oe = norm.opt_elim(inner) if inner is not None else None

                def is_sig(x):
                    x = strip_try(resolve(peel(x)))
                    return is_get_signal_at(x) and vb and is_local(x["args"][1], vb[1]) and is_local(x["args"][2], k_id)
                if oe and direct and vb and sys_list(lp["iter"], defs, sys_id, "bad_states", as_set=True) and is_local(oe["scrut"], aid) and oe["none"] is not None and is_sig(oe["none"]) and oe["bind"] is not None:
                    sm = strip_try(norm.tail_value(oe["some"]))
                    if sm.get("k") == "mcall" and callee(sm) == CTX_OR and len(sm["args"]) == 2 and \
                            ((is_local(sm["args"][0], oe["bind"]) and is_sig(sm["args"][1])) or (is_local(sm["args"][1], oe["bind"]) and is_sig(sm["args"][0]))):
                        return "joint", ""
                return None, "the joint query is folded in a loop, but not as `or` over get_signal_at of every element of sys.bad_states: %s" % show(a_)[:160]
    return None, "UNRECOGNISED query expression %s" % show(e)[:160]
