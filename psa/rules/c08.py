"""C08 - the btor2 reader's operator table vs. the btor2 specification, literal table, negation handling,
op sets vs. arms, declared sort always enforced."""
from ..tree import *  # noqa
from ..flow import Index
from ..tables import *  # noqa
from .. import builders, semterm
from ..semterm import norm, fmt, Opaque
from .. import norm as norm_
from .c02 import binding_of_pat

P = "patronus::btor2::parse::Parser::"
MOD = "patronus::btor2::parse::"

EXPLANATION = ("Static table analysis of btor2::parse (rustc HIR facts): every operator arm of parse_unary_op/parse_bin_op/parse_ternary_op is reduced to a term over Context builders applied to the "
               "operand tokens and compared with the btor2 specification's meaning of that operator (Niemetz et al. 2018) modulo the comparison normal form (swap/negation), including which token positions carry "
               "attributes and how many tokens are consumed; the builders themselves are checked against their contract (T2); literal ops map to the right radix/builders; negated ids are wrapped in not exactly when "
               "negative and rejected for sorts/states; every name in the operator sets has an arm; the expression returned by each op parser is the value that passed check_expr_type against the sort read from token 2; "
               "init/next pass two type checks against the state's type. redand/redor/redxor are data-dependent lowerings and are listed as not analysed.")
ASSUMPTIONS = ["the IR variants mean what expr::eval implements (C06, partially decided)", "baa::BitVecValue::from_str_radix parses the given radix correctly"]
LEVEL_TEXT = ("Exhaustive sibling-table comparison of the reader's operator lowering (54 operator names) against an oracle stating the btor2 standard, composed with the checked builder contract: decides operator identity, "
              "operand order (slt/ult/slte/ulte swaps, write/ite/read order), derived-operator negations, attribute token positions and that the declared sort is always enforced - for every operator, including the many no test file uses."
              " The reader's set of names in use is written only through the helper that probes it first (who-may-write).")
LEVEL_NOTE = "Oracle table = btor2 paper's operator semantics; reductions (redand/redor/redxor) are listed as not analysed; values below the IR are C06's concern."
TECHNIQUE = "builder-term abstract interpretation of match arms vs. specification oracle table; must-pass-through on the returned value; set/arm agreement"

t3, t4, t5 = ("tok", 3), ("tok", 4), ("tok", 5)
ORACLE_UN = {
    "not": (("not", t3), 4), "neg": (("neg", t3), 4),
    "inc": (("add", t3, ("one", ("sortwidth", 2))), 4), "dec": (("sub", t3, ("one", ("sortwidth", 2))), 4),
    "slice": (("extract", t3, ("int", 4), ("int", 5)), 6), "uext": (("zext", t3, ("int", 4)), 5), "sext": (("sext", t3, ("int", 4)), 5),
}
ORACLE_BIN = {
    "iff": ("eq", t3, t4), "implies": ("implies", t3, t4),
    "sgt": ("cmp", "gt", "s", t3, t4), "ugt": ("cmp", "gt", "u", t3, t4), "sgte": ("cmp", "ge", "s", t3, t4), "ugte": ("cmp", "ge", "u", t3, t4),
    "slt": ("cmp", "gt", "s", t4, t3), "ult": ("cmp", "gt", "u", t4, t3), "slte": ("cmp", "ge", "s", t4, t3), "ulte": ("cmp", "ge", "u", t4, t3),
    "and": ("and", t3, t4), "nand": ("not", ("and", t3, t4)), "nor": ("not", ("or", t3, t4)), "or": ("or", t3, t4), "xnor": ("not", ("xor", t3, t4)), "xor": ("xor", t3, t4),
    "sll": ("shl", t3, t4), "sra": ("ashr", t3, t4), "srl": ("lshr", t3, t4), "add": ("add", t3, t4), "mul": ("mul", t3, t4),
    "sdiv": ("sdiv", t3, t4), "udiv": ("udiv", t3, t4), "smod": ("smod", t3, t4), "srem": ("srem", t3, t4), "urem": ("urem", t3, t4), "sub": ("sub", t3, t4),
    "concat": ("concat", t3, t4), "eq": ("eq", t3, t4), "neq": ("not", ("eq", t3, t4)), "read": ("select", t3, t4),
}
ORACLE_TER = {"ite": ("ite", t3, t4, t5), "write": ("store", t3, t4, t5)}
DOCUMENTED_UNSUPPORTED = {"rol", "ror", "saddo", "uaddo", "sdivo", "udivo", "smulo", "umulo", "ssubo", "usubo", "fair", "justice"}
DATA_DEPENDENT = {"redand", "redor", "redxor"}


def tok_index(n):
    """tokens[K] / cont.tokens[K] -> K"""
    n = resolve(n)
    if n.get("k") == "index":
        i = peel(n["i"])
        b = peel(n["e"])
        if i.get("k") == "lit" and isinstance(i.get("v"), int):
            if (b.get("k") == "local" and b["name"] == "tokens") or (b.get("k") == "field" and b["name"] == "tokens"):
                return i["v"]
    return None


def make_leaf():
    def leaf(n, env):
        if n.get("k") == "mcall":
            c = callee(n) or ""
            if c == P + "get_expr_from_line_id":
                k = tok_index(n["args"][1])
                if k is not None:
                    return ("tok", k)
            if c == P + "parse_width_int":
                k = tok_index(n["args"][1])
                if k is not None:
                    return ("int", k)
            if c == P + "get_tpe_from_id":
                k = tok_index(n["args"][1])
                if k is not None:
                    return ("sort", k)
            if c == P + "get_bv_width":
                k = tok_index(n["args"][1])
                if k is not None:
                    return ("sortwidth", k)
            if c == P + "require_bv" and n["args"] and getattr(leaf, "ex", None) is not None:
                # the checked width of an operand: `let width = self.require_bv(e, ..)?`
                return ("widthof", leaf.ex.ev(n["args"][0], env))
        return None
    return leaf


def declared_width(t):
    """`add(x, one(width of x))`: the result of a same-width operator has the width of its operand, and the result is compared with the
    sort in token 2 before it is returned (R08.5), so a constant built from the operand's checked width has the declared width"""
    if not isinstance(t, tuple):
        return t
    t = tuple(declared_width(x) for x in t)
    if t[0] in ("add", "sub") and len(t) == 3:
        for i in (1, 2):
            c_, o_ = t[i], t[3 - i]
            if isinstance(c_, tuple) and c_[0] in ("one", "zero", "ones") and c_[1] == ("widthof", o_):
                t = t[:i] + ((c_[0], ("sortwidth", 2)),) + t[i + 1:]
    return t


def transparent(n):
    c = callee(n) or ""
    return c in (P + "require_at_least_n_tokens", P + "check_type", P + "check_expr_type", P + "require_bv", P + "require_same_type", P + "add_error")


def passthrough(n):
    # check_expr_type(e, line, tpe) returns e when the sorts agree
    if (callee(n) or "") == P + "check_expr_type":
        return 1
    return None


def op_arms(f):
    """(match node, {op name: arm}, catch-all arms) for the match on tokens[1] / op string"""
    best = None
    for n in walk(f["body"]):
        if n.get("k") == "match" and n.get("src") == "match":
            names = {}
            other = []
            for alt, arm in match_arms(n):
                if alt.get("k") == "plit" and alt.get("lk") == "str":
                    names.setdefault(alt["v"], arm)
                else:
                    other.append((alt, arm))
            if names and (best is None or len(names) > len(best[1])):
                best = (n, names, other)
    return best


def const_strings(ctx, name):
    f = ctx.fn("patronus", MOD + name)
    b = peel(f["body"])
    if b.get("k") != "array":
        ctx.violation("R08.4", "%s:shape" % name, f["span"], "UNRECOGNISED: %s is not an array of string literals" % name)
        return []
    return [peel(x).get("v") for x in b["es"]]


def run(ctx):
    ctx.rule("T2", "every Context builder constructs the variant(s) its contract names, with parameters in the contracted child positions and attributes computed as contracted; Builder wrappers forward in order")
    ctx.rule("R08.1", "for every operator arm whose lowering is a builder term: the term equals the btor2 meaning of the operator over the operand tokens (modulo comparison normal form), attributes come from the right tokens, and the reported token count is right")
    ctx.rule("R08.2", "literal ops: const/constd/consth parse token 3 with radix 2/10/16 at the declared width; zero/one/ones use the matching builders; the width comes from the sort in token 2")
    ctx.rule("R08.3", "operand ids are wrapped in Context::not exactly when negative; sort ids and state ids reject negation; parse_line_id returns (|id|, id < 0)")
    ctx.rule("R08.4", "every name in UNARY_OPS/BINARY_OPS/TERNARY_OPS has an arm in its parser (else it reaches the generic panic arm); the dispatcher sends each set to its parser")
    ctx.rule("R08.5", "the expression returned by parse_unary_op/parse_bin_op/parse_ternary_op is the value returned by check_expr_type(.., sort from token 2)?; init/next are checked against the state's type before and after array lifting")
    t0 = T0(ctx)
    builders.check_t2(ctx, t0)
    n_rows = 0
    for fname, oracle, nops in (("parse_unary_op", ORACLE_UN, 1), ("parse_bin_op", ORACLE_BIN, 2), ("parse_ternary_op", ORACLE_TER, 3)):
        f = ctx.fn("patronus", P + fname)
        defs = local_defs(f)
        lf_ = make_leaf()
        ex = semterm.Extractor(defs, lf_, transparent, passthrough)
        lf_.ex = ex
        oa = op_arms(f)
        if oa is None:
            ctx.violation("R08.1", "%s:shape" % fname, f["span"], "UNRECOGNISED: no match on the operator name")
            continue
        m, arms, others = oa
        on_tok1 = tok_index(m["scrut"]) == 1 or any(x.get("k") == "match" and tok_index(x["scrut"]) == 1 and any(a_.get("k") == "plit" and a_.get("lk") == "str" for arm_ in x["arms"] for a_ in pat_alts(arm_["pat"]))
                                                    for x in walk(f["body"]))
        ctx.inst("R08.1", "%s:dispatch-on-op-token" % fname, on_tok1, m["sp"], "the operator match does not inspect token 1: %s" % show(m["scrut"]))
        # default token count for bin/ternary is the literal in the final Ok((checked, N))
        final_count = None
        tail = strip_try(stmts_of(f["body"])[-1])
        if tail.get("k") == "ctor" and tail["args"]:
            tp = peel(tail["args"][0])
            if tp.get("k") == "tuple" and len(tp["es"]) == 2 and peel(tp["es"][1]).get("k") == "lit":
                final_count = peel(tp["es"][1])["v"]
        setname = {"parse_unary_op": "UNARY_OPS", "parse_bin_op": "BINARY_OPS", "parse_ternary_op": None}[fname]
        listed = const_strings(ctx, setname) if setname else ["ite", "write"]
        lowered = set()
        rows_ = dict(arms)
        for op in listed:
            rows_.setdefault(op, None)          # an operator without an arm of its own may be lowered through a lookup (`nand` -> not(and))
        for op, arm in sorted(rows_.items()):
            if arm is None:
                arm = {"sp": f["span"], "body": f["body"]}
                if op in DOCUMENTED_UNSUPPORTED or op in DATA_DEPENDENT:
                    continue
                try:
                    ex.spec = lambda e_, op=op: op if tok_index(e_) == 1 else None
                    ex.ev(f["body"], {})
                except Opaque:
                    continue                     # no lowering found: reported by R08.4 `has-arm`
            if op in DOCUMENTED_UNSUPPORTED:
                continue
            if op in DATA_DEPENDENT:
                ctx.skipped("R08.1 %s: data-dependent lowering (branch on the operand width), not reduced to a term" % op)
                continue
            want = oracle.get(op)
            if want is None:
                ctx.violation("R08.1", "%s:%s" % (fname, op), arm["sp"], "operator `%s` has an arm in %s but no row in the btor2 oracle" % (op, fname))
                continue
            try:
                # the whole function specialised to this operator token: (checked expression, token count)
                ex.spec = lambda e_, op=op: op if tok_index(e_) == 1 else None
                got = ex.ev(f["body"], {})
            except Opaque as e:
                ctx.violation("R08.1", "%s:%s" % (fname, op), arm["sp"], "UNRECOGNISED lowering of `%s` (%s: %s)" % (op, e.why, show(e.node)[:80]))
                continue
            count = final_count
            if isinstance(got, tuple) and got[0] == "tuple" and len(got) == 3 and isinstance(got[2], tuple) and got[2][0] == "lit":
                got, count = got[1], got[2][1]
            wterm, wcount = want if fname == "parse_unary_op" else (want, 3 + nops)
            n_rows += 1
            lowered.add(op)
            got = declared_width(got)
            ok = norm(got) == norm(wterm)
            ctx.inst("R08.1", "%s:%s" % (fname, op), ok, arm["sp"], "btor2 `%s` is lowered to %s, the standard defines it as %s" % (op, fmt(norm(got)), fmt(norm(wterm))),
                     sample={"op": op, "lowering": fmt(got)})
            ctx.inst("R08.1", "%s:%s:token-count" % (fname, op), count == wcount, arm["sp"], "`%s` reports %s consumed tokens, expected %s: the optional name token would be read from the wrong position" % (op, count, wcount), nontrivial=False)
        # R08.4 set vs arms
        if setname:
            for op in const_strings(ctx, setname):
                ctx.inst("R08.4", "%s:%s:has-arm" % (setname, op), op in arms or op in lowered, f["span"],
                         "`%s` is listed in %s and dispatched to %s, which has no arm for it: the line reaches the generic `panic!(\"unexpected ... op\")` arm" % (op, setname, fname), sample=op)
        else:
            for op in ("ite", "write"):
                ctx.inst("R08.4", "ternary:%s:has-arm" % op, op in arms or op in lowered, f["span"], "`%s` has no arm in parse_ternary_op" % op)
        r085(ctx, f, fname, m)
    ctx.floor("R08.1", "operator rows compared with the oracle", n_rows, 38)
    dispatcher(ctx)
    literals(ctx)
    negation(ctx)
    init_next(ctx)
    name_table(ctx)


def name_table(ctx):
    """R08.6: symbols are hash-consed by name and type, so two lines that get the same name become the same signal.  The reader keeps the set of
    names in use; a name may enter that set only through the helper that first probes it for membership (who-may-write)."""
    ctx.rule("R08.6", "the reader's set of names in use is written only by the probing helper (a loop on `contains` before the insert); every other function reaches it through that helper")
    c = ctx.facts.lib("patronus")
    table_fields = set()
    probing = {}
    for path, fl in c.raw_fns.items():
        if not path.startswith(MOD) or "::tests::" in path:
            continue
        f = fl[0]
        # a helper that inserts into a set parameter only after a `while used.contains(..)` probe of the same set
        for p_ in f.get("params", []):
            b_ = binding_of_pat(p_)
            if not b_ or "HashSet<" not in str(p_.get("ty", "")):
                continue
            ins = [x for x in walk(f["body"]) if x.get("k") == "mcall" and x["name"] == "insert" and is_local(x["recv"], b_[1])]
            probes = [x for x in walk(f["body"]) if x.get("k") == "while" and any(y.get("k") == "mcall" and y["name"] == "contains" and is_local(y["recv"], b_[1]) for y in walk(x["cond"]))]
            if ins and probes:
                probing[path] = [i_ for i_, q in enumerate(f["params"]) if q is p_][0]
    writes, through = [], 0
    for path, fl in sorted(c.raw_fns.items()):
        if not path.startswith(MOD) or "::tests::" in path:
            continue
        f = fl[0]
        for x in walk(f["body"]):
            if x.get("k") == "call" and callee(x) in probing:
                a_ = x["args"][probing[callee(x)]] if probing[callee(x)] < len(x["args"]) else {}
                fp = field_path(a_)
                if fp and fp[0] == "self" and len(fp[2]) == 1:
                    table_fields.add(fp[2][0])
                    through += 1
    for path, fl in sorted(c.raw_fns.items()):
        if not path.startswith(MOD) or "::tests::" in path or path in probing:
            continue
        f = fl[0]
        for x in walk(f["body"]):
            if x.get("k") == "mcall" and x["name"] in ("insert", "extend", "remove", "clear", "retain", "take"):
                fp = field_path(x["recv"])
                if fp and fp[0] == "self" and len(fp[2]) == 1 and fp[2][0] in table_fields:
                    writes.append((path, x))
    ctx.inst("R08.6", "names-in-use:written-through-the-probe-only", not writes, writes[0][1]["sp"] if writes else None,
             "%s writes the set of names in use directly (`%s`) instead of through %s: a generated name that is already taken is handed out again, and since symbols are hash-consed by name and type the two lines become one signal" % (
                 writes[0][0] if writes else "", show(writes[0][1])[:60] if writes else "", sorted(x_.split("::")[-1] for x_ in probing)),
             sample={"table": sorted(table_fields), "probing helpers": sorted(probing), "calls through the helper": through})
    ctx.floor("R08.6", "calls of the probing name helper on the reader's name table", through, 1)


def r085(ctx, f, fname, m):
    """the ExprRef in the Ok result is the value of check_expr_type(<match result>, line, tpe)? with tpe from token 2"""
    ix = Index(f["body"])
    defs = local_defs(f)
    tail = strip_try(stmts_of(f["body"])[-1])
    ok = False
    why = "the function does not end in Ok((checked, count))"
    call_direct = None
    if tail.get("k") == "mcall" and tail["name"] == "map" and len(tail["args"]) == 1 and "Result" in (tail.get("path") or ""):
        # `self.check_expr_type(res, line, tpe).map(|checked| (checked, n))`
        cl_ = resolve(tail["args"][0])
        if cl_.get("k") == "closure" and len(cl_.get("params", [])) == 1:
            pb_ = pat_bindings(cl_["params"][0])
            tb_ = peel(peel_block(cl_["body"]))
            if len(pb_) == 1 and tb_.get("k") == "tuple" and tb_["es"] and is_local(tb_["es"][0], pb_[0][1]):
                call_direct = peel(strip_try(tail["recv"]))
    if (tail.get("k") == "ctor" and tail["args"]) or call_direct is not None:
        tp = peel(tail["args"][0]) if call_direct is None else {"k": "tuple", "es": [{"k": "lit"}]}
        if tp.get("k") == "tuple":
            v = peel(tp["es"][0])
            init = simple_let_init(defs, v["id"]) if v.get("k") == "local" else None
            why = "the returned expression `%s` is not bound to the result of check_expr_type(..)?" % show(v)
            if call_direct is not None:
                init = {"k": "try", "e": call_direct}
            if init is not None and init.get("k") == "try":
                call = peel(init["e"])
                if call.get("k") == "mcall" and callee(call) == P + "check_expr_type":
                    a0, a2 = peel(call["args"][0]), peel(call["args"][2])
                    # a0 must be the match result (directly or destructured from it)
                    src_ok = False
                    if a0.get("k") == "local":
                        d = defs.get(a0["id"])
                        if d and d[0] == "let" and "init" in d[1] and (peel(d[1]["init"]) is m or contains(d[1]["init"], m)):
                            src_ok = True        # the value lowered by the operator dispatch (directly, or through a lookup around it)
                    tpe_ok = False
                    if a2.get("k") == "local":
                        ti = simple_let_init(defs, a2["id"])
                        if ti is not None:
                            tc = strip_try(ti)
                            tpe_ok = tc.get("k") == "mcall" and callee(tc) == P + "get_tpe_from_id" and tok_index(tc["args"][1]) == 2
                    ok = src_ok and tpe_ok
                    why = "check_expr_type is applied to `%s` against `%s` (must be the operator's result against the sort in token 2)" % (show(a0), show(a2))
    # no early Ok return that bypasses the check
    early = [n for n in ix.nodes if n.get("k") == "return" and "e" in n and peel(n["e"]).get("k") == "ctor" and callee(peel(n["e"])).endswith("Result::Ok")]
    ctx.inst("R08.5", "%s:result-passes-sort-check" % fname, ok and not early, f["span"], "%s: %s%s - a line whose declared sort disagrees with its operands would be accepted" % (fname, why, "; early Ok return" if early else ""),
             sample=show(tail)[:100])


def dispatcher(ctx):
    f = ctx.fn("patronus", P + "parse_line")
    ix = Index(f["body"])
    want = {"UNARY_OPS_SET": "parse_unary_op", "BINARY_OPS_SET": "parse_bin_op"}
    # which parser is reached under which operator condition: the conditions of every parse_* call site, with a classification enum
    # (`LineKind::classify(op)` .. `match kind { LineKind::Unary => .. }`) replaced by the operator tests that select its variants
    seen = {}
    from .. import norm as norm__
    for x in ix.nodes:
        if not (x.get("k") == "mcall" and (callee(x) or "").startswith(P + "parse_")):
            continue
        cname = callee(x).split("::")[-1]
        for conds in norm__.expand_enum_conditions(ix, norm__.path_conditions(ix, x, arms=True)):
            keys = []
            for c_, pol in conds:
                if not pol:
                    continue
                if c_.get("k") == "armpat":
                    for alt in pat_alts(c_["pat"]):
                        while alt.get("k") in ("pref", "pderef"):
                            alt = alt["pat"]
                        if alt.get("k") == "plit" and isinstance(alt.get("v"), str):
                            keys.append(alt["v"])
                else:
                    b, ms = chain(c_)
                    if [y[0] for y in ms] == ["contains"] and b.get("k") in ("def", "unary"):
                        keys.append(show(b).replace("*", "").split("::")[-1])
            for k_ in keys:
                if cname not in seen.setdefault(k_, []):
                    seen[k_].append(cname)
    for s_, fn_ in want.items():
        ctx.inst("R08.4", "dispatch:%s" % s_, seen.get(s_) == [fn_], f["span"], "operators in %s must be dispatched to %s (found %s)" % (s_, fn_, seen.get(s_)))
    for op, fn_ in (("ite", "parse_ternary_op"), ("write", "parse_ternary_op"), ("const", "parse_format"), ("constd", "parse_format"), ("consth", "parse_format"), ("zero", "parse_format"), ("one", "parse_format"), ("ones", "parse_ones"),
                    ("sort", "parse_sort"), ("state", "parse_state"), ("input", "parse_input"), ("init", "parse_state_init_or_next"), ("next", "parse_state_init_or_next")):
        ctx.inst("R08.4", "dispatch:%s" % op, seen.get(op) == [fn_], f["span"], "`%s` must be handled by %s (found %s)" % (op, fn_, seen.get(op)))
    def op_keys(node):
        """the operator literals under which `node` runs"""
        keys = set()
        for conds in norm__.expand_enum_conditions(ix, norm__.path_conditions(ix, node, arms=True)):
            cur = None                      # a conjunction: the operator is in every one of the literal sets tested on this path
            for c_, pol in conds:
                if pol and c_.get("k") == "armpat":
                    lits = set()
                    for alt in pat_alts(c_["pat"]):
                        while alt.get("k") in ("pref", "pderef"):
                            alt = alt["pat"]
                        if alt.get("k") == "plit" and isinstance(alt.get("v"), str):
                            lits.add(alt["v"])
                    if lits:
                        cur = lits if cur is None else (cur & lits)
            keys |= (cur or set())
        return keys
    # init vs next flag
    c = [x for x in ix.nodes if x.get("k") == "mcall" and callee(x) == P + "parse_state_init_or_next"]
    ok = flag_encoding(ctx) is not None
    if c:
        ctx.inst("R08.4", "dispatch:init-flag", ok, c[0]["sp"], "init/next lines must pass `op == \"init\"` as the is-init flag: %s" % (show(c[0]["args"][2]) if c else "?"))
    # output / bad / constraint push the referenced expression (token 2) to the right list
    rows = {}
    for x in ix.nodes:
        if x.get("k") == "mcall" and x["name"] == "push":
            fp_ = field_path(x["recv"])
            if fp_ and fp_[0] == "self" and len(fp_[2]) == 2 and fp_[2][0] == "sys":
                for k_ in op_keys(x):
                    rows.setdefault(k_, []).append(fp_[2][-1])
    if rows:
        want2 = {"output": ["outputs"], "bad": ["bad_states"], "constraint": ["constraints"]}
        for k_, v_ in want2.items():
            ctx.inst("R08.4", "dispatch:%s-list" % k_, rows.get(k_) == v_, f["span"], "`%s` lines must be pushed onto sys.%s (found %s)" % (k_, v_[0], rows.get(k_)))
        e = [x for x in ix.nodes if x.get("k") == "mcall" and callee(x) == P + "get_expr_from_line_id" and "output" in op_keys(x)]
        ctx.inst("R08.4", "dispatch:output-operand", len(e) == 1 and tok_index(e[0]["args"][1]) == 2, e[0]["sp"] if e else f["span"], "output/bad/constraint must reference the expression id in token 2")


def literals(ctx):
    f = ctx.fn("patronus", P + "parse_format")
    defs = local_defs(f)
    oa = op_arms(f)
    if oa is None:
        ctx.violation("R08.2", "parse_format:shape", f["span"], "UNRECOGNISED")
        return
    m, arms, _ = oa
    PP = {name: i for p in f["params"] for name, i in pat_bindings(p)}
    ctx.inst("R08.2", "parse_format:dispatch", is_local(m["scrut"], PP.get("op")), m["sp"], "parse_format must match on its op parameter")
    width_id = None
    for i, d in defs.items():
        if d[0] == "let" and binding_of_pat(d[2]) and binding_of_pat(d[2])[0] == "width":
            c = strip_try(d[1]["init"])
            if c.get("k") == "mcall" and callee(c) == P + "get_bv_width" and tok_index(c["args"][1]) == 2:
                width_id = i
    ctx.inst("R08.2", "parse_format:width-from-sort", width_id is not None, f["span"], "the literal's width must come from get_bv_width(tokens[2])")
    rows_ = format_rows(f)
    want = {"const": ("parse_lit", ("tok", 3), ("lit", 2), ("sortwidth", 2)), "constd": ("parse_lit", ("tok", 3), ("lit", 10), ("sortwidth", 2)),
            "consth": ("parse_lit", ("tok", 3), ("lit", 16), ("sortwidth", 2)), "zero": ("zero", ("sortwidth", 2)), "one": ("one", ("sortwidth", 2))}
    for op, wterm in want.items():
        arm = arms.get(op)
        shown = None
        ok = False
        if arm is not None:
            got = rows_.get(op)
            if isinstance(got, Opaque):
                shown = "UNRECOGNISED (%s: %s)" % (got.why, show(got.node)[:60])
            elif got is not None:
                shown = fmt(got)
                wcount = 4 if op.startswith("const") else 3
                ok = got == ("tuple", wterm, ("lit", wcount))
        what = ("parse token 3 with radix %d at the declared width" % wterm[2][1]) if op.startswith("const") else ("build Context::%s(declared width)" % op)
        ctx.inst("R08.2", "literal:%s" % op, ok, arm["sp"] if arm else f["span"], "`%s` must %s and report %d tokens: %s" % (op, what, 4 if op.startswith("const") else 3, shown), sample=shown)
    g = ctx.fn("patronus", P + "parse_ones")
    txt = show(g["body"])
    ok = False
    for x in walk(g["body"]):
        if x.get("k") == "mcall" and callee(x) == builders.CTX + "::bv_lit" and x.get("args"):
            v = strip_try(resolve(strip_try(x["args"][0])))
            if v.get("k") == "call" and (callee(v) or "").endswith("BitVecValue::ones") and len(v["args"]) == 1:
                w = strip_try(resolve(strip_try(v["args"][0])))
                ok = w.get("k") == "mcall" and callee(w) == P + "get_bv_width" and tok_index(w["args"][1]) == 2
    ctx.inst("R08.2", "literal:ones", ok, g["span"], "`ones` must build the all-ones literal of the declared width: %s" % txt[:160])
    h = ctx.fn("patronus", P + "parse_bv_lit_str")
    HP = {name: i for p in h["params"] for name, i in pat_bindings(p)}
    calls = [x for x in walk(h["body"]) if x.get("k") == "call" and (callee(x) or "").endswith("from_str_radix")]
    ok = len(calls) == 1 and is_local(calls[0]["args"][0], HP.get("token")) and is_local(calls[0]["args"][1], HP.get("base")) and is_local(calls[0]["args"][2], HP.get("width"))
    ctx.inst("R08.2", "parse_bv_lit_str", ok, h["span"], "parse_bv_lit_str must call from_str_radix(token, base, width)")


def format_rows(f):
    """parse_format specialised to each literal operator: {op: ("tuple", value built, ("lit", tokens consumed)) | Opaque}"""
    defs = local_defs(f)
    base_leaf = make_leaf()
    p_op = (param_ids(f) + [None] * 4)[3]           # parse_format(&mut self, line, tokens, op)
    ex = semterm.Extractor(defs, None, transparent, passthrough)

    def leaf(n, env):
        if n.get("k") == "mcall" and callee(n) == P + "parse_bv_lit_str" and len(n["args"]) == 4:
            k_ = tok_index(n["args"][1])
            if k_ is not None:
                return ("parse_lit", ("tok", k_), ex.ev(n["args"][2], env), ex.ev(n["args"][3], env))
        return base_leaf(n, env)
    ex.leaf = leaf
    out = {}
    for op in ("const", "constd", "consth", "zero", "one"):
        try:
            ex.spec = lambda e_, op=op: op if (p_op is not None and is_local(e_, p_op)) else None
            out[op] = ex.ev(f["body"], {})
        except Opaque as e:
            out[op] = e
    return out


def negation(ctx):
    f = ctx.fn("patronus", P + "get_expr_from_line_id")
    defs = local_defs(f)
    ok = False
    shown = ""
    neg_id = None
    for i, d in defs.items():
        if d[0] == "let" and d[2].get("k") == "ptuple" and "init" in d[1]:
            c = strip_try(d[1]["init"])
            if c.get("k") == "mcall" and callee(c) == P + "parse_line_id":
                bs = [binding_of_pat(x) for x in d[2]["subs"]]
                if len(bs) == 2 and bs[1]:
                    neg_id, id_id = bs[1][1], bs[0][1]
    # every successful result: Context::not(signal) exactly when the id was negative, the signal itself otherwise
    ix = Index(f["body"])

    def leaves(e):
        e = norm_.tail_value(e)
        if e.get("k") == "if" and "else" in e:
            return leaves(e["then"]) + leaves(e["else"])
        if e.get("k") == "match":
            out_ = []
            for arm in e["arms"]:
                out_ += leaves(arm["body"])
            return out_
        return [e]

    def from_signal_map(x):
        x = peel(x)
        if x.get("k") != "local":
            return False
        d = defs.get(canon(x["id"])) or defs.get(x["id"])
        if not d or d[0] not in ("arm", "letexpr", "let"):
            return False
        src = d[1]["scrut"] if d[0] == "arm" else d[1].get("init", {})
        b_, ms_ = chain(src)
        fp = field_path(b_)
        return bool(fp) and fp[0] == "self" and fp[2] == ["signal_map"] and [m_[0] for m_ in ms_ if m_[0] not in ("copied", "cloned")] == ["get"] and is_local(ms_[0][1][0], id_id)
    kinds = {"negated": 0, "plain": 0, "other": 0}
    if neg_id is not None:
        for okc in [n for n in ix.nodes if n.get("k") == "ctor" and callee(n).endswith("Result::Ok") and n.get("args")]:
            for lf in leaves(okc["args"][0]):
                if lf.get("ty") == "!":
                    continue
                conds = norm_.path_conditions(ix, lf)
                neg_pos = any(is_local(c_, neg_id) and pol for c_, pol in conds)
                neg_neg = any(is_local(c_, neg_id) and not pol for c_, pol in conds)
                if lf.get("k") == "mcall" and callee(lf) == builders.CTX + "::not" and from_signal_map(lf["args"][0]) and neg_pos and not neg_neg:
                    kinds["negated"] += 1
                elif from_signal_map(lf) and neg_neg and not neg_pos:
                    kinds["plain"] += 1
                else:
                    kinds["other"] += 1
                    shown = show(lf)
    ok = kinds["negated"] >= 1 and kinds["plain"] >= 1 and kinds["other"] == 0
    shown = shown or str(kinds)
    ctx.inst("R08.3", "get_expr_from_line_id:not-iff-negative", ok, f["span"], "an operand reference must be Context::not(signal) exactly when the id is negative, the signal itself otherwise: %s" % shown[:140], sample=str(kinds))
    for g_ in ("get_tpe_from_id", "get_state_from_id"):
        g = ctx.fn("patronus", P + g_)
        gdefs = local_defs(g)
        nid = None
        for i, d in gdefs.items():
            if d[0] == "let" and d[2].get("k") == "ptuple" and "init" in d[1]:
                c = strip_try(d[1]["init"])
                if c.get("k") == "mcall" and callee(c) == P + "parse_line_id":
                    bs = [binding_of_pat(x) for x in d[2]["subs"]]
                    nid = bs[1][1] if len(bs) == 2 and bs[1] else None
        okg = False
        for n in walk(g["body"]):
            if n.get("k") == "if":
                cj = []

                def fl(x):
                    x = peel(x)
                    if x.get("k") == "binary" and x["op"] == "&&":
                        fl(x["l"])
                        fl(x["r"])
                    else:
                        cj.append(x)
                fl(n["cond"])
                if any(x.get("k") == "unary" and x["op"] == "!" and is_local(x["e"], nid) for x in cj):
                    oks = [x for x in walk(n["then"]) if x.get("k") == "ctor" and callee(x).endswith("Result::Ok")]
                    oke = [x for x in walk(n.get("else", {})) if x.get("k") == "ctor" and callee(x).endswith("Result::Ok")] if "else" in n else []
                    okg = len(oks) == 1 and not oke
        ctx.inst("R08.3", "%s:rejects-negation" % g_, okg, g["span"], "%s must only succeed for a non-negated id" % g_)
    h = ctx.fn("patronus", P + "parse_line_id")
    oks = [x for x in walk(h["body"]) if x.get("k") == "ctor" and callee(x).endswith("Result::Ok")]
    ok = False
    if len(oks) == 1:
        tp = peel(oks[0]["args"][0])
        if tp.get("k") == "tuple" and len(tp["es"]) == 2:
            # (id.abs() as LineId, id.is_negative()) over the same parsed id, possibly through lets
            a = resolve(tp["es"][0])
            while a.get("k") == "cast":
                a = resolve(a["e"])
            b = resolve(tp["es"][1])
            ok = a.get("k") == "mcall" and a["name"] in ("abs", "unsigned_abs") and b.get("k") == "mcall" and b["name"] == "is_negative" \
                and local_id(a["recv"]) is not None and local_id(a["recv"]) == local_id(b["recv"])
            if not ok and b.get("k") == "binary" and b["op"] == "<" and peel(b["r"]).get("v") == 0:
                ok = a.get("k") == "mcall" and a["name"] in ("abs", "unsigned_abs") and local_id(a["recv"]) is not None and local_id(a["recv"]) == local_id(b["l"])
    ctx.inst("R08.3", "parse_line_id:abs-and-sign", ok, h["span"], "parse_line_id must return (|id|, id < 0): %s" % (show(oks[0])[:100] if oks else "?"))


def flag_encoding(ctx):
    """how the caller tells parse_state_init_or_next whether the line is `init` or `next`: {"init": True, "next": False} for the boolean
    `op == "init"`, {"init": <variant path>, "next": <variant path>} for a two-valued enum chosen by the same test; None when neither"""
    from .. import norm as norm__
    f = ctx.fn("patronus", P + "parse_line")
    ix = Index(f["body"])
    c = [x for x in ix.nodes if x.get("k") == "mcall" and callee(x) == P + "parse_state_init_or_next"]
    if len(c) != 1:
        return None

    def is_init_test(cnd):
        cnd = resolve(peel(cnd))
        if cnd.get("k") == "binary" and cnd["op"] == "==":
            for a_, b_ in ((cnd["l"], cnd["r"]), (cnd["r"], cnd["l"])):
                if peel(b_).get("k") == "lit" and peel(b_).get("v") == "init" and (tok_index(a_) == 1 or peel(a_).get("k") == "local"):
                    return True
        return False
    fl = resolve(c[0]["args"][2])
    if is_init_test(fl):
        return {"init": True, "next": False}
    if fl.get("k") == "binary" and fl["op"] == "==":
        # `kind == LineKind::Init` with kind classified from the operator token: true exactly for "init"
        for a_, b_ in ((fl["l"], fl["r"]), (fl["r"], fl["l"])):
            if peel(a_).get("k") == "local" and peel(b_).get("k") == "def" and str(peel(b_).get("dk", "")).startswith("ctor"):
                alts = norm__._variant_conditions(ix, {"scrut": a_, "pat": {"k": "pvariant", "path": peel(b_)["path"], "subs": []}})
                lits = set()
                for cs in alts or []:
                    for c_, pol in cs:
                        if pol and c_.get("k") == "armpat":
                            lits |= {alt.get("v") for alt in pat_alts(c_["pat"]) if alt.get("k") == "plit"}
                if alts and lits == {"init"}:
                    return {"init": True, "next": False}
    enc = {}
    for conds, leaf in norm__.result_table(ix, c[0]["args"][2], unwrap=()):
        leaf = peel(leaf)
        if not (leaf.get("k") == "def" and str(leaf.get("dk", "")).startswith("ctor")):
            return None
        which = None
        for c_, pol in conds:
            if is_init_test(c_):
                which = "init" if pol else "next"
            if c_.get("k") == "armpat" and pol:
                lits = {alt.get("v") for alt in pat_alts(c_["pat"]) if alt.get("k") == "plit"}
                if lits == {"init"}:
                    which = "init"
                elif lits == {"next"}:
                    which = "next"
        if which is None or which in enc:
            return None
        enc[which] = leaf["path"]
    return enc if set(enc) == {"init", "next"} else None


def init_next(ctx):
    f = ctx.fn("patronus", P + "parse_state_init_or_next")
    ix = Index(f["body"])
    defs = local_defs(f)
    p_flag = (param_ids(f) + [None] * 4)[3]          # parse_state_init_or_next(&mut self, line, cont, is_init_not_next)
    enc = flag_encoding(ctx) or {"init": True, "next": False}

    def flag_says(conds):
        """the set of line kinds ("init" / "next") the path conditions allow, judged by the tests of the flag parameter"""
        allowed = {"init", "next"}
        for c_, pol in conds:
            if is_local(c_, p_flag) and isinstance(enc["init"], bool):
                allowed &= {"init"} if pol == enc["init"] else {"next"}
            elif c_.get("k") == "armpat" and is_local(c_["scrut"], p_flag) and not isinstance(enc["init"], bool):
                paths = {alt.get("path") for alt in pat_alts(c_["pat"])}
                if None in paths and any(alt.get("k") in ("pwild", "pbind") for alt in pat_alts(c_["pat"])):
                    continue
                hit = {k_ for k_, v_ in enc.items() if v_ in paths}
                allowed &= hit if pol else ({"init", "next"} - hit)
            elif c_.get("k") == "binary" and c_["op"] == "==" and not isinstance(enc["init"], bool):
                for a_, b_ in ((c_["l"], c_["r"]), (c_["r"], c_["l"])):
                    if is_local(a_, p_flag) and peel(b_).get("k") == "def":
                        hit = {k_ for k_, v_ in enc.items() if v_ == peel(b_).get("path")}
                        allowed &= hit if pol else ({"init", "next"} - hit)
        return allowed
    checks = [n for n in ix.nodes if n.get("k") == "mcall" and callee(n) == P + "check_type"]
    mods = [n for n in ix.nodes if n.get("k") == "mcall" and n["name"] == "modify_state"]
    stores = []
    for m in mods:
        cl = resolve(m["args"][1])
        for x in walk(cl):
            if x.get("k") != "assign":
                continue
            fp_ = field_path(x["l"])
            if fp_ and fp_[2] and fp_[2][-1] in ("init", "next"):
                stores.append((m, x, fp_[2][-1], []))
                continue
            tgt = peel(x["l"])
            while tgt.get("k") == "unary" and tgt.get("op") == "*":
                tgt = peel(tgt["e"])
            if tgt.get("k") == "local":
                # `let slot = if is_init { &mut state.init } else { &mut state.next }; *slot = Some(expr)`: one store per alternative of the slot
                for cs_, leaf in norm_.value_alternatives(tgt):
                    lf = field_path(leaf)
                    if lf and lf[2] and lf[2][-1] in ("init", "next"):
                        stores.append((m, x, lf[2][-1], cs_))
    ctx.floor("R08.5", "init/next stores in parse_state_init_or_next", len(stores), 2)

    def classify(a):
        """what a check_type operand denotes: the declared sort (token 2), the state's type, or the type of a local expression"""
        a = norm_.value_source(ix, defs, a)
        if a.get("k") == "mcall" and callee(a) == P + "get_tpe_from_id" and tok_index(a["args"][1]) == 2:
            return ("declared",)
        if a.get("k") == "mcall" and a["name"] == "get_type" and peel(a["recv"]).get("k") == "local":
            return ("exprtype", canon(peel(a["recv"])["id"]))
        b_, ms_ = chain(a)
        if any(m_[0] == "type_check" for m_ in ms_):
            # the type of the state's symbol
            src = norm_.value_source(ix, defs, b_)
            if any(x.get("k") == "mcall" and x["name"] == "get_state" for x in walk(src)) or (src.get("k") == "field" and src["name"] == "symbol"):
                return ("state",)
        return ("?",)
    kinds = set()
    final_checked = None
    for c in checks:
        dom = all(ix.dominates(c, m) for m in mods) and isinstance(ix.parent.get(id(c)), dict) and ix.parent[id(c)].get("k") == "try"
        if not dom:
            continue
        k0, k1 = classify(c["args"][0]), classify(c["args"][1])
        if {k0[0], k1[0]} == {"state", "declared"}:
            kinds.add("state-vs-declared")
        for x, y in ((k0, k1), (k1, k0)):
            if x[0] == "exprtype" and y[0] == "declared":
                # the checked local must not be reassigned after the check
                later = [a_ for a_ in ix.nodes if a_.get("k") in ("assign", "assignop") and is_local(a_["l"], x[1]) and not ix.precedes(a_, c)]
                if not later:
                    kinds.add("expr-vs-declared")
                    final_checked = x[1]
    ctx.inst("R08.5", "init_next:state-type-vs-declared-sort", "state-vs-declared" in kinds, f["span"], "no dominating check_type(state type, declared sort)? before the state is modified")
    ctx.inst("R08.5", "init_next:expr-type-vs-declared-sort", "expr-vs-declared" in kinds, f["span"], "no dominating check_type(type of the assigned expression, declared sort)? before the state is modified: an init/next of the wrong sort would be attached")
    # the expression stored is the one that was checked, in the field selected by the flag
    for i, (m, st, fld, alt_conds) in enumerate(stores):
        r = peel(st["r"])
        ok = r.get("k") == "ctor" and callee(r).endswith("Option::Some") and final_checked is not None and is_local(r["args"][0], final_checked)
        conds = norm_.path_conditions(ix, st, arms=True) + [(resolve(c_) if c_.get("k") not in ("armpat", "letexpr") else c_, pol) for c_, pol in alt_conds]
        flag_ok = flag_says(conds) == {fld}
        ctx.inst("R08.5", "init_next:store#%d" % (i + 1), ok and flag_ok, st["sp"], "the state's %s must be set to the checked expression under the matching init/next flag: %s" % (fld, show(m)[:120]), sample=show(st)[:120])
    # array lifting only for init with a bit-vector operand on an array state
    lifts = [n for n in ix.nodes if n.get("k") == "mcall" and callee(n) == builders.CTX + "::array_const"]
    for l in lifts:
        conds = norm_.path_conditions(ix, l, arms=True)
        has_flag = flag_says(conds) == {"init"}
        conds = [(c_, pol) for c_, pol in conds if c_.get("k") != "armpat"]
        is_bv = any(pol and c_.get("k") == "mcall" and c_["name"] == "is_bit_vector" for c_, pol in conds)
        is_arr = any(pol and c_.get("k") == "mcall" and c_["name"] == "is_array" and classify(c_["recv"])[0] == "state" for c_, pol in conds)
        iw = norm_.value_source(ix, defs, l["args"][1])
        ib, ims = chain(iw)
        idx_ok = "get_array_index_width" in [m_[0] for m_ in ims] and classify(ib)[0] == "state"
        ctx.inst("R08.5", "init_next:array-lifting", has_flag and is_bv and is_arr and idx_ok, l["sp"], "a bit-vector may be lifted to a constant array only for `init` of an array state, with the state's index width: %s under %s" % (show(l)[:100], [("" if p_ else "!") + show(c_)[:40] for c_, p_ in conds]))
