"""C09 - btor2 writer/reader agreement: operator spelling and token positions, literal forms, emission order,
sort lines, init lifting, name-filter anchoring."""
from ..tree import *  # noqa
from .. import linewriter
from .. import norm as norm_
from .. import iterdesc
from ..flow import Index
from ..tables import *  # noqa
from .. import builders, semterm, fmtstr
from ..semterm import norm, fmt, Opaque
from . import c08
from .c02 import binding_of_pat

S = "patronus::btor2::serialize::"
SER = S + "Serializer::"

EXPLANATION = ("Static agreement analysis between btor2::serialize and btor2::parse (rustc HIR facts + recovered format strings): for each of the 32 writable Expr variants the writer's line (operator token, "
               "positions of the child ids and attributes) is composed with the reader's lowering of that operator token and the checked builder contract, and must give back the same variant over the same children "
               "and attributes; literal forms are read back with the same radix; sort lines, state/init/next/input/output/bad/constraint lines put ids where the reader reads them; a state's init tree is emitted before "
               "the state line and its init line after it, next lines after all state declarations; constant-array inits are unwrapped exactly where the reader re-wraps them; the auto-generated-name filter is anchored.")
ASSUMPTIONS = ["equivalence beyond positional identity (e.g. of renamed labels) is not decided", "for_each_child order is the writer's child order (T1)"]
LEVEL_TEXT = ("Exhaustive table composition writer∘reader = identity over all writable variants (not just those occurring in the shipped btor2 files), plus ordering rules on the emission sequence: decides "
              "operator spelling, operand/attribute positions and definition order structurally. Name stability is decided only for the anchoring of the auto-generated-name filter."
              " No io::Result of the writer is turned into an Option or a default (a failed step would make the writer accept the system and leave something out)."
              " The writer's last-label bookkeeping visits the labelled collections in the order in which their lines are written.")
LEVEL_NOTE = "Composition uses the checked builder contract (T2) and the reader table of C08; string-level alias bookkeeping is not decided."
TECHNIQUE = "format-string recovery + table composition (writer row ∘ reader row ∘ builder contract = identity); evaluation-order rules; for-every-element (path-condition) rule per line kind"

NOT_WRITABLE = {"ArrayConstant", "BVSymbol", "ArraySymbol", "BVLiteral"}


def canonical(vn, t0, t1):
    """semantic term of variant vn over its children in T1 positions (c0..) and its attribute fields (@name)"""
    for bname, (variants, childmap, attrs) in builders.CONTRACT.items():
        if vn in variants:
            nparams = 0
            args = {}
            order = t1.order[vn]
            for fk, pi in childmap.items():
                args[pi] = "c%d" % order.index(fk)
            for ak, spec in attrs.items():
                if spec[0] == "param":
                    args[spec[1]] = "@%s" % ak
            return semterm.mk(bname, [args[i] for i in sorted(args)])
    return None


def reader_rows(ctx):
    rows = {}
    for fname in ("parse_unary_op", "parse_bin_op", "parse_ternary_op"):
        f = ctx.fn("patronus", c08.P + fname)
        defs = local_defs(f)
        ex = semterm.Extractor(defs, c08.make_leaf(), c08.transparent, c08.passthrough)
        oa = c08.op_arms(f)
        if not oa:
            continue
        for op, arm in oa[1].items():
            try:
                # the whole reader function specialised to this operator token (as in C08)
                ex.spec = lambda e_, op=op: op if c08.tok_index(e_) == 1 else None
                got = ex.ev(f["body"], {})
            except Opaque:
                continue
            if isinstance(got, tuple) and got[0] == "tuple":
                got = got[1]
            rows.setdefault(op, got)
    return rows


def subst(t, m):
    if isinstance(t, tuple):
        if t in m:
            return m[t]
        return tuple(subst(x, m) for x in t)
    return t


def swallowed(ctx, c):
    """R09.6: "for every system the btor2 writer accepts": a failure of one of the writer's own steps (an expression it cannot express, an IO
    error) must make the writer fail; turned into `None` / a default it makes the writer accept the system and leave something out"""
    from . import c15
    ctx.rule("R09.6", "every io::Result produced inside btor2::serialize is propagated (?, match, returned): none is turned into an Option / default with .ok(), unwrap_or*, let _ or a dropped statement")
    n = 0
    for path, fl in sorted(c.raw_fns.items() if hasattr(c, "raw_fns") else c.fns.items()):
        if not path.startswith((S, "<" + S)) or "::tests::" in path:
            continue
        for f in fl:
            per = {}
            for x, parents in walk_parents(f["body"]):
                if x.get("k") not in ("call", "mcall", "callv"):
                    continue
                t = str(x.get("ty") or "")
                if not (t.startswith("core::result::Result<") and "std::io::error::Error" in t):
                    continue
                cal = (callee(x) or show(x.get("f", {}))).split("::")[-1]
                n += 1
                per[cal] = per.get(cal, 0) + 1
                how, ok = c15.consumption(x, parents, f)
                if how in ("unwrap", "expect"):
                    ok = True          # aborting is not accepting: the failure is not turned into a successful write
                ctx.inst("R09.6", "%s:%s:%s#%d" % (path.split("::")[-1], cal, how, per[cal]), ok, x["sp"],
                         "%s: the Result of `%s` is %s: when this step fails the writer carries on and returns Ok, i.e. it accepts a system and writes text that lacks what this step should have written" % (path, show(x)[:80], how),
                         sample={"fn": path, "call": show(x)[:60], "consumed_by": how})
    ctx.floor("R09.6", "io::Result values produced in btor2::serialize", n, 30)


def run(ctx):
    ctx.rule("T2", "builder contract (shared with C08)")
    ctx.rule("R09.1", "for every writable variant: reader-lowering(writer line of V) = V over the same children and attributes (positions agree)")
    ctx.rule("R09.2", "write_bv_literal's forms zero/one/ones/const(to_bit_str) are selected by the matching predicates and are read back by the reader's rows of the same name with radix 2")
    ctx.rule("R09.3", "emission order: inputs first; per state: init tree, state line, init line; next lines after all state lines; every line kind puts sort/ids where the reader reads them; constant-array inits are unwrapped exactly where the reader re-wraps")
    ctx.rule("R09.4", "sort lines: `sort bitvec w` / `sort array ix dx` in the token order parse_sort reads")
    ctx.rule("R09.5", "the auto-generated-name filter regex is anchored at both ends (explicit names are never classified as auto-generated by a partial match)")
    t0 = T0(ctx)
    t1 = T1(ctx, t0)
    builders.check_t2(ctx, t0)
    c = ctx.facts.lib("patronus")
    swallowed(ctx, c)
    rrows = reader_rows(ctx)
    f = ctx.fn("patronus", S + "write_node")
    wp = param_ids(f) + [None] * 7              # write_node(writer, ctx, id, sort, expr, children, tail)
    p_id, p_sort, p_expr, p_children, p_tail = wp[2], wp[3], wp[4], wp[5], wp[6]
    m = find_match_on(f["body"], lambda s_: is_local(s_, p_expr))
    if m is None or p_expr is None:
        ctx.violation("R09.1", "write_node:shape", f["span"], "UNRECOGNISED: write_node is not a match on expr")
        return
    n_rows = 0
    seen = set()
    for vn, info in t0.variants.items():
        seen.add(vn)
        if vn in NOT_WRITABLE:
            continue
        try:
            wsites, binds = linewriter.variant_walk(c, f, p_expr, EXPR + "::" + vn, slices={p_children})
        except linewriter.Unknown as ex_:
            ctx.violation("R09.1", "write_node:%s" % vn, f["span"], "UNRECOGNISED: the line written for %s depends on more than the variant (%s)" % (vn, ex_))
            continue

        def role(node, binds=binds, vals=None):
            n0 = peel(node)
            if vals and n0.get("k") == "local" and n0["id"] in vals:
                v_ = vals[n0["id"]]
                if v_[0] == "lit":
                    return ("lit", str(v_[1]))
                if v_[0] == "elem" and canon(v_[1]) == canon(p_children):
                    return "children[%d]" % v_[2]
            n_ = resolve(node)
            if peel(n_).get("k") == "lit" and isinstance(peel(n_).get("v"), str):
                return ("lit", peel(n_)["v"])          # a keyword handed to a shared helper as a string constant is literal text
            if is_local(n_, p_id):
                return "id"
            if is_local(n_, p_sort):
                return "sort"
            if is_local(n_, p_tail):
                return "tail"
            if n_.get("k") == "index" and is_local(n_["e"], p_children) and peel(n_["i"]).get("k") == "lit":
                return "children[%d]" % peel(n_["i"])["v"]
            if n_.get("k") == "local":
                for bid, key in binds.items():
                    if canon(bid) == canon(n_["id"]):
                        return "@%s" % key
            return "?" + show(n_)[:30]
        lines = [linewriter.site_tokens(s_, lambda nd, s_=s_: role(nd, vals=s_.get("_values"))) for s_ in wsites]
        # the last site appends the name suffix and the newline; several sites may write one line piecewise
        if lines and all(t is not None for t in lines) and linewriter.flat(lines[-1]) == ["tail"] and len(lines) > 2:
            merged = [list(tk) for tk in lines[0]]
            for t in lines[1:-1]:
                merged += [list(tk) for tk in t]
            lines = [merged, lines[-1]]
        body = [t for t in lines if t is not None and linewriter.flat(t) != ["tail"]]
        if len(body) != 1 or len(lines) != len(body) + 1:
            ctx.violation("R09.1", "write_node:%s" % vn, f["span"], "UNRECOGNISED: expected one operator line followed by the name suffix for %s, found %s" % (vn, [linewriter.flat(t) if t else None for t in lines]))
            continue
        flat = []
        for t in body[0]:
            flat.append(t[0] if len(t) == 1 else ("mixed", t))
        shown = " ".join(linewriter.flat(body[0]))
        ok_head = len(flat) >= 3 and flat[0] == ("arg", "id") and flat[1][0] == "lit" and flat[2] == ("arg", "sort")
        if not ok_head:
            ctx.violation("R09.1", "write_node:%s" % vn, f["span"], "line for %s does not start with `<id> <op> <sort>`: %s" % (vn, shown))
            continue
        op = flat[1][1]
        mapping = {}
        bad = []
        for pos, t in enumerate(flat[3:], start=3):
            if t[0] != "arg":
                bad.append("token %d is %s" % (pos, t))
                continue
            mm = re_children(t[1])
            if mm is not None:
                mapping[("tok", pos)] = "c%d" % mm
            elif t[1].startswith("@"):
                mapping[("int", pos)] = t[1]
            else:
                bad.append("token %d is `%s`" % (pos, t[1]))
        n_rows += 1
        want = canonical(vn, t0, t1)
        rrow = rrows.get(op)
        arm_sp = wsites[0]["node"].get("sp")
        if rrow is None:
            ctx.inst("R09.1", "roundtrip:%s" % vn, False, arm_sp, "%s is written as `%s`, which the reader has no (term-reducible) arm for" % (vn, op))
            continue
        got = subst(rrow, mapping)
        ok = not bad and norm(got) == norm(want)
        ctx.inst("R09.1", "roundtrip:%s" % vn, ok, arm_sp,
                 "%s is written as `%s` and read back as %s, expected %s%s" % (vn, shown, fmt(norm(got)), fmt(norm(want)), ("; " + "; ".join(bad)) if bad else ""),
                 sample={"variant": vn, "line": shown, "read_back_as": fmt(got)})
    # (every writable variant got its line above - through its own arm or a catch-all arm that is resolved per variant;
    #  a variant without a determinate line was reported as UNRECOGNISED there)
    ctx.floor("R09.1", "writable variants composed with the reader", n_rows, 31)
    # ArrayConstant is rejected (Err), not written wrongly
    literals(ctx, c)
    order(ctx, c)
    sorts(ctx, c)
    names(ctx, c)


def re_children(s):
    import re
    mm = re.match(r"^children\[(\d+)\]$", s.strip())
    return int(mm.group(1)) if mm else None


def literals(ctx, c):
    f = ctx.fn("patronus", S + "write_bv_literal")
    want = {"is_zero": "zero", "is_one": "one", "is_all_ones": "ones"}
    ix = Index(f["body"])
    lp = param_ids(f) + [None] * 5               # write_bv_literal(writer, ctx, id, sort, value)

    def role(node):
        n_ = resolve(node)
        if is_local(n_, lp[2]):
            return "id"
        if is_local(n_, lp[3]):
            return "sort"
        b_, ms_ = chain(n_)
        if [m_[0] for m_ in ms_] == ["to_bit_str"]:
            src = resolve(b_)
            sb, sms = chain(src)
            if [m_[0] for m_ in sms] == ["get"] and is_local(sb, lp[4]):
                return "binary-digits"
        return "?" + show(n_)[:30]
    seen = {}
    for s_ in fmtstr.macro_sites(c, f["body"], ("write", "writeln")):
        toks = linewriter.site_tokens(s_, role)
        if not toks or len(toks) < 2 or toks[1][0][0] != "lit":
            continue
        conds = []
        for c_, pol in norm_.path_conditions(ix, s_["node"]):
            vb, vms = chain(c_)
            src = resolve(vb)
            sb, sms = chain(src)
            on_value = [m_[0] for m_ in sms] == ["get"] and is_local(sb, lp[4])
            conds.append((vms[0][0] if (len(vms) == 1 and on_value) else "?" + show(c_)[:30], pol))
        seen[toks[1][0][1]] = ([n_ for n_, v in conds if v], linewriter.flat(toks), conds)
    if not all(op in seen for op in list(want.values()) + ["const"]):
        # data-driven form: `let (keyword, bits) = if v.is_zero() { ("zero", None) } else if .. { .. } else { ("const", Some(v.to_bit_str())) };`
        # followed by one write of `{id} {keyword} {sort}` and a write of the digits when there are some
        defs = local_defs(f)

        def cond_name(c_):
            vb, vms = chain(c_)
            src = resolve(vb)
            sb, sms = chain(src)
            on_value = [m_[0] for m_ in sms] == ["get"] and is_local(sb, lp[4])
            return vms[0][0] if (len(vms) == 1 and on_value) else "?" + show(c_)[:30]
        for st in [x for x in ix.nodes if x.get("k") == "let" and "init" in x]:
            alts = norm_.value_alternatives(st["init"])
            pat = st["pat"]
            while pat.get("k") in ("pref", "pderef"):
                pat = pat["pat"]
            if len(alts) < 2:
                continue
            subs = pat["subs"] if pat.get("k") == "ptuple" else [pat]
            rows_ = []
            for cs_, leaf in alts:
                leaf = peel(leaf)
                comps = leaf["es"] if (leaf.get("k") == "tuple" and pat.get("k") == "ptuple") else [leaf]
                if len(comps) != len(subs):
                    rows_ = None
                    break
                rows_.append((cs_, comps))
            if not rows_:
                continue
            kw_pos = [i_ for i_ in range(len(subs)) if all(peel(r_[1][i_]).get("k") == "lit" and isinstance(peel(r_[1][i_]).get("v"), str) for r_ in rows_)]
            if len(kw_pos) != 1:
                continue
            kw_b = binding_of_pat(subs[kw_pos[0]])
            if kw_b is None:
                continue
            # the write that prints the keyword
            def role2(node):
                n_ = resolve(node)
                if is_local(n_, kw_b[1]) or is_local(node, kw_b[1]):
                    return "KW"
                return role(node)
            main = None
            for s_ in fmtstr.macro_sites(c, f["body"], ("write", "writeln")):
                toks = linewriter.site_tokens(s_, role2)
                if toks and any(p_ == ("arg", "KW") for t_ in toks for p_ in t_):
                    main = (s_, linewriter.flat(toks))
            if main is None or norm_.path_conditions(ix, main[0]["node"]):
                continue
            for cs_, comps in rows_:
                kw = peel(comps[kw_pos[0]])["v"]
                line = [("'%s'" % kw if t_ == "KW" else t_) for t_ in main[1]]
                # further components: None -> nothing more, Some(x) -> x is written after the main part
                for i_, cmp_ in enumerate(comps):
                    if i_ == kw_pos[0]:
                        continue
                    cmp_ = peel(cmp_)
                    if cmp_.get("k") == "ctor" and callee(cmp_).endswith("Option::Some") and len(cmp_["args"]) == 1:
                        bb = binding_of_pat(subs[i_])
                        printed = False
                        for s2 in fmtstr.macro_sites(c, f["body"], ("write", "writeln")):
                            if s2 is main[0]:
                                continue
                            pcs = norm_.path_conditions(ix, s2["node"], arms=True)
                            onb = [c2 for c2, pol in pcs if pol and c2.get("k") in ("armpat", "letexpr") and bb and is_local(c2.get("scrut") or c2.get("init"), bb[1]) and "Some" in show_pat(c2["pat"])]
                            if onb and ix.precedes(main[0]["node"], s2["node"]):
                                printed = True
                        line.append(role(cmp_["args"][0]) if printed else "?not-written")
                    elif not ((cmp_.get("path") or callee(cmp_) or "").endswith("Option::None")):
                        line.append("?" + show(cmp_)[:20])
                conds = [(cond_name(c_), pol) for c_, pol in cs_]
                seen[kw] = ([n_ for n_, v in conds if v], line, conds)
    for pred, op in want.items():
        got = seen.get(op)
        ok = got is not None and got[0] == [pred] and got[1] == ["id", "'%s'" % op, "sort"] and not any(n_.startswith("?") for n_, _ in got[2])
        ctx.inst("R09.2", "literal:%s" % op, ok, f["span"], "`%s` must be written as `<id> %s <sort>` exactly when the value %s (found %s under %s)" % (op, op, pred, got[1] if got else None, got[2] if got else None), sample={"form": op, "when": got[0] if got else None})
    got = seen.get("const")
    ok = got is not None and not got[0] and got[1] == ["id", "'const'", "sort", "binary-digits"] and sorted(n_ for n_, _ in got[2]) == sorted(want)
    ctx.inst("R09.2", "literal:const", ok, f["span"], "other values must be written as `const <sort> <binary digits>` (to_bit_str), which the reader parses with radix 2: %s" % ((got[1:],) if got else None))
    # reader side radix for const is checked in C08 R08.2; restate the pairing here from the reader's table
    g = ctx.fn("patronus", c08.P + "parse_format")
    radix = None
    row = c08.format_rows(g).get("const")
    if isinstance(row, tuple) and len(row) == 3 and isinstance(row[1], tuple) and row[1][0] == "parse_lit" and isinstance(row[1][2], tuple) and row[1][2][0] == "lit":
        radix = row[1][2][1]
    ctx.inst("R09.2", "literal:const:reader-radix", radix == 2, g["span"], "the reader parses `const` with radix %s, the writer emits binary digits" % radix)


def label_order(ctx, c, six, node):
    """R09.7: sibling agreement on what "the last label of an expression" means: the reader lets the last label line win, so the writer's
    bookkeeping of the last label must visit the labelled collections in the order in which serialize_sys emits their lines"""
    from .. import iterdesc
    g = ctx.fn_opt("patronus", S + "compute_alias_needed")
    if g is None:
        ctx.skipped("R09.7: no compute_alias_needed (the writer keeps no last-label bookkeeping)")
        return
    ctx.rule("R09.7", "compute_alias_needed records the last label of an expression by visiting outputs / constraints / bad states in the order in which serialize_sys writes their lines")
    emitted = [k for k in sorted((k for k in ("output", "constraint", "bad") if k in node), key=lambda k: six.pre[id(node[k])])]
    gix = Index(g["body"])
    gdefs = local_defs(g)
    D = iterdesc.Desc(gix, gdefs)
    KIND = {"outputs": "output", "constraints": "constraint", "bad_states": "bad"}
    # the map that receives one insert per labelled element: inserts whose loop runs over collections of the system
    visited = []
    for n in gix.nodes:
        if n.get("k") == "mcall" and n["name"] == "insert" and len(n.get("args", [])) == 2:
            lp = gix.enclosing(n, ("for",))
            if lp is None:
                continue
            alts, _ = D.source(lp["iter"])
            seq = []
            for a in alts:
                flat = str(a)
                hit = [kind for coll, kind in KIND.items() if "sys.%s'" % coll in flat or "sys.%s\"" % coll in flat]
                seq.append(hit[0] if len(hit) == 1 else "?")
            if seq and all(x_ != "?" for x_ in seq):
                visited.append((gix.pre[id(lp)], seq))
    order_ = [k for _, seq in sorted(visited) for k in seq]
    ok = bool(order_) and order_ == emitted
    ctx.inst("R09.7", "last-label-order", ok, g["span"],
             "compute_alias_needed visits the labelled collections in the order %s, serialize_sys writes their lines in the order %s: for an expression labelled by two kinds of line the writer and the reader disagree on which label is the last one, and a name is lost or changed on re-reading" % (order_, emitted),
             sample={"bookkeeping": order_, "emitted": emitted})


def order(ctx, c):
    f = ctx.fn("patronus", SER + "serialize_sys")
    ix = Index(f["body"])
    sites = fmtstr.macro_sites(c, f["body"], ("write", "writeln"))
    kinds = {}
    def lit_role(node):
        n_ = resolve(node)
        return ("lit", n_["v"]) if n_.get("k") == "lit" and isinstance(n_.get("v"), str) else "arg"
    for s_ in sites:
        pc = fmtstr.parse_call(s_["snippet"])
        if not pc or pc[2] is None:
            continue
        toks = linewriter.site_tokens(s_, lit_role)      # a line kind passed as a string constant (e.g. to a helper) counts as literal text
        if toks and len(toks) > 1 and toks[1] and toks[1][0][0] == "lit":
            kinds.setdefault(toks[1][0][1], []).append((s_, toks, pc))
    for k in ("input", "state", "init", "output", "constraint", "bad", "next"):
        ctx.inst("R09.3", "line:%s:present" % k, len(kinds.get(k, [])) == 1, f["span"], "expected exactly one `%s` line format in serialize_sys, found %d" % (k, len(kinds.get(k, []))))
    if not all(len(kinds.get(k, [])) == 1 for k in ("input", "state", "init", "next", "output", "constraint", "bad")):
        return
    node = {k: v[0][0]["node"] for k, v in kinds.items()}
    toks = {k: v[0][1] for k, v in kinds.items()}
    label_order(ctx, c, ix, node)

    def loop_of(n):
        l = ix.enclosing(n, ("for",))
        while l is not None and ix.enclosing(l, ("for",)) is not None:
            l = ix.enclosing(l, ("for",))
        return l
    L = {k: loop_of(node[k]) for k in ("input", "state", "init", "next", "output", "constraint", "bad")}
    ok = all(L[k] is not None for k in L)
    ctx.inst("R09.3", "order:inputs-before-states", ok and ix.precedes(L["input"], L["state"]), f["span"], "input declarations must precede state declarations (expressions refer to inputs by id)")
    ctx.inst("R09.3", "order:init-in-state-loop", ok and L["init"] is L["state"] and ix.precedes(node["state"], node["init"]), f["span"], "each state's init line must follow its own state line inside the state loop")
    inits = [n for n in ix.nodes if n.get("k") == "mcall" and callee(n) == SER + "emit_state_init"]
    ctx.inst("R09.3", "order:init-tree-before-state-line", len(inits) == 1 and ok and contains(L["state"]["body"], inits[0]) and ix.precedes(inits[0], node["state"]), f["span"],
             "the init expression tree must be emitted before the state line (btor2 requires the init operand to have a smaller id than... the init line, and earlier states to be declared)")
    ctx.inst("R09.3", "order:next-after-all-states", ok and L["next"] is not L["state"] and ix.precedes(L["state"], L["next"]), f["span"], "next lines must be emitted after all state declarations (a next function may refer to any state)")
    for k in ("output", "constraint", "bad"):
        ctx.inst("R09.3", "order:%s-after-states" % k, ok and ix.precedes(L["state"], L[k]), f["span"], "%s lines must follow the state declarations" % k)
    # every element gets its line: the line sites sit in a loop over the whole collection, under no condition other than the presence of the
    # optional field the line prints (init / next)
    defs = local_defs(f)
    D = iterdesc.Desc(ix, defs)

    def mentions_field(e, name, depth=0):
        for x in walk(e):
            if x.get("k") == "field" and x["name"] == name:
                return True
            if x.get("k") == "local" and depth < 5:
                init = LET_INITS.get(x["id"]) or LET_INITS.get(canon(x["id"]))
                if init is not None and mentions_field(init, name, depth + 1):
                    return True
        return False
    for k, own in (("input", None), ("state", None), ("init", "init"), ("next", "next"), ("output", None), ("constraint", None), ("bad", None)):
        lp = ix.enclosing(node[k], ("for",))
        alts, filtered = D.source(lp["iter"]) if lp is not None else ([], True)
        extra = []
        for cnd, pol in norm_.path_conditions(ix, node[k], arms=True):
            if own and pol and cnd.get("k") == "letexpr" and cnd["pat"].get("k") == "pvariant" and cnd["pat"]["path"].endswith("Option::Some") and mentions_field(cnd["init"], own):
                continue
            if own and cnd.get("k") == "mcall" and cnd["name"] in ("is_some", "is_none") and pol == (cnd["name"] == "is_some") and mentions_field(cnd["recv"], own):
                continue
            extra.append("%s%s" % ("" if pol else "not ", show(cnd)[:70] if cnd.get("k") != "armpat" else "%s matches %s" % (show(cnd["scrut"])[:30], show_pat(cnd["pat"])[:30])))
        ctx.inst("R09.3", "line:%s:for-every-element" % k, lp is not None and not filtered and not extra, node[k]["sp"],
                 "the `%s` line is not written for every element: %s - the element is missing from the file and the system read back differs"
                 % (k, ("it is written only when " + "; ".join(extra)) if extra else "the loop does not run over the whole collection"))

    def role(node):
        n_ = norm_.value_source(ix, defs, node)
        if n_.get("k") == "lit" and isinstance(n_.get("v"), str):
            return ("lit", n_["v"])
        if n_.get("k") == "call" and (callee(n_) or "").endswith("::name_suffix"):
            return "suffix"
        if n_.get("k") == "mcall":
            cal = callee(n_) or ""
            if cal == SER + "new_id":
                return "newid"
            if cal == SER + "sort_id":
                return "sort"
            if cal == SER + "emit_expr":
                return "exprid"
            if cal == SER + "emit_state_init":
                return "initid"
        if n_.get("k") == "local":
            d = defs.get(n_["id"]) or defs.get(canon(n_["id"]))
            if d and d[0] == "for":
                return "loopvar"
            if d and d[0] in ("letexpr", "arm", "let"):
                # `if let Some(init_id) = init_id` / `match init_id { Some(x) => .. }`: look at the scrutinee
                src = d[1].get("init") if d[0] in ("letexpr", "let") else d[1].get("scrut")
                if src is not None and src is not node:
                    inner = [x for x in walk(src) if x.get("k") == "mcall" and callee(x) in (SER + "emit_state_init", SER + "emit_expr")]
                    if inner:
                        return "initid" if callee(inner[0]) == SER + "emit_state_init" else "exprid"
                    r2 = norm_.value_source(ix, defs, src)
                    if r2 is not src and r2.get("k") == "local" and r2.get("id") != n_["id"]:
                        return role(r2)
                    for x in walk(r2):
                        if x.get("k") == "mcall" and callee(x) in (SER + "emit_state_init", SER + "emit_expr"):
                            return "initid" if callee(x) == SER + "emit_state_init" else "exprid"
        return "?" + show(n_)[:30]
    layouts = {
        "input": (["newid", "'input'", "sort+suffix"], "tokens[2] = sort"),
        "state": (["newid", "'state'", "sort+suffix"], "tokens[2] = sort"),
        "init": (["newid", "'init'", "sort", "newid", "initid"], "tokens[2] sort, tokens[3] state, tokens[4] expression"),
        "next": (["newid", "'next'", "sort", "loopvar", "exprid"], "tokens[2] sort, tokens[3] state, tokens[4] expression"),
        "output": (["newid", "'output'", "exprid+suffix"], "tokens[2] = expression"),
        "constraint": (["newid", "'constraint'", "exprid+suffix"], "tokens[2] = expression"),
        "bad": (["newid", "'bad'", "exprid+suffix"], "tokens[2] = expression"),
    }
    rtoks = {}
    for k, (want, why) in layouts.items():
        site = kinds[k][0][0]
        rtoks[k] = linewriter.site_tokens(site, role)
        got = linewriter.flat(rtoks[k])
        ctx.inst("R09.3", "layout:%s" % k, got == want, node[k]["sp"], "the `%s` line is laid out as %s, the reader expects %s (%s)" % (k, got, want, why), sample={"line": k, "tokens": got})
    # the state id in the init line is the id of the state line just written; sorts are the state's sort
    argn = {k: fmtstr.arg_nodes(kinds[k][0][0]) for k in ("state", "init", "next")}
    same_state = len(argn["state"]) >= 1 and len(argn["init"]) >= 3 and local_id(argn["state"][0]) is not None and local_id(argn["state"][0]) == local_id(argn["init"][2]) \
        and local_id(argn["init"][0]) != local_id(argn["init"][2]) and local_id(argn["state"][1]) is not None and local_id(argn["state"][1]) == local_id(argn["init"][1])
    ctx.inst("R09.3", "ids:init-state", same_state, node["init"]["sp"], "the init line must name the id and sort of the state line written just before it (and use a fresh line id)")
    # provenance of the ids used in init/next lines
    def init_of(name):
        for i, d in defs.items():
            if d[0] in ("let", "letexpr", "for") and any(nm == name for nm, _ in pat_bindings(d[2])):
                return d
        return None
    # state_id used in init line is the id of the state line just written
    okp = True
    def from_state_field(e, fld):
        """e is the payload of `state.<fld>` (bound by if-let / let-else / match on it)"""
        e = peel(e)
        if e.get("k") != "local":
            return False
        d = defs.get(e["id"]) or defs.get(canon(e["id"]))
        if not d or d[0] not in ("letexpr", "let", "arm", "closure"):
            return False
        if d[0] == "closure":
            par = ix.parent.get(id(d[1]))
            src = par["recv"] if par is not None and par.get("k") == "mcall" and par["name"] in ("map", "and_then") else None
        else:
            src = d[1].get("init") if d[0] in ("letexpr", "let") else d[1].get("scrut")
        fp = field_path(src) if src is not None else None
        return bool(fp) and fp[2] == [fld]
    ctx.inst("R09.3", "ids:init", len(inits) == 1 and from_state_field(inits[0]["args"][2], "init"), f["span"], "the init line's expression id must come from emit_state_init(state.init)", nontrivial=False)
    nexts = [n for n in walk(L["next"]["body"]) if n.get("k") == "mcall" and callee(n) == SER + "emit_expr"] if ok else []
    ctx.inst("R09.3", "ids:next", len(nexts) == 1 and from_state_field(nexts[0]["args"][1], "next"), f["span"], "the next line's expression id must come from emit_expr(state.next)")
    if ok:
        # next lines pair each state with the id its own state line got: zip(sys.states, state_ids) where state_ids collects the state line ids in order
        it = peel(L["next"]["iter"])
        za = zb = None
        if it.get("k") == "mcall" and it["name"] == "zip":
            za, zb = it["recv"], it["args"][0]
        elif it.get("k") == "call" and (callee(it) or "").endswith("iter::zip") and len(it["args"]) == 2:
            za, zb = it["args"]
        okz = False
        if za is not None:
            ba, ma = chain(za)
            bb, mb = chain(zb)
            fpa = field_path(ba)
            ids_local = local_id(bb)
            pushes = [n for n in walk(L["state"]["body"]) if n.get("k") == "mcall" and n["name"] == "push" and ids_local is not None and is_local(n["recv"], ids_local)]
            state_line_id = local_id(argn["state"][0]) if argn["state"] else None
            okz = bool(fpa) and fpa[2] == ["states"] and all(x[0] in ("iter", "into_iter", "copied", "cloned") for x in ma + mb) and len(pushes) == 1 \
                and state_line_id is not None and is_local(pushes[0]["args"][0], state_line_id) and len(ix.regions[id(pushes[0])]) == len(ix.regions[id(L["state"])]) + 1
            pat = L["next"]["pat"]
            while pat.get("k") in ("pref", "pderef"):
                pat = pat["pat"]
            zb_bind = pat_bindings(pat["subs"][1]) if pat.get("k") == "ptuple" and len(pat["subs"]) == 2 else []
            okz = okz and len(zb_bind) == 1 and len(argn["next"]) >= 3 and is_local(argn["next"][2], zb_bind[0][1])
        ctx.inst("R09.3", "ids:next-state-id", bool(okz), L["next"]["sp"], "next lines must pair each state with the id its own state line got (states.iter().zip(state_ids))")
    # emit_state_init unwraps array constants exactly for array states; reader re-wraps exactly for init of an array state from a bit-vector
    g = ctx.fn("patronus", SER + "emit_state_init")
    gix = Index(g["body"])
    gp = param_ids(g) + [None] * 4                # emit_state_init(&mut self, sys, state, init)
    p_state, p_init = gp[2], gp[3]
    emits = [x for x in gix.nodes if x.get("k") == "mcall" and callee(x) == SER + "emit_expr"]
    unwrapped = plain = 0
    okw = len(emits) == 2
    for x in emits:
        a = peel(x["args"][1])
        conds = norm_.path_conditions(gix, x)
        arr_pos = [pol for c_, pol in conds if c_.get("k") == "mcall" and c_["name"] == "is_array" and field_path(chain(c_)[0]) and field_path(chain(c_)[0])[1] == p_state and field_path(chain(c_)[0])[2] == ["symbol"]]
        lets = [(c_, pol) for c_, pol in conds if c_.get("k") == "letexpr" and c_["pat"].get("path", "").endswith("Expr::ArrayConstant")]
        if is_local(a, p_init):
            plain += 1
            # reached when the state is not an array or the init is not a constant array: the complement of the unwrapping branch
            okw = okw and not any(pol for pol in arr_pos) and not any(pol for _, pol in lets)
        else:
            eb = [b for c_, pol in lets if pol for b in pat_bindings(c_["pat"])]
            src_ok = any(pol and resolve(c_["init"]).get("k") == "index" and is_local(resolve(c_["init"])["i"], p_init) for c_, pol in lets)
            okw = okw and len(eb) == 1 and is_local(a, eb[0][1]) and arr_pos == [True] and src_ok
            unwrapped += 1
    okw = okw and unwrapped == 1 and plain == 1
    ctx.inst("R09.3", "init-lifting:writer-unwraps", okw, g["span"], "emit_state_init must write the element of a constant-array init for an array state (the reader re-wraps it) and the init expression itself otherwise")
    # emit_expr: children emitted first, in for_each_child order, ids passed positionally
    h = ctx.fn("patronus", SER + "emit_expr")
    hx = Index(h["body"])
    hdefs = local_defs(h)
    fec = [n for n in hx.nodes if n.get("k") == "mcall" and n["name"] == "for_each_child"]
    wn = [n for n in hx.nodes if n.get("k") == "call" and callee(n) == S + "write_node"]
    okc = len(fec) == 1 and len(wn) == 1 and hx.precedes(fec[0], wn[0])
    if okc:
        # children = the for_each_child order (every child pushed, unconditionally)
        cl = resolve(fec[0]["args"][0])
        pushes = [x for x in walk(cl.get("body", {})) if x.get("k") == "mcall" and x["name"] == "push"] if cl.get("k") == "closure" else []
        cb = pat_bindings(cl["params"][0]) if cl.get("k") == "closure" and cl.get("params") else []
        okc = len(pushes) == 1 and len(cb) == 1 and is_local(pushes[0]["args"][0], cb[0][1]) and len(hx.regions[id(pushes[0])]) == len(hx.regions[id(cl)]) + 1
        children_id = local_id(pushes[0]["recv"]) if pushes else None
        # child ids = emit_expr over the children in order
        el = norm_.elementwise(hx, hdefs, wn[0]["args"][5])
        if okc and el is not None:
            sb, sms = chain(el["src"])
            eb = pat_bindings(el["pat"])
            elem = norm_.tail_value(el["elem"]) if el["form"] == "map" else el["elem"]
            elem = strip_try(resolve(strip_try(elem)))
            okc = is_local(sb, children_id) and all(x[0] in ("into_iter", "iter", "copied", "cloned") for x in sms) and not el.get("pre", [])[1:] \
                and len(eb) == 1 and elem.get("k") == "mcall" and callee(elem) == SER + "emit_expr" and is_local(elem["args"][1], eb[0][1])
        else:
            okc = False
    ctx.inst("R09.3", "emit_expr:children-first-in-order", okc, h["span"], "emit_expr must emit the children in for_each_child order before the node and pass their ids positionally to write_node")
    # cache: an already emitted expression is referenced by its id
    he = (param_ids(h) + [None] * 3)[2]
    okk = any(n.get("k") in ("if", "match") and any(x.get("k") == "index" and field_path(x["e"]) and field_path(x["e"])[2] == ["expr_ids"] and is_local(x["i"], he) for x in walk(n.get("cond", n.get("scrut", {})))) for n in hx.nodes)
    ctx.inst("R09.3", "emit_expr:id-cache", okk, h["span"], "emit_expr must return the recorded id of an already emitted expression", nontrivial=False)


def sorts(ctx, c):
    f = ctx.fn("patronus", SER + "sort_id")
    ix = Index(f["body"])
    defs = local_defs(f)
    p_tpe = (param_ids(f) + [None, None])[1]

    def width_field(e):
        """index / data / bv when e is the index_width / data_width of the array type or the width of the BV type being declared"""
        e = peel(e)
        if e.get("k") == "field" and e["name"] in ("index_width", "data_width"):
            return e["name"].split("_")[0]
        if e.get("k") == "local":
            d = defs.get(e["id"]) or defs.get(canon(e["id"]))
            if d and d[0] in ("arm", "letexpr", "let"):
                pat = d[2] if d[0] != "arm" else d[2]
                for n_ in walk(pat):
                    if n_.get("k") == "pstruct" and n_["path"].endswith("ArrayType"):
                        for fl in n_["fields"]:
                            if any(i_ == e["id"] or canon(i_) == canon(e["id"]) for _, i_ in pat_bindings(fl["pat"])):
                                return str(fl["name"]).split("_")[0]
                    if n_.get("k") == "pvariant" and n_["path"].endswith("Type::BV") and any(i_ == e["id"] for _, i_ in pat_bindings(n_)):
                        return "bv"
        return None

    def role(node):
        n_ = norm_.value_source(ix, defs, node)
        if n_.get("k") == "mcall" and callee(n_) == SER + "new_id":
            return "newid"
        if n_.get("k") == "mcall" and callee(n_) == SER + "sort_id":
            a = peel(n_["args"][0])
            w = width_field(a["args"][0]) if a.get("k") == "ctor" and callee(a).endswith("Type::BV") and a.get("args") else None
            return "sort-of-%s-width" % w if w else "sort"
        w = width_field(n_)
        if w:
            return "%s-width" % w
        return "?" + show(n_)[:30]
    got = {}
    for s_ in fmtstr.macro_sites(c, f["body"], ("write", "writeln")):
        tk = linewriter.site_tokens(s_, role)
        if tk and len(tk) > 2 and tk[2][0][0] == "lit":
            got[tk[2][0][1]] = linewriter.flat(tk)
    ctx.inst("R09.4", "sort:bitvec", got.get("bitvec") == ["newid", "'sort'", "'bitvec'", "bv-width"], f["span"], "bit-vector sorts must be written as `<id> sort bitvec <width>`: %s" % got.get("bitvec"), sample=got.get("bitvec"))
    ctx.inst("R09.4", "sort:array", got.get("array") is not None and got["array"][:3] == ["newid", "'sort'", "'array'"] and len(got["array"]) == 5, f["span"], "array sorts must be written as `<id> sort array <index sort> <data sort>`: %s" % got.get("array"), sample=got.get("array"))
    okx = got.get("array") is not None and got["array"][3:] == ["sort-of-index-width", "sort-of-data-width"]
    ctx.inst("R09.4", "sort:array:index-then-data", okx, f["span"], "the array line must name the sort of the index width first and the sort of the data width second: %s" % got.get("array"))
    # reader side: parse_sort reads tokens[3] as index and tokens[4] as data
    g = ctx.fn("patronus", c08.P + "parse_sort")
    gdefs = local_defs(g)
    gx = Index(g["body"])

    def token_of_width(e):
        """(reader call, token index) that produced this width value"""
        e = norm_.value_source(gx, gdefs, e)
        if e.get("k") == "mcall" and callee(e) in (c08.P + "parse_width_int", c08.P + "get_bv_width"):
            return callee(e).split("::")[-1], c08.tok_index(e["args"][1])
        b_, ms_ = chain(e)
        # e.g. index_tpe.get_bit_vector_width().unwrap() with index_tpe = get_tpe_from_id(tokens[3])
        src = norm_.value_source(gx, gdefs, b_)
        if src.get("k") == "mcall" and callee(src) == c08.P + "get_tpe_from_id":
            return "get_tpe_from_id", c08.tok_index(src["args"][1])
        return None, None
    rd = {}
    bvs = [x for x in walk(g["body"]) if x.get("k") == "ctor" and callee(x).endswith("Type::BV") and x.get("args")]
    for x in bvs:
        rd["width"] = token_of_width(x["args"][0])[1]
    st = [x for x in walk(g["body"]) if x.get("k") == "struct" and x["path"].endswith("ArrayType")]
    if len(st) == 1:
        for fl in st[0]["fields"]:
            rd[fl["name"]] = token_of_width(fl["e"])[1]
    pos_ok = rd.get("width") == 3 and rd.get("index_width") == 3 and rd.get("data_width") == 4
    ctx.inst("R09.4", "sort:reader-positions", pos_ok, g["span"], "parse_sort must read the width / index sort from token 3 and the data sort from token 4: %s" % rd, sample=rd)
    oks = len(st) == 1 and {fl["name"] for fl in st[0]["fields"]} == {"index_width", "data_width"}
    ctx.inst("R09.4", "sort:reader-array-fields", oks, g["span"], "parse_sort must build ArrayType { index_width, data_width }")
    ctx.inst("R09.4", "sort:reader-widths", pos_ok, g["span"], "index_width/data_width must be taken from the index/data sort respectively")


def names(ctx, c):
    fl = [p for p in c.fns if p.startswith(S + "AUTOGEN_NAME_REGEX") or ("AUTOGEN_NAME_REGEX" in p and "__static_ref_initialize" in p)]
    lits = []
    for p in fl:
        for f in c.fns[p]:
            for s_ in fmtstr.macro_sites(c, f["body"], ("format",)):
                pc = fmtstr.parse_call(s_["snippet"])
                if pc and pc[2] is not None and "prefix" in pc[2]:
                    lits.append(pc[2])
            for n in walk(f["body"]):
                if n.get("k") == "call" and (callee(n) or "").endswith("Regex::new"):
                    a = peel(n["args"][0])
                    if a.get("k") == "lit":
                        lits.append(a["v"])
    ok = len(lits) == 1 and lits[0].startswith("^") and lits[0].endswith("$")
    ctx.inst("R09.5", "autogen-name-regex:anchored", ok, None,
             "the auto-generated-name regex is %s: without both anchors explicit names that merely contain/end with a reserved default name are dropped on write and come back renamed" % (lits if lits else "UNRECOGNISED (no regex literal found)"),
             sample=lits)
    g = ctx.fn("patronus", S + "is_autogen_name")
    b = peel(peel_block(g["body"]))
    ctx.inst("R09.5", "is_autogen_name", b.get("k") == "mcall" and b["name"] == "is_match" and any("AUTOGEN_NAME_REGEX" in (x.get("path") or "") or "AUTOGEN_NAME_REGEX" in (callee(x) or "") for x in walk(b["recv"])) and is_local(b["args"][0], (param_ids(g) + [None])[0]), g["span"], "is_autogen_name must be AUTOGEN_NAME_REGEX.is_match(name): %s" % show(b), nontrivial=False)
