"""C01 - structural clauses: (R01.1) update_expr_children rebuilds the same operator over the rewritten
children in the same positions with the same attributes; (R01.2) no silently truncating integer cast in the
simplifier; (R01.3) the rule dispatcher hands each rule the attributes of the node it matched."""
from ..tree import *  # noqa
from .. import norm as norm_
from .. import peval
from ..flow import Index
from ..tables import *  # noqa
from .. import intcast
from .. import widths

EXPLANATION = ("Static structural analysis (rustc HIR + type-check facts) of the simplification driver: the arm table of "
               "expr::transform::update_expr_children is compared row by row with the variant universe of enum Expr and the child order "
               "of for_each_child; every narrowing integer cast in expr::simplify must be guarded; a width (sort) inference over every syntactic path of the "
               "rule dispatcher and the rule functions decides that each rule returns an expression of the width of the node it replaces and builds only "
               "well-sorted nodes on the way (linear width terms, the IR's typing rules as path facts). Decides the structural and the type-preservation "
               "clause, not value-equivalence of the rewrite rules.")
ASSUMPTIONS = ["rustc's name resolution and type check are correct",
               "soundness of the individual rewrite rules is NOT decided (needs evaluation or a solver)"]

UPDATE = "patronus::expr::transform::update_expr_children"
ADD_EXPR = "patronus::expr::context::Context::add_expr"
INDEX_EXPR = "<patronus::expr::context::Context as core::ops::index::Index<patronus::expr::context::ExprRef>>::index"


def run(ctx):
    ctx.rule("R01.1", "every arm of update_expr_children constructs the variant it matched, attributes are the matched node's own, child field i is children[order(V)[i]] (any permutation for commutative variants); every variant with children has an arm; the result is interned by add_expr")
    ctx.rule("R01.2", "every narrowing integer cast in expr::simplify is dominated by a range comparison of its source, or its source provably fits")
    ctx.rule("R01.3", "the rule dispatcher expr::simplify::simplify passes attribute fields of the matched node to the like-named parameter of the rule function and the children slice bindings in slice order")
    t0 = T0(ctx)
    t1 = T1(ctx, t0)
    r011(ctx, t0, t1)
    r012(ctx)
    r013(ctx, t0, t1)
    r014(ctx)
    r015(ctx)
    r016(ctx)
    r017(ctx)
    shared_value_ops(ctx)
    # "whether the simplifier is applied to one expression or to all expressions of a transition system": the system-level driver
    # (system/transform.rs, anchored by this property) must hand every expression of the system to the engine and re-point every field
    # to its own result - the clauses of C11, re-evaluated here under their own rule ids
    from . import c11
    c11.run(ctx, for_simplifier=True)


def r011(ctx, t0, t1):
    """update_expr_children(ctx, expr_ref, children): evaluated once per variant of Expr with the node known to be that variant and the
    children slice known to have that variant's number of children: the result must be add_expr(<the same variant, children in
    for_each_child positions, attributes from the matched node>)"""
    f = ctx.fn("patronus", UPDATE)
    pids = param_ids(f) + [None] * 3
    p_ctx, p_ref, p_children = pids[0], pids[1], pids[2]

    def is_node(e):
        e = resolve(e)
        return e.get("k") == "index" and callee(e) == INDEX_EXPR and is_local(e["i"], p_ref) and is_local(e["e"], p_ctx)
    rebuilt = 0
    for name, info in t0.variants.items():
        order = t1.order.get(name, [])
        key = "update_expr_children:%s" % name
        pe = peval.PEval(is_node, EXPR + "::" + name, {canon(p_children): len(info["child_keys"])})
        try:
            v = pe.run(f)
        except peval.Stuck as ex:
            ctx.violation("R01.1", key, f["span"], "UNRECOGNISED: what update_expr_children builds for %s depends on more than the node's kind and the number of children (%s)" % (name, ex))
            continue
        if not info["child_keys"]:
            # never called for nodes without children: an abort is the expected answer, a rebuilt leaf must at least be the same leaf
            okl = v[0] == "diverge" or (v[0] == "call" and v[1] == ADD_EXPR and v[2][-1][0] == "ctor" and v[2][-1][1] == EXPR + "::" + name)
            ctx.inst("R01.1", key, okl, f["span"], "update_expr_children on the leaf %s yields %s" % (name, v[:2]), nontrivial=False)
            continue
        if v[0] == "diverge":
            ctx.violation("R01.1", key, f["span"],
                          "variant %s has children but no rebuilding arm: a node of this kind whose child was rewritten reaches the `%s!` abort" % (name, v[1]))
            continue
        problems = []
        node = v[2][-1] if (v[0] == "call" and v[1] == ADD_EXPR and v[2]) else None
        if node is None:
            problems.append("the rebuilt node is not interned through Context::add_expr (result: %s)" % str(v)[:80])
        elif node[0] != "ctor":
            problems.append("does not construct an Expr value: %s" % str(node)[:80])
        elif node[1] != EXPR + "::" + name:
            problems.append("constructs %s" % short(node[1]))
        else:
            rebuilt += 1
            perm = []
            for fk, _ty in info["fields"]:
                x = node[2].get(fk)
                if x is None:
                    problems.append("field %s not set" % fk)
                elif fk in info["child_keys"]:
                    if x[0] == "child" and x[1] == canon(p_children):
                        perm.append((fk, x[2]))
                    else:
                        problems.append("child field %s is %s, not one of the rewritten children" % (fk, str(x)[:40]))
                elif x != ("attr", fk):
                    problems.append("attribute field %s is %s, not the matched node's own %s" % (fk, str(x)[:40], fk))
            if not problems:
                want = {fk: j_ for j_, fk in enumerate(order)}
                exact = all(want.get(fk) == idx for fk, idx in perm)
                is_perm = sorted(i_ for _, i_ in perm) == list(range(len(order)))
                if not exact and not (name in COMMUTATIVE and is_perm):
                    problems.append("children are placed as %s but for_each_child order is %s" % (["%s<-children[%d]" % (fk, idx) for fk, idx in perm], order))
        ctx.inst("R01.1", key, not problems, f["span"], "rebuild of %s: %s" % (name, "; ".join(problems)), sample={"variant": name, "rebuilds": str(node)[:120]})
    ctx.floor("R01.1", "rebuilding arms", rebuilt, 32)


def r012(ctx):
    c = ctx.facts.lib("patronus")
    n = 0
    for path, fl in c.fns.items():
        if not path.startswith("patronus::expr::simplify::"):
            continue
        for f in fl:
            for inst in intcast.narrowing_casts(f):
                n += 1
                ok, why = intcast.guarded(f, inst)
                ctx.inst("R01.2", "%s:%s#%d" % (path.split("::")[-1], inst["desc"], inst["ordinal"]), ok, inst["node"]["sp"],
                         "narrowing cast `%s` (%s -> %s) in %s is not dominated by a range check of its source: values above %s wrap silently (%s)" % (
                             show(inst["node"]), inst["from"], inst["to"], path, inst["to"] + "::MAX", why),
                         sample={"fn": path, "cast": show(inst["node"]), "from": inst["from"], "to": inst["to"], "guard": why})
    ctx.extra["narrowing_casts_in_simplify"] = n


def shared_value_ops(ctx):
    """constant folding computes with the `baa` value operations: a rule that folds with an operation whose one-word fast path and multi-word path
    disagree (R06.4, decided on baa's own source) changes the value of the expression - shared with C06"""
    from . import c06
    ctx.rule("R06.4", "in baa, a BitVecOps method of the shape `if self.words().len() == 1 {f(..)} else {g(..)}` must call the same primitive in both branches; workspace calls of a method that does not are findings (shared with C06)")
    c06.baa_siblings(ctx)


def r016(ctx):
    """who-may-call: a helper that classifies the two operands of a node without remembering which was which (`(lit, _)` and `(_, lit)` give the
    same answer with the roles swapped) may only serve rules of commutative operators"""
    ctx.rule("R01.6", "an order-forgetting operand helper of expr::simplify (mirrored `(P, _)` / `(_, P)` arms over the two operands) is called only from rule functions the dispatcher uses for commutative variants")
    from ..tables import COMMUTATIVE
    c = ctx.facts.lib("patronus")
    SIMP = "patronus::expr::simplify::"
    helpers = {}
    for path, fl in c.raw_fns.items():
        if not path.startswith(SIMP) or "::tests::" in path:
            continue
        f = fl[0]
        eparams = [binding_of(p_) for p_ in f["params"] if "ExprRef" in str(p_.get("ty", "")) and "[" not in str(p_.get("ty", ""))]
        eparams = [b_[1] for b_ in eparams if b_]
        if len(eparams) != 2:
            continue
        for m in walk(f["body"]):
            if m.get("k") != "match" or peel(m["scrut"]).get("k") != "tuple" or len(peel(m["scrut"])["es"]) != 2:
                continue
            idx = [resolve(peel(x)) for x in peel(m["scrut"])["es"]]
            if not all(x.get("k") == "index" and peel(x["i"]).get("k") == "local" for x in idx) or {peel(x["i"])["id"] for x in idx} != set(eparams):
                continue
            shapes = []
            for arm in m["arms"]:
                pt = arm["pat"]
                while pt.get("k") in ("pref", "pderef"):
                    pt = pt["pat"]
                if pt.get("k") == "ptuple" and len(pt["subs"]) == 2:
                    def shp(q):
                        while q.get("k") in ("pref", "pderef"):
                            q = q["pat"]
                        return "_" if q.get("k") == "pwild" else (q.get("path") or q.get("k"))
                    shapes.append((shp(pt["subs"][0]), shp(pt["subs"][1])))
            mirrored = False
            armlist = []
            for arm in m["arms"]:
                pt = arm["pat"]
                while pt.get("k") in ("pref", "pderef"):
                    pt = pt["pat"]
                if pt.get("k") == "ptuple" and len(pt["subs"]) == 2:
                    armlist.append((pt, arm))
            pnames = [n_ for n_, i_ in [binding_of(p_) for p_ in f["params"] if binding_of(p_)] if i_ in eparams]
            for (p1, a1) in armlist:
                for (p2, a2) in armlist:
                    if a1 is a2:
                        continue
                    def wild(q):
                        while q.get("k") in ("pref", "pderef"):
                            q = q["pat"]
                        return q.get("k") == "pwild"
                    if not (wild(p1["subs"][1]) and wild(p2["subs"][0]) and not wild(p1["subs"][0]) and not wild(p2["subs"][1])):
                        continue
                    # the two arms answer alike once the operands (and what the patterns bind) are exchanged: the helper forgets the order.
                    # A helper that records the side (`(lit, other, true)` / `(lit, other, false)`) does not.
                    b1 = [n_ for n_, _ in pat_bindings(p1["subs"][0])]
                    b2 = [n_ for n_, _ in pat_bindings(p2["subs"][1])]
                    t1, t2 = show(a1["body"]), show(a2["body"])
                    ren = dict(zip(b2, b1))
                    if len(pnames) == 2:
                        ren[pnames[0]], ren[pnames[1]] = pnames[1], pnames[0]
                    import re as _re
                    t2r = _re.sub(r"\b(%s)\b" % "|".join(_re.escape(k_) for k_ in ren) if ren else r"$^", lambda mm_: ren[mm_.group(1)], t2)
                    if t1.replace(" ", "") == t2r.replace(" ", ""):
                        mirrored = True
            if mirrored:
                helpers[path] = f
    # which variants each rule function serves
    disp = ctx.fn("patronus", SIMP + "simplify")
    served = {}
    for m in walk(disp["body"]):
        if m.get("k") != "match":
            continue
        for arm in m["arms"]:
            vs = {q["path"].split("::")[-1] for q in walk(arm["pat"]) if q.get("k") in ("pvariant", "pstruct") and str(q.get("path", "")).startswith(EXPR + "::")}
            if not vs:
                continue
            for n in walk(arm["body"]):
                if n.get("k") == "call" and (callee(n) or "").startswith(SIMP):
                    served.setdefault(callee(n), set()).update(vs)
    helpers = {p_: f_ for p_, f_ in helpers.items() if p_ not in served}      # a rule function is not a helper
    n_calls = 0
    for path, fl in sorted(c.raw_fns.items()):
        if not path.startswith(SIMP) or path in helpers or "::tests::" in path:
            continue
        f = fl[0]
        for x in walk(f["body"]):
            if x.get("k") == "call" and callee(x) in helpers:
                n_calls += 1
                vs = served.get(path)
                ok = bool(vs) and vs <= set(COMMUTATIVE)
                ctx.inst("R01.6", "%s:%s" % (path.split("::")[-1], callee(x).split("::")[-1]), ok, x["sp"],
                         "%s classifies its operands with %s, which does not remember which operand was the literal, but the dispatcher uses it for %s: a rewrite that depends on the operand order (`lit >= x` vs `x >= lit`) is applied in both orientations" % (
                             path, callee(x).split("::")[-1], sorted(vs) if vs else "variants that could not be determined"),
                         sample={"rule": path.split("::")[-1], "helper": callee(x).split("::")[-1], "variants": sorted(vs or [])})
    ctx.floor("R01.6", "calls of order-forgetting operand helpers", n_calls, 5)


UNIT_TABLE = {("and", "is_zero"): "lit", ("and", "is_all_ones"): "other", ("or", "is_zero"): "other", ("or", "is_all_ones"): "lit",
              ("xor", "is_zero"): "other", ("xor", "is_all_ones"): "not other", ("add", "is_zero"): "other", ("mul", "is_zero"): "lit", ("mul", "is_one"): "other"}
LIT_PREDS = ("is_zero", "is_all_ones", "is_one", "is_true", "is_false", "is_tru", "is_fals", "is_negative")


def r017(ctx):
    """units and annihilators: in the `one operand is a literal` arm of the rules for and / or / xor / add / mul, a branch selected by exactly one
    predicate of the literal and answering with one of the two operands (or the negated other operand) must be an algebraic law of that operator
    for every width"""
    ctx.rule("R01.7", "in the literal-operand arm of simplify_bv_{and,or,xor,add,mul}: a branch taken under one predicate P of the literal that returns the literal, the other operand or its negation is the law (op, P) -> result of the table (0 / all-ones for and, or, xor; 0 for add; 0 and 1 for mul)")
    c = ctx.facts.lib("patronus")
    n = 0
    for op in ("and", "or", "xor", "add", "mul"):
        fl = c.fns.get("patronus::expr::simplify::simplify_bv_" + op)
        if not fl:
            continue
        f = fl[0]
        ix = Index(f["body"])
        for m in ix.nodes:
            if m.get("k") != "match":
                continue
            for arm in m["arms"]:
                pt = arm["pat"]
                while pt.get("k") in ("pref", "pderef"):
                    pt = pt["pat"]
                if not (pt.get("k") == "pvariant" and str(pt.get("path", "")).endswith("Lits::One") and len(pt.get("subs", [])) == 2):
                    continue
                first = pt["subs"][0]
                while first.get("k") in ("pref", "pderef"):
                    first = first["pat"]
                if first.get("k") != "ptuple" or len(first["subs"]) != 2:
                    continue
                lit_b, le_b, ot_b = binding_of(first["subs"][0]), binding_of(first["subs"][1]), binding_of(pt["subs"][1])
                if not lit_b or not ot_b:
                    continue

                def lit_pred(c_):
                    """name of the predicate when c_ is `<the literal's value>.P()`"""
                    c_ = resolve(c_)
                    if c_.get("k") == "mcall" and c_["name"] in LIT_PREDS and not c_["args"]:
                        b_, ms_ = chain(resolve(c_["recv"]))
                        if peel(b_).get("k") == "local" and (is_local(b_, lit_b[1])) and [x_[0] for x_ in ms_] in ([], ["get"]):
                            return c_["name"]
                    return None
                for conds, leaf in norm_.result_table(ix, arm["body"]):
                    leaf = peel(leaf)
                    preds = [(lit_pred(c_), pol) for c_, pol in conds if c_.get("k") not in ("armpat", "letexpr")]
                    if len(preds) != len(conds) or any(p_ is None for p_, _ in preds):
                        continue          # the branch depends on something else as well: not a plain unit / annihilator law
                    pos = [p_ for p_, pol in preds if pol]
                    if len(pos) != 1:
                        continue
                    if leaf.get("k") == "def" and (leaf.get("path") or "").endswith("Option::None"):
                        continue
                    if le_b and is_local(leaf, le_b[1]):
                        cls = "lit"
                    elif is_local(leaf, ot_b[1]):
                        cls = "other"
                    elif leaf.get("k") == "mcall" and (callee(leaf) or "").endswith("Context::not") and len(leaf["args"]) == 1 and is_local(leaf["args"][0], ot_b[1]):
                        cls = "not other"
                    else:
                        continue
                    n += 1
                    want = UNIT_TABLE.get((op, pos[0]))
                    ctx.inst("R01.7", "simplify_bv_%s:%s" % (op, pos[0]), want == cls, leaf.get("sp") or arm.get("sp"),
                             "simplify_bv_%s rewrites `x %s lit` to %s when the literal %s: %s" % (
                                 op, op, {"lit": "the literal", "other": "x", "not other": "not(x)"}[cls], pos[0],
                                 "the law for this operator is -> %s" % want if want else "that is not a law of `%s` for every width (for width > 1 the literal 1 is neither 0 nor all-ones)" % op),
                             sample={"op": op, "when": pos[0], "result": cls})
    ctx.floor("R01.7", "unit / annihilator branches", n, 9)


def r014(ctx):
    """sibling-branch contradiction rule: in a shift-by-constant rule, the branch for `amount >= width` and the branch for an
    amount too large to be represented both mean "shifted out completely" and must yield the same expression"""
    ctx.rule("R01.4", "in simplify_bv_shift_left/right/arithmetic_shift_right the result for a constant amount that does not fit the integer type equals the result of the `amount >= width` branch (both mean: shifted out completely)")
    c = ctx.facts.lib("patronus")
    n = 0
    for fname in ("simplify_bv_shift_left", "simplify_bv_shift_right", "simplify_bv_arithmetic_shift_right"):
        fl = c.fns.get("patronus::expr::simplify::" + fname)
        if not fl:
            ctx.inst("ANCHOR", "missing:" + fname, False, None, "rule function %s not found" % fname, nontrivial=False)
            continue
        f = fl[0]
        ix = Index(f["body"])
        p_width = (param_ids(f) + [None] * 4)[3]         # (ctx, a, b, width)

        def is_conversion(e, depth=0):
            """the expression converts the constant amount to a machine integer (to_u64 / try_from), possibly through lets"""
            e = resolve(e)
            for y in walk(e):
                if y.get("k") == "mcall" and y["name"] in ("to_u64", "to_u32", "to_usize"):
                    return True
                if y.get("k") == "call" and (callee(y) or "").endswith("try_from"):
                    return True
                if y.get("k") == "local" and y is not e and depth < 3 and y["id"] in LET_INITS and is_conversion(LET_INITS[y["id"]], depth + 1):
                    return True
            return False

        def none_pat(p_):
            while p_.get("k") in ("pref", "pderef"):
                p_ = p_["pat"]
            return p_.get("k") in ("pvariant", "pconst") and p_.get("path", "").endswith(("Option::None",)) or (p_.get("k") == "pvariant" and p_["path"].endswith("Result::Err"))
        table = norm_.function_results(f, ix)
        overflow, ge = [], []

        def expand(conds, depth=0):
            """conditions with `the classification enum has this variant` replaced by the conditions that select that variant"""
            out = [[]]
            for c_, pol in conds:
                alts = None
                if c_.get("k") == "armpat" and pol and depth < 3:
                    pp = c_["pat"]
                    while pp.get("k") in ("pref", "pderef"):
                        pp = pp["pat"]
                    if pp.get("k") in ("pvariant", "pconst", "ppath") and peel(strip_try(c_["scrut"])).get("k") in ("blockexpr", "match", "if", "local"):
                        # leaves through Some(..)/Ok(..) first (a classification enum wrapped in an Option); if a leaf is not a constructor then,
                        # with the wrappers kept (the pattern is on the Option itself)
                        for unwrap_ in (("Option::Some", "Result::Ok"), ()):
                            alts = []
                            for cs_, lf in norm_.result_table(ix, strip_try(c_["scrut"]), unwrap=unwrap_):
                                lf = peel(lf)
                                lp = lf.get("path") if lf.get("k") == "def" else (callee(lf) if lf.get("k") == "ctor" else None)
                                if lp is None:
                                    alts = None
                                    break
                                if lp == pp.get("path"):
                                    alts.append(cs_)
                            if alts:
                                break
                if alts:
                    new = []
                    for o in out:
                        for a_ in alts:
                            for e_ in expand(a_, depth + 1):
                                new.append(o + e_)
                    out = new
                else:
                    out = [o + [(c_, pol)] for o in out]
            return out

        def catch_all_of_conversion(c_):
            """`_ =>` arm of a match on the converted amount whose other arms accept `Some(..)`/`Ok(..)` under a `< width` guard:
            the arm stands for both `conversion failed` and `amount >= width`"""
            p_ = c_["pat"]
            while p_.get("k") in ("pref", "pderef"):
                p_ = p_["pat"]
            if p_.get("k") != "pwild" or not is_conversion(c_["scrut"]):
                return False, False
            for m_ in ix.nodes:
                if m_.get("k") == "match" and m_["scrut"] is c_["scrut"]:
                    guarded = False
                    for arm in m_["arms"]:
                        g = arm.get("guard")
                        if g is not None:
                            g0 = resolve(peel(g))
                            if g0.get("k") == "binary" and g0["op"] in ("<", ">") and (is_local(g0["r"] if g0["op"] == "<" else g0["l"], p_width)):
                                guarded = True
                    return True, guarded
            return True, False
        table2 = []
        for conds, leaf in table:
            for cs in expand(conds):
                table2.append((cs, leaf))
        for conds, leaf in table2:
            if leaf.get("k") == "def" and (leaf.get("path") or "").endswith("Option::None"):
                continue          # the rule does not apply (returns None)
            is_over = is_ge = False
            for c_, pol in conds:
                if c_.get("k") == "armpat" and pol:
                    o_, g_ = catch_all_of_conversion(c_)
                    if o_ and g_:
                        overflow.append(leaf)
                        ge.append(leaf)
                if c_.get("k") == "letexpr" and not pol and is_conversion(c_["init"]):
                    is_over = True
                if c_.get("k") == "armpat" and pol and none_pat(c_["pat"]) and is_conversion(c_["scrut"]):
                    is_over = True
                if c_.get("k") == "binary" and pol and c_["op"] in (">=", "<="):
                    big, small = (c_["l"], c_["r"]) if c_["op"] == ">=" else (c_["r"], c_["l"])
                    if is_local(small, p_width) and peel(big).get("k") == "local":
                        is_ge = True
                if c_.get("k") == "binary" and not pol and c_["op"] in ("<", ">"):
                    small, big = (c_["l"], c_["r"]) if c_["op"] == "<" else (c_["r"], c_["l"])
                    if is_local(big, p_width) and peel(small).get("k") == "local":
                        is_ge = True
            if is_over:
                overflow.append(leaf)
            elif is_ge:
                ge.append(leaf)
        has_conv = is_conversion(f["body"])
        if overflow and ge:
            n += 1
            ta = sorted({show(x).replace(" ", "") for x in ge})
            tb = sorted({show(x).replace(" ", "") for x in overflow})
            ctx.inst("R01.4", "%s:overflow-branch-agrees" % fname, ta == tb and len(ta) == 1, overflow[0].get("sp"),
                     "%s rewrites a shift by `amount >= width` to `%s` but a shift by an amount too large for the integer type to `%s`: both shift everything out, one of the two is wrong" % (fname, ta[0][:90], tb[0][:90]),
                     sample={"fn": fname, "amount>=width": ta[0][:80], "amount too large": tb[0][:80]})
        elif has_conv:
            ctx.inst("R01.4", "%s:shape" % fname, False, f["span"], "UNRECOGNISED: %s converts the shift amount but the results for `conversion failed` (%d found) and `amount >= width` (%d found) could not both be identified" % (fname, len(overflow), len(ge)))
        else:
            ctx.skipped("R01.4 %s: the function does not convert the shift amount itself" % fname)
    ctx.floor("R01.4", "shift rules with an overflow branch", n, 3)


def r013(ctx, t0, t1):
    f = ctx.fn("patronus", "patronus::expr::simplify::simplify")
    m = None
    for n in walk(f["body"]):
        if n.get("k") == "match" and n.get("src") == "match" and peel(n["scrut"]).get("k") == "tuple":
            m = n
            break
    if m is None:
        ctx.note("R01.3: dispatcher is not a match over (node, children); rule not evaluated")
        ctx.skipped("R01.3 dispatcher shape")
        return
    c = ctx.facts.lib("patronus")
    for alt, arm in match_arms(m):
        if alt.get("k") != "ptuple" or len(alt["subs"]) != 2:
            continue
        vp = variant_pat(alt["subs"][0])
        if vp is None:
            continue
        path, keys, _ = vp
        name = vname(path)
        info = t0.variants.get(name)
        if not info:
            continue
        attr = {}
        for k, sp in keys.items():
            b = binding_of(sp)
            if b:
                attr[b[1]] = k
        sl = alt["subs"][1]
        while sl.get("k") in ("pref", "pderef"):
            sl = sl["pat"]
        child_ids = {}
        if sl.get("k") == "pslice":
            for j, x in enumerate(sl["before"]):
                b = binding_of(x)
                if b:
                    child_ids[b[1]] = j
        body = peel_block(arm["body"])
        if body.get("k") != "call" or not callee(body).startswith("patronus::expr::simplify::"):
            continue
        target = c.fns.get(callee(body))
        if not target:
            continue
        pnames = [binding_of(p) for p in target[0]["params"]]
        # attributes: a named attribute field must go to the like-named parameter when such a parameter exists
        named_fields = {k for k in info["attr_keys"] if isinstance(k, str)}
        last_child = -1
        for i, a in enumerate(body["args"]):
            a = peel(a)
            if a.get("k") != "local" or i >= len(pnames) or not pnames[i]:
                continue
            pn = pnames[i][0]
            if a["id"] in attr:
                fk = attr[a["id"]]
                if isinstance(fk, str) and pn in named_fields:
                    ctx.inst("R01.3", "simplify:%s:%s" % (name, pn), pn == fk, arm["sp"],
                             "dispatcher arm for %s passes the node's `%s` field to parameter `%s` of %s" % (name, fk, pn, short(callee(body))),
                             sample={"variant": name, "call": show(body)})
            elif a["id"] in child_ids:
                j = child_ids[a["id"]]
                ctx.inst("R01.3", "simplify:%s:child%d" % (name, j), j > last_child or name in COMMUTATIVE, arm["sp"],
                         "dispatcher arm for non-commutative %s passes the children to %s out of order: %s" % (name, short(callee(body)), show(body)))
                last_child = max(last_child, j)

SIMPLIFY = "patronus::expr::simplify::simplify"


def r015(ctx):
    """width (sort) inference over the rule dispatcher and every rule function it calls"""
    ctx.rule("R01.5", "type preservation of the rewrite rules, decided by width inference: on every syntactic path of expr::simplify::simplify and the rule functions it calls, "
                      "(a) the returned expression has the width of the node it replaces and (b) every Context/Builder call and every baa value operation gets operands whose widths satisfy its typing rule "
                      "(same width for and/or/xor/add/sub/mul/shifts/comparisons, 1-bit ite condition with equal branches); widths are linear terms over the operand widths and integer attributes, "
                      "path facts are the IR's typing rules for matched nodes, integer lets and equality conditions; range conditions of slice (hi >= lo, hi < width) are inequalities and are not decided")
    c = ctx.facts.lib("patronus")
    f = ctx.fn("patronus", SIMPLIFY)
    if f is None:
        return
    ev, results, bound = widths.analyse_dispatch(c, SIMPLIFY)
    if not (bound["expr"] and bound["children"]):
        ctx.violation("R01.5", "simplify:parameters", f["span"], "UNRECOGNISED: the rule dispatcher no longer takes the replaced node and its children slice")
        return
    decided = 0
    undecided = []
    for key, o in sorted(ev.obl.items()):
        if not o.bad and o.undecided == o.paths:
            undecided.append(key)
            continue
        decided += 1
        what = "the expression returned here must have the width of the node it replaces" if o.kind == "result" else "operand widths of `%s`" % o.kind.split(":", 1)[1]
        ctx.inst("R01.5", key, not o.bad, o.node.get("sp"),
                 "%s: %s - on some path the two widths are %s; `%s`" % (o.fn, what, "; ".join(o.bad[:2]), show(o.node)[:90]),
                 sample={"site": key, "paths": o.paths, "expr": show(o.node)[:80]} if decided % 9 == 0 else None)
    for key in undecided:
        ctx.not_analysed.append("R01.5: %s - the width depends on a value the evaluator does not model (loop-built vector, conversion result)" % key)
    for (fn, what), n_ in sorted(ev.unmodelled.items(), key=lambda x: (x[0][0], x[0][1])):
        ctx.not_analysed.append("R01.5: %s: %s" % (fn.split("::")[-1], what))
    ctx.extra["width_inference"] = {"paths": ev.paths, "results_some": results["some"], "results_none": results["none"], "obligations": len(ev.obl), "decided": decided, "undecided": undecided}
    ctx.floor("R01.5", "decided width obligations", decided, 120)
    ctx.floor("R01.5", "rule results reached (Some)", results["some"], 110)


LEVEL_TEXT = ("Static table/dataflow analysis over the compiler's type-checked program: proves for all 35 Expr variants at once that the driver's "
              "rebuild step keeps operator, attributes and child positions, that no shift amount or width is silently truncated in the simplifier, and that the "
              "dispatcher wires attributes to the right rule parameters, and - by width inference over all ~140 syntactic paths of the 17 rule functions - that every rewrite result has the type of the node it replaces and is built from well-sorted operator applications. These are necessary conditions of meaning preservation that no test input reaches for every variant; "
              "value-soundness of each rewrite rule is explicitly not decided."
              " Added: the rules' shared plumbing - an operand helper that forgets which operand was the literal serves commutative operators only, the unit/annihilator branches of and/or/xor/add/mul are the algebraic laws (table of nine), constant folding calls no baa operation whose fast and slow paths disagree - and, because the statement covers system-wide simplification, the C11 clauses (every field handed to the engine and re-pointed from its own result).")
LEVEL_NOTE = "Trusts rustc name resolution/type check and the child order of for_each_child as the reference order; rewrite-rule soundness (value equality) is outside this technique."
TECHNIQUE = "sibling-table agreement (match-arm table vs enum definition vs child order) + guarded-narrowing-cast dataflow rule + path-sensitive width (sort) inference with linear width terms over the rewrite rules, on rustc HIR facts"
