"""C05 - SMT-LIB sort discipline of the term writer (exhaustive finite model), operator meaning, child order,
reachability of degenerate nodes, identifier quoting, command names."""
import itertools
import re
from ..tree import *  # noqa
from ..flow import Index
from ..tables import *  # noqa
from .. import boolpred as bp
from .. import norm
from .. import norm as norm_
from .. import fmtstr, builders
from .c02 import binding_of_pat

S = "patronus::smt::serialize::"

EXPLANATION = ("Finite-model static analysis of smt::serialize (rustc HIR facts + recovered format strings): per variant the operator token(s) and the conditions selecting them, the sets always_consumes_bit_vec / "
               "always_produces_bit_vec, the two coercion flags as boolean formulas, the literals they guard, the zero-extend-of-Bool form, the requirement pushed for children and serialize_type's table are extracted; "
               "an evaluator then enumerates every (variant, typing-consistent pattern of 1-bit/wide/array operands, parent requirement) and checks every argument position and the result against the SMT-LIB 2 signature "
               "of the written operator, with 1-bit values as Bool (modular proof: one level over abstract children + the 2x2 coercion table; thorough adds all two-level nestings). Plus operator meaning per variant, child "
               "order, who-may-construct the degenerate slice/extension nodes, subset check of the unquoted identifier alphabet, and command names.")
ASSUMPTIONS = ["the SMT-LIB 2.6 signatures of Core, FixedSizeBitVectors and ArraysEx as stated in the oracle table", "symbols containing | or \\ are not handled by the writer and are not decided",
               "value equality of term and expression beyond operator identity is not decided"]
EXHAUSTIVE = True
LEVEL_TEXT = ("Exhaustive evaluation of an abstract sort model extracted from the writer against the SMT-LIB signatures: every operator x every mixture of 1-bit (Bool) and wider operands in every argument position x both parent "
              "requirements is checked, which is exactly the quantifier of the property's well-sortedness clause and is unreachable by sampling. Operator identity is checked per variant; term value equality is not decided."
              " No exit of the identifier test may answer 'simple' before every character was tested.")
LEVEL_NOTE = "Oracle = SMT-LIB 2.6 signatures; the abstract model (DESIGN appendix B) is the trusted part; degenerate full-range slices are excluded by a who-may-construct rule."
TECHNIQUE = "table + boolean-formula extraction, exhaustive finite-domain sort checking against an SMT-LIB signature oracle; who-may-construct and alphabet-subset rules"

# variant -> allowed SMT-LIB operator(s): wide form, Bool form (only for 1-bit)
MEANING = {
    "BVZeroExt": {"zero_extend", "ite"}, "BVSignExt": {"sign_extend"}, "BVSlice": {"extract"}, "BVNot": {"bvnot", "not"}, "BVNegate": {"bvneg"},
    "BVEqual": {"="}, "BVImplies": {"=>"}, "BVGreater": {"bvugt"}, "BVGreaterSigned": {"bvsgt"}, "BVGreaterEqual": {"bvuge"}, "BVGreaterEqualSigned": {"bvsge"},
    "BVConcat": {"concat"}, "BVAnd": {"bvand", "and"}, "BVOr": {"bvor", "or"}, "BVXor": {"bvxor", "xor"}, "BVShiftLeft": {"bvshl"}, "BVArithmeticShiftRight": {"bvashr"},
    "BVShiftRight": {"bvlshr"}, "BVAdd": {"bvadd"}, "BVMul": {"bvmul"}, "BVSignedDiv": {"bvsdiv"}, "BVUnsignedDiv": {"bvudiv"}, "BVSignedMod": {"bvsmod"}, "BVSignedRem": {"bvsrem"},
    "BVUnsignedRem": {"bvurem"}, "BVSub": {"bvsub"}, "BVArrayRead": {"select"}, "BVIte": {"ite"}, "ArrayConstant": {"as const"}, "ArrayEqual": {"="}, "ArrayStore": {"store"}, "ArrayIte": {"ite"},
}
BOOL_ONLY = {"not", "and", "or", "xor", "=>"}
BV_SAME = {"bvnot", "bvneg", "bvand", "bvor", "bvxor", "bvshl", "bvashr", "bvlshr", "bvadd", "bvmul", "bvsdiv", "bvudiv", "bvsmod", "bvsrem", "bvurem", "bvsub"}
BV_CMP = {"bvugt", "bvsgt", "bvuge", "bvsge", "bvult", "bvslt", "bvule", "bvsle"}


def sig(tok, args, case):
    """SMT-LIB signature check: returns (ok, result sort, reason). sorts: Bool, BV1, BVn, ('Arr', I, D)"""
    def isbv(s):
        return s in ("BV1", "BVn")
    if tok in BOOL_ONLY:
        return (all(a == "Bool" for a in args), "Bool", "%s expects Bool arguments" % tok)
    if tok in BV_SAME:
        ok = all(isbv(a) for a in args) and len(set(args)) == 1
        return (ok, args[0] if ok else "?", "%s expects bit-vector arguments of one width" % tok)
    if tok in BV_CMP:
        return (all(isbv(a) for a in args) and len(set(args)) == 1, "Bool", "%s expects bit-vector arguments of one width" % tok)
    if tok == "=":
        return (len(set(map(repr, args))) == 1, "Bool", "= expects both arguments of the same sort")
    if tok == "ite":
        return (args[0] == "Bool" and repr(args[1]) == repr(args[2]), args[1], "ite expects (Bool, S, S)")
    if tok == "concat":
        return (all(isbv(a) for a in args), "BVn", "concat expects bit-vector arguments")
    if tok in ("zero_extend", "sign_extend"):
        return (isbv(args[0]), "BVn", "%s expects a bit-vector argument" % tok)
    if tok == "extract":
        return (args[0] == "BVn" or args[0] == "BV1", "BV1" if case.get("result1") else "BVn", "extract expects a bit-vector argument")
    if tok == "select":
        a = args[0]
        ok = isinstance(a, tuple) and a[0] == "Arr" and args[1] == a[1]
        return (ok, a[2] if ok else "?", "select expects (Array I D, I)")
    if tok == "store":
        a = args[0]
        ok = isinstance(a, tuple) and a[0] == "Arr" and args[1] == a[1] and args[2] == a[2]
        return (ok, a, "store expects (Array I D, I, D)")
    if tok == "as const":
        ok = isinstance(case["arr"], tuple) and args[0] == case["arr"][2]
        return (ok, case["arr"], "(as const (Array I D)) expects D")
    return (False, "?", "unknown operator %s" % tok)


def run(ctx):
    ctx.rule("R05.1", "sort discipline: for every variant, typing-consistent 1-bit pattern and parent requirement, the written term is well-sorted under SMT-LIB with 1-bit values as Bool (exhaustive finite model)")
    ctx.rule("R05.2", "each variant is written with the SMT-LIB operator its meaning requires; Bool operators only under the 1-bit condition")
    ctx.rule("R05.3", "children are written in for_each_child order (find_next_child)")
    ctx.rule("R05.4", "BVSlice/BVZeroExt/BVSignExt nodes are constructed only by the normalising builders and update_expr_children (the writer's no-op branch for full-range slices has no reachable instance)")
    ctx.rule("R05.5", "the unquoted identifier alphabet is a subset of SMT-LIB simple_symbol, every character (including the first) is tested, digits are rejected in first position, the empty name is quoted")
    ctx.rule("R05.6", "each SmtCommand variant is written with its SMT-LIB command name")
    t0 = T0(ctx)
    t1 = T1(ctx, t0)
    c = ctx.facts.lib("patronus")
    f = ctx.fn("patronus", S + "serialize_expr")
    model = extract_model(ctx, c, f, t0)
    if model is not None:
        evaluate(ctx, model, t0, t1)
        meaning(ctx, model, t0)
    types(ctx, c)
    child_order(ctx)
    degenerate(ctx, c)
    identifiers(ctx, c)
    commands(ctx, c)


def run_expr(ctx):
    """the expression writer alone (R05.1 / R05.2): shared with C02, whose verdict is only as exact as the SMT encoding of every operator"""
    ctx.rule("R05.1", "sort discipline: for every variant, typing-consistent 1-bit pattern and parent requirement, the written term is well-sorted under SMT-LIB with 1-bit values as Bool (exhaustive finite model)")
    ctx.rule("R05.2", "each variant is written with the SMT-LIB operator its meaning requires; Bool operators only under the 1-bit condition")
    t0 = T0(ctx)
    t1 = T1(ctx, t0)
    c = ctx.facts.lib("patronus")
    f = ctx.fn("patronus", S + "serialize_expr")
    model = extract_model(ctx, c, f, t0)
    if model is not None:
        evaluate(ctx, model, t0, t1)
        meaning(ctx, model, t0)


def set_of(ctx, name, t0):
    """the set of Expr variants for which the bool function `name` answers true (evaluated per variant)"""
    f = ctx.fn("patronus", S + name)
    pid = (param_ids(f) + [None])[0]
    out = set()
    unknown = []
    for vn in t0.variants:
        v = eval_variant_pred(f["body"], pid, EXPR + "::" + vn, get_fn=lambda path: ctx.fn_opt("patronus", path))
        if v is None:
            unknown.append(vn)
        elif v:
            out.add(vn)
    if unknown or pid is None:
        ctx.violation("R05.1", "%s:shape" % name, f["span"], "UNRECOGNISED: the value of %s cannot be determined from the variant alone for %s" % (name, unknown[:6]))
        return None
    return out


def token_of(fmtstr_):
    s_ = fmtstr_.strip()
    m = re.match(r"^\(\(_ (\w+)", s_)
    if m:
        return m.group(1)
    if s_.startswith("((as const"):
        return "as const"
    m = re.match(r"^\((\S+)\s*$", s_)
    if m:
        return m.group(1)
    return None


def extract_model(ctx, c, f, t0):
    ix = Index(f["body"])
    defs = local_defs(f)
    loop = [n for n in ix.nodes if n.get("k") == "while"]
    if len(loop) != 1:
        ctx.violation("R05.1", "serialize_expr:shape", f["span"], "UNRECOGNISED: expected one work-list loop")
        return None
    loop = loop[0]
    cnd = peel(loop["cond"])
    tup = cnd["pat"]["subs"][0] if cnd.get("k") == "letexpr" and cnd["pat"].get("k") == "pvariant" else None
    if not tup or tup.get("k") != "ptuple" or len(tup["subs"]) != 3:
        ctx.violation("R05.1", "serialize_expr:worklist", loop["sp"], "UNRECOGNISED: work list element is not (expr, position, must_be_bit_vec)")
        return None
    e_b, pc_b, must_b = [binding_of_pat(x) for x in tup["subs"]]
    consumes = set_of(ctx, "always_consumes_bit_vec", t0)
    produces = set_of(ctx, "always_produces_bit_vec", t0)
    if consumes is None or produces is None:
        return None
    # the work list is the vector popped by the loop
    wb, wms = chain(cnd["init"])
    todo_id = local_id(wb) if [m[0] for m in wms] == ["pop"] else None
    if todo_id is None or e_b is None or pc_b is None or must_b is None:
        ctx.violation("R05.1", "serialize_expr:worklist", loop["sp"], "UNRECOGNISED: the loop does not pop (expr, position, must_be_bit_vec) from a work list")
        return None

    def is_one_bit_test(n):
        """`e.get_bv_type(ctx) == Some(1)` / `matches!(e.get_bv_type(ctx), Some(1))` for the popped node e"""
        def is_gbt(x):
            x = strip_try(x)
            return x.get("k") == "mcall" and x["name"] == "get_bv_type" and is_local(x["recv"], e_b[1])

        def is_some1(x):
            x = peel(x)
            return x.get("k") == "ctor" and callee(x).endswith("Option::Some") and len(x["args"]) == 1 and peel(x["args"][0]).get("v") == 1
        if n.get("k") == "binary" and n["op"] == "==":
            return (is_gbt(n["l"]) and is_some1(n["r"])) or (is_gbt(n["r"]) and is_some1(n["l"]))
        if n.get("k") == "match" and is_gbt(n["scrut"]) and len(n["arms"]) == 2:
            a0, a1 = n["arms"]
            p0 = a0["pat"]
            return p0.get("k") == "pvariant" and p0["path"].endswith("Option::Some") and len(p0["subs"]) == 1 and p0["subs"][0].get("k") == "plit" and p0["subs"][0].get("v") == 1 \
                and peel(a0["body"]).get("v") is True and a1["pat"].get("k") == "pwild" and peel(a1["body"]).get("v") is False and "guard" not in a0 and "guard" not in a1
        return False

    def atom_fn(n):
        if n.get("k") == "local" and is_local(n, must_b[1]):
            return "must_bv"
        if n.get("k") == "call" and callee(n) == S + "always_produces_bit_vec":
            a = resolve(n["args"][0])
            if a.get("k") == "index" and is_local(a["i"], e_b[1]):
                return "nat_bv"
        if is_one_bit_test(n):
            return "one_bit"
        return None

    def is_pc_test(cnd_):
        c_ = resolve(cnd_)
        return c_.get("k") == "binary" and c_["op"] in ("==", "!=", ">", "<", ">=", "<=") and (is_local(c_["l"], pc_b[1]) or is_local(c_["r"], pc_b[1]))

    # the coercion flags: the conditions under which the wrapper literals are written
    sites = fmtstr.macro_sites(c, loop["body"], ("write",))
    parsed = [(s_, fmtstr.parse_call(s_["snippet"])) for s_ in sites]
    flags, wraps = {}, {}
    for nm, opener, closer in (("convert_result_to_bv", "(ite ", " #b1 #b0)"), ("convert_result_to_bool", "(= ", " #b1)")):
        forms = {}
        for s_, pc in parsed:
            if pc and pc[2] in (opener, closer) and not contains(loop_match_of(ix, loop) or {}, s_["node"]):
                conds = [(c_, pol) for c_, pol in norm.path_conditions(ix, s_["node"], upto=loop, arms=True) if not is_pc_test(c_)]
                conds = [(c_, pol) for c_, pol in conds if not (c_.get("k") == "letexpr")]
                # `match find_next_child(pc, expr) { None => .., Some(c) => .. }`: like the if-let form, a test of the traversal position
                conds = [(c_, pol) for c_, pol in conds if not (c_.get("k") == "armpat" and any(is_local(x, pc_b[1]) for x in walk(resolve(c_["scrut"]))))]
                try:
                    fm = ("const", True)
                    for c_, pol in conds:
                        if c_.get("k") == "armpat":
                            # `match conversion { Kind::A => write.. }` / `match (a, b) { (true, false) => .. }`
                            x = norm.armpat_formula(ix, c_, lambda e_: bp.extract(e_, {}, defs, None, 0, None, atom_fn))
                            fm = ("and", fm, x if pol else ("not", x))
                            continue
                        x = bp.extract(c_, {}, defs, None, 0, None, atom_fn)
                        fm = ("and", fm, x if pol else ("not", x))
                except bp.Opaque as ex:
                    ctx.violation("R05.1", "serialize_expr:%s" % nm, s_["node"]["sp"], "UNRECOGNISED (fail closed) condition of the coercion wrapper `%s`: %s" % (pc[2], show(ex.node)))
                    return None
                forms.setdefault(pc[2], []).append(fm)
                wraps.setdefault(nm, []).append(pc[2])
        if sorted(forms) != sorted([opener, closer]) or any(len(v) != 1 for v in forms.values()):
            ctx.violation("R05.1", "serialize_expr:%s" % nm, f["span"], "UNRECOGNISED: expected exactly one `%s` and one `%s` wrapper write, found %s" % (opener, closer, {k_: len(v) for k_, v in forms.items()}))
            return None
        fo, fc = forms[opener][0], forms[closer][0]
        same = all(bp.ev(fo, dict(zip(("one_bit", "must_bv", "nat_bv"), v))) == bp.ev(fc, dict(zip(("one_bit", "must_bv", "nat_bv"), v))) for v in itertools.product([False, True], repeat=3))
        ctx.inst("R05.1", "serialize_expr:%s:open-close-agree" % nm, same, f["span"], "the opening `%s` and the closing `%s` of a coercion are written under different conditions" % (opener, closer))
        flags[nm] = fo
    # the arm table
    m = loop_match_of(ix, loop)
    if m is None:
        ctx.violation("R05.1", "serialize_expr:match", f["span"], "UNRECOGNISED: no variant match")
        return None
    pcs = [(c_, pol) for c_, pol in norm.path_conditions(ix, m, upto=loop) if is_pc_test(c_)]
    in_pc0 = len(pcs) == 1 and pcs[0][1] == (resolve(pcs[0][0])["op"] == "==") and resolve(pcs[0][0])["op"] in ("==", "!=") and (is_lit(resolve(pcs[0][0])["l"], 0) or is_lit(resolve(pcs[0][0])["r"], 0))
    ctx.inst("R05.1", "serialize_expr:operator-written-on-first-visit", in_pc0, m["sp"], "the operator must be written when the node is first visited (pc == 0)")
    table = {}
    for alt, arm in match_arms(m):
        vp = variant_pat(alt)
        if vp is None:
            ctx.violation("R05.1", "serialize_expr:wildcard", arm["sp"], "catch-all arm in serialize_expr")
            continue
        vn = vname(vp[0])
        childbind = {}
        attrbind = {}
        for kk, sp in vp[1].items():
            b = binding_of(sp)
            if b:
                childbind[b[1]] = kk
                attrbind[kk] = b[1]
        rows = []
        ax = Index(arm["body"])
        adefs = local_defs({"params": [], "body": arm["body"]})
        for s_ in fmtstr.macro_sites(c, arm["body"], ("write",)):
            pc = fmtstr.parse_call(s_["snippet"])
            conds = []
            for c_, pol in norm.path_conditions(ax, s_["node"]):
                cls, sign = cond_class(c_, e_b, childbind, attrbind, adefs, t0, vn)
                conds.append((cls, pol == sign))
            fmt_ = pc[2] if pc else None
            alts = [([], fmt_)]
            if fmt_ is not None and fmtstr.shape(fmt_) == "{}":
                # the operator text is passed as data (e.g. through a helper): enumerate the string values of the argument
                an = fmtstr.arg_nodes(s_)
                sv = strvals(an[0], 0) if an and an[0] is not None else None
                if sv:
                    alts = []
                    for cs_, text in sv:
                        extra = []
                        for c_, pol in cs_:
                            cls, sign = cond_class(c_, e_b, childbind, attrbind, adefs, t0, vn)
                            extra.append((cls, pol == sign))
                        alts.append((extra, text))
            for extra, text in alts:
                rows.append({"fmt": text, "args": pc[3] if pc else [], "conds": conds + extra, "sp": s_["node"]["sp"]})
        # arms that call serialize_type (ArrayConstant) -> as const
        table[vn] = {"rows": rows, "sp": arm["sp"]}
    # requirement pushed for children, re-push of the node
    pushes = [n for n in ix.nodes if n.get("k") == "mcall" and n["name"] == "push" and is_local(n["recv"], todo_id) and contains(loop["body"], n)]
    child_req_ok = False
    self_req_ok = False
    for pu in pushes:
        t = peel(pu["args"][0])
        if t.get("k") != "tuple" or len(t["es"]) != 3:
            continue
        third = resolve(t["es"][2])
        first = peel(t["es"][0])
        if is_local(first, e_b[1]):
            self_req_ok = is_local(third, must_b[1])
        else:
            a0 = resolve(third["args"][0]) if third.get("k") == "call" and third.get("args") else {}
            child_req_ok = third.get("k") == "call" and callee(third) == S + "always_consumes_bit_vec" and a0.get("k") == "index" and is_local(a0["i"], e_b[1]) and is_lit(t["es"][1], 0)
    ctx.inst("R05.1", "serialize_expr:child-requirement", child_req_ok, f["span"], "a child must be scheduled with must_be_bit_vec = always_consumes_bit_vec(parent) and position 0")
    ctx.inst("R05.1", "serialize_expr:self-requirement-kept", self_req_ok, f["span"], "re-scheduling a node must keep its own must_be_bit_vec requirement")
    # zero-extend of Bool continuation
    cont = [(s_, pc) for s_, pc in parsed if pc and pc[2] and fmtstr.shape(pc[2]) == " #b{}1 #b{}0"]
    zx_ok = False
    if len(cont) == 1:
        s_, pc = cont[0]
        an = fmtstr.arg_nodes(s_)
        conds = norm.path_conditions(ix, s_["node"], upto=loop)
        zpat = [c_ for c_, pol in conds if c_.get("k") == "letexpr" and pol and "BVZeroExt" in show_pat(c_["pat"])]
        zx_ok = len(an) == 2 and all(a is not None for a in an) and local_id(an[0]) is not None and local_id(an[0]) == local_id(an[1]) and len(zpat) == 1
        if zx_ok:
            vpz = variant_pat(zpat[0]["pat"])
            zb = {kk: binding_of(sp)[1] for kk, sp in (vpz[1].items() if vpz else []) if binding_of(sp)}
            init = resolve(an[0])
            ib, ims = chain(init)
            # "0".repeat(by as usize)
            rep_ok = [m_[0] for m_ in ims] == ["repeat"] and peel(ib).get("k") == "lit" and peel(ib).get("v") == "0"
            cnt = peel(ims[0][1][0]) if rep_ok else {}
            while cnt.get("k") == "cast":
                cnt = peel(cnt["e"])
            isb = [c_ for c_, pol in conds if pol and c_.get("k") == "mcall" and c_["name"] == "is_bool" and chain(c_)[0].get("k") == "local" and chain(c_)[0]["id"] == zb.get("e")]
            zx_ok = rep_ok and "by" in zb and is_local(cnt, zb["by"]) and len(isb) == 1
    ctx.inst("R05.1", "serialize_expr:zext-of-bool-branches", zx_ok, cont[0][0]["node"]["sp"] if cont else f["span"],
             "zero extension of a Bool must be closed with the two constants ` #b0..01 #b0..00` of width by+1 (by zeros followed by 1 / 0)")
    return {"table": table, "consumes": consumes, "produces": produces, "flags": flags, "wraps": wraps}


def loop_match_of(ix, loop):
    for n in ix.nodes:
        if n.get("k") == "match" and n.get("src") == "match" and len(n["arms"]) > 20 and contains(loop["body"], n):
            return n
    return None


def strvals(e, depth):
    """string-literal values an expression can take: [([(condition, polarity)..], text)] or None"""
    if depth > 6 or e is None:
        return None
    e = resolve(e)
    e = norm.tail_value(e)
    if e.get("k") == "lit" and isinstance(e.get("v"), str):
        return [([], e["v"])]
    if e.get("k") == "if" and "else" in e:
        a, b = strvals(e["then"], depth + 1), strvals(e["else"], depth + 1)
        if a is None or b is None:
            return None
        return [([(e["cond"], True)] + cs, t) for cs, t in a] + [([(e["cond"], False)] + cs, t) for cs, t in b]
    return None


def is_lit(n, v):
    n = peel(n)
    return n.get("k") == "lit" and n.get("v") == v


def cond_class(cnd, e_b, childbind, attrbind, defs, t0, vn):
    """classify a condition inside an arm as (class, sign): class is 'node1' (the node / a same-width child is 1-bit), 'child1' (the operand is 1-bit),
    'full' (full-range slice), 'lit:wide', 'lit:true', else '?text'; sign False means the condition is the negation of the class"""
    c = resolve(cnd)
    sign = True
    while c.get("k") == "unary" and c["op"] == "!":
        sign, c = not sign, resolve(c["e"])
    b, ms = chain(c)
    names = [m[0] for m in ms]

    def child_class(i):
        if i == e_b[1] or canon(i) == canon(e_b[1]):
            return "node1"
        for cid in childbind:
            if canon(cid) == canon(i):
                return "child1" if vn in ("BVZeroExt", "BVSignExt", "BVSlice", "BVConcat") else "node1"
        return None
    if names == ["get_type", "is_bool"] and b.get("k") == "local":
        cl = child_class(b["id"])
        if cl:
            return cl, sign

    def width_of_child(x):
        x = resolve(x)
        xb, xms = chain(x)
        if xb.get("k") == "local" and [m[0] for m in xms][:1] == ["get_bv_type"] and child_class(xb["id"]):
            return child_class(xb["id"])
        return None
    if c.get("k") == "binary" and c["op"] in ("==", "!="):
        for l, r in ((c["l"], c["r"]), (c["r"], c["l"])):
            if is_lit(r, 1) and width_of_child(l):
                return width_of_child(l), sign == (c["op"] == "==")
            rr = peel(r)
            if rr.get("k") == "ctor" and callee(rr).endswith("Option::Some") and rr.get("args") and is_lit(rr["args"][0], 1) and width_of_child(l):
                return width_of_child(l), sign == (c["op"] == "==")
    # full-range slice: lo == 0 && hi == width - 1
    cj = conjuncts(c)
    if vn == "BVSlice" and len(cj) == 2:
        def eq_parts(x):
            return (x["l"], x["r"]) if x.get("k") == "binary" and x["op"] == "==" else None
        got = set()
        for x in cj:
            pr = eq_parts(x)
            if not pr:
                continue
            for l, r in (pr, pr[::-1]):
                if is_local(l, attrbind.get("lo")) and is_lit(r, 0):
                    got.add("lo")
                rr = resolve(r)
                if is_local(l, attrbind.get("hi")) and rr.get("k") == "binary" and rr["op"] == "-" and is_lit(rr["r"], 1) and peel(rr["l"]).get("k") == "local":
                    got.add("hi")
        if got == {"lo", "hi"}:
            return "full", sign
    # literal forms
    if c.get("k") == "binary" and c["op"] in (">", "<=", ">=", "<", "==", "!="):
        lb, lms = chain(c["l"])
        if [m[0] for m in lms] == ["width"] and peel(c["r"]).get("k") == "lit":
            v = peel(c["r"])["v"]
            wide = {(">", 1): True, ("<=", 1): False, (">=", 2): True, ("<", 2): False, ("==", 1): False, ("!=", 1): True}.get((c["op"], v))
            if wide is not None:
                return "lit:wide", sign == wide
    if c.get("k") == "mcall" and c["name"] in ("is_true", "is_false") and not c["args"]:
        return "lit:true", sign == (c["name"] == "is_true")
    return "?" + show(c).replace(" ", ""), sign


def choose(rows, facts_):
    """token written under the given facts {cond class: bool}; returns (token or None, row) ; None = nothing written"""
    for r in rows:
        ok = True
        for cls, want in r["conds"]:
            if cls.startswith("?"):
                return ("?unknown-cond", r)
            if facts_.get(cls, False) != want:
                ok = False
        if ok:
            return (token_of(r["fmt"]) if r["fmt"] is not None else None, r)
    return (None, None)


def emitted(nat, must_bv):
    """sort of a sub-term after the coercion wrappers"""
    if nat in ("Bool", "BV1"):
        return "BV1" if must_bv else "Bool"
    return nat


def evaluate(ctx, model, t0, t1):
    table, consumes, produces, flags, wraps = model["table"], model["consumes"], model["produces"], model["flags"], model["wraps"]
    # coercion table: 8 valuations
    for one_bit, must_bv, nat_bv in itertools.product([False, True], repeat=3):
        val = {"one_bit": one_bit, "must_bv": must_bv, "nat_bv": nat_bv}
        to_bv = bp.ev(flags["convert_result_to_bv"], val)
        to_bool = bp.ev(flags["convert_result_to_bool"], val)
        want_bv = one_bit and must_bv and not nat_bv
        want_bool = one_bit and not must_bv and nat_bv
        ctx.inst("R05.1", "coercion|one_bit=%d must_bv=%d nat_bv=%d" % (one_bit, must_bv, nat_bv), to_bv == want_bv and to_bool == want_bool, None,
                 "coercion flags for (1-bit=%s, must be bit-vector=%s, naturally bit-vector=%s) are to_bv=%s to_bool=%s, needed to_bv=%s to_bool=%s" % (one_bit, must_bv, nat_bv, to_bv, to_bool, want_bv, want_bool))
    ctx.inst("R05.1", "coercion:to_bv-wrapper", sorted(wraps.get("convert_result_to_bv", [])) == sorted(["(ite ", " #b1 #b0)"]), None, "Bool->BitVec coercion must wrap as `(ite X #b1 #b0)`: %s" % wraps.get("convert_result_to_bv"))
    ctx.inst("R05.1", "coercion:to_bool-wrapper", sorted(wraps.get("convert_result_to_bool", [])) == sorted(["(= ", " #b1)"]), None, "BitVec->Bool coercion must wrap as `(= X #b1)`: %s" % wraps.get("convert_result_to_bool"))
    n_cases = 0
    CL = ["1", "n"]

    def nat_of(vn, result1):
        return ("BV1" if vn in produces else "Bool") if result1 else "BVn"

    def child_sorts(classes, must):
        # children are abstract: a 1-bit child of either producer class is coerced to the requirement
        return [emitted("Bool" if c_ == "1" else "BVn", must) if c_ in ("1", "n") else c_ for c_ in classes]

    def arr(i, d):
        return ("Arr", "Bool" if i == "1" else "BVn", "Bool" if d == "1" else "BVn")

    cases = []
    for vn, info in t0.variants.items():
        nch = len(info["child_keys"])
        if nch == 0:
            continue
        if vn in ("BVZeroExt", "BVSignExt"):
            cases += [(vn, [c_], False, {"child1": c_ == "1"}) for c_ in CL]
        elif vn == "BVSlice":
            cases += [(vn, ["n"], r1, {"full": False, "result1": r1}) for r1 in (True, False)]
        elif vn in ("BVNot", "BVNegate"):
            cases += [(vn, [c_], c_ == "1", {"node1": c_ == "1"}) for c_ in CL]
        elif vn in ("BVEqual", "BVGreater", "BVGreaterSigned", "BVGreaterEqual", "BVGreaterEqualSigned"):
            cases += [(vn, [c_, c_], True, {"node1": True}) for c_ in CL]
        elif vn == "BVImplies":
            cases += [(vn, ["1", "1"], True, {"node1": True})]
        elif vn == "BVConcat":
            cases += [(vn, [a, b], False, {}) for a in CL for b in CL]
        elif vn == "BVIte":
            cases += [(vn, ["1", c_, c_], c_ == "1", {"node1": c_ == "1"}) for c_ in CL]
        elif vn == "BVArrayRead":
            cases += [(vn, [arr(i, d), i], d == "1", {"node1": d == "1"}) for i in CL for d in CL]
        elif vn == "ArrayConstant":
            cases += [(vn, [d], None, {"arr": arr(i, d)}) for i in CL for d in CL]
        elif vn == "ArrayEqual":
            cases += [(vn, [arr(i, d), arr(i, d)], True, {"node1": True}) for i in CL for d in CL]
        elif vn == "ArrayStore":
            cases += [(vn, [arr(i, d), i, d], None, {"arr": arr(i, d)}) for i in CL for d in CL]
        elif vn == "ArrayIte":
            cases += [(vn, ["1", arr(i, d), arr(i, d)], None, {"arr": arr(i, d)}) for i in CL for d in CL]
        else:  # width-preserving binaries
            cases += [(vn, [c_, c_], c_ == "1", {"node1": c_ == "1"}) for c_ in CL]
    for vn, classes, result1, facts_ in cases:
        rows = table.get(vn, {}).get("rows", [])
        tok, row = choose(rows, facts_)
        must = vn in consumes
        cs = child_sorts(classes, must)
        key = "%s|children=%s" % (vn, ",".join(c_ if isinstance(c_, str) else "arr(%s,%s)" % (c_[1], c_[2]) for c_ in classes))
        n_cases += 1
        sp = table.get(vn, {}).get("sp")
        if tok == "?unknown-cond":
            ctx.violation("R05.1", "case|" + key, sp, "UNRECOGNISED condition in the %s arm: %s" % (vn, row["conds"]))
            continue
        if tok is None:
            ctx.violation("R05.1", "case|" + key, sp, "no operator is written for %s in this case (the closing parenthesis is still written)" % vn)
            continue
        args = list(cs)
        if vn in ("BVZeroExt", "BVSignExt") and tok == "ite":
            args = [cs[0], "BVn", "BVn"]
        try:
            ok, res, why = sig(tok, args, dict(facts_))
        except IndexError:
            ok, res, why = False, "?", "operator %s written with %d argument(s)" % (tok, len(args))
        want_nat = nat_of(vn, result1) if result1 is not None else facts_["arr"]
        if vn in ("BVIte",) and result1:
            want_nat = nat_of(vn, True)
        okr = repr(res) == repr(want_nat)
        ctx.inst("R05.1", "case|" + key, ok and okr, row["sp"] if row else sp,
                 "%s with operand classes %s is written as (%s %s): %s; result sort %s, the writer treats the node as %s" % (vn, classes, tok, " ".join(map(str, args)), why if not ok else "arguments fine", res, want_nat),
                 sample={"variant": vn, "operands": [str(x) for x in classes], "written": "(%s %s)" % (tok, " ".join(map(str, args))), "sort": str(res)})
    ctx.extra["sort_cases"] = n_cases
    ctx.floor("R05.1", "sort-discipline cases", n_cases, 70)
    # nullary: symbols/literals natural sort is Bool for 1-bit (declared via serialize_type) and must not be in produces
    for vn in ("BVSymbol", "BVLiteral", "BVEqual", "BVGreater", "BVImplies", "BVArrayRead", "BVIte", "BVNot", "BVAnd", "BVOr", "BVXor"):
        ctx.inst("R05.1", "produces:%s-is-Bool" % vn, vn not in produces, None, "%s yields Bool for 1-bit results but is listed in always_produces_bit_vec" % vn, nontrivial=False)
    # literal arm
    rows = table.get("BVLiteral", {}).get("rows", [])
    lit = {}
    for r in rows:
        lit[tuple(sorted(r["conds"]))] = fmtstr.shape(r["fmt"])
    okl = lit.get((("lit:wide", True),)) == "#b{}" and lit.get((("lit:true", True), ("lit:wide", False))) == "true"
    fmts = sorted(fmtstr.shape(r["fmt"]) for r in rows)
    ctx.inst("R05.1", "literal-forms", fmts == ["#b{}", "false", "true"] and bool(okl), table.get("BVLiteral", {}).get("sp"), "literals must be written as #b<bits> when wider than 1 bit and as true/false otherwise: %s" % [(r["conds"], r["fmt"]) for r in rows])
    if ctx.tier == "thorough":
        two_level(ctx, model, t0, cases)


def two_level(ctx, model, t0, cases):
    """cross-check of the modular argument: every (parent case, child position, concrete 1-bit child variant)"""
    consumes, produces = model["consumes"], model["produces"]
    one_bit_children = [vn for vn in t0.variants if vn.startswith("BV") and vn not in ("BVZeroExt", "BVSignExt", "BVConcat")]
    n = 0
    bad = 0
    for vn, classes, result1, facts_ in cases:
        must = vn in consumes
        for pos, cl in enumerate(classes):
            if cl != "1":
                continue
            for child in one_bit_children:
                nat = "BV1" if child in produces else "Bool"
                val = {"one_bit": True, "must_bv": must, "nat_bv": nat == "BV1"}
                to_bv = bp.ev(model["flags"]["convert_result_to_bv"], val)
                to_bool = bp.ev(model["flags"]["convert_result_to_bool"], val)
                out = "BV1" if (to_bv or (nat == "BV1" and not to_bool)) else "Bool"
                n += 1
                if out != ("BV1" if must else "Bool"):
                    bad += 1
                    ctx.violation("R05.1", "nest|%s[%d]<-%s" % (vn, pos, child), None, "a 1-bit %s under %s (position %d) is emitted as %s but the parent needs %s" % (child, vn, pos, out, "BV1" if must else "Bool"))
    ctx.inst("R05.1", "two-level-nestings", bad == 0, None, "%d of %d parent/child nestings ill-sorted" % (bad, n), sample={"nestings_checked": n})
    ctx.extra["two_level_cases"] = n


def meaning(ctx, model, t0):
    for vn, info in t0.variants.items():
        if not info["child_keys"]:
            continue
        rows = model["table"].get(vn, {}).get("rows", [])
        toks = set()
        for r in rows:
            t = token_of(r["fmt"]) if r["fmt"] else None
            if t:
                toks.add(t)
                if t in BOOL_ONLY - {"=>"}:
                    one = [(cls, want) for cls, want in r["conds"] if cls in ("node1", "child1")]
                    ctx.inst("R05.2", "%s:%s:only-when-1-bit" % (vn, t), one == [("node1", True)], r["sp"], "the Bool operator `%s` for %s must be selected exactly under the node's 1-bit test (conditions: %s)" % (t, vn, r["conds"]))
        ctx.inst("R05.2", "%s:operator" % vn, toks == MEANING.get(vn) or (vn == "BVSlice" and toks == {"extract"}), model["table"].get(vn, {}).get("sp"),
                 "%s is written with operator(s) %s, its meaning requires %s" % (vn, sorted(toks), sorted(MEANING.get(vn, []))), sample={"variant": vn, "operators": sorted(toks)})


class _Unknown(Exception):
    pass


def eval_type_writer(c, f, case):
    """abstract evaluation of serialize_type for one class of types: case = ("BV", w) | ("Array", i, d) with widths "1" (exactly one bit) or "n" (wider).
    Returns the write site reached as (format shape, [roles of the placeholders: "w" | "i" | "d"]); raises _Unknown when the path depends on anything else."""
    TYPE = "patronus::expr::nodes::Type::"
    sites = {id(s_["node"]): s_ for s_ in fmtstr.macro_sites(c, f["body"], ("write", "writeln"))}
    tpe_id = (param_ids(f) + [None, None])[1]
    env = {}

    def width(role, cls):
        return ("int", role, cls)
    if case[0] == "BV":
        tval = ("type", "BV", width("w", case[1]))
    else:
        tval = ("type", "Array", ("arr", width("i", case[1]), width("d", case[2])))

    def val(e):
        e = peel(e)
        k = e.get("k")
        if k == "local":
            if tpe_id is not None and canon(e["id"]) == canon(tpe_id):
                return tval
            if e["id"] in env:
                return env[e["id"]]
            raise _Unknown("local " + e["name"])
        if k == "lit":
            return ("lit", e.get("v"))
        if k == "field":
            b = val(e["e"])
            if b[0] == "arr":
                return {"index_width": b[1], "data_width": b[2]}.get(e["name"]) or _raise("field " + str(e["name"]))
            raise _Unknown("field of " + str(b[0]))
        if k == "tuple":
            return ("tuple", [val(x) for x in e["es"]])
        if k == "binary" and e["op"] in ("==", "!=", ">", "<=", ">=", "<"):
            a, b = val(e["l"]), val(e["r"])
            op = e["op"]
            if a[0] == "lit" and b[0] == "int":
                a, b = b, a
                op = {"<": ">", ">": "<", "<=": ">=", ">=": "<=", "==": "==", "!=": "!="}[op]
            if a[0] == "int" and b[0] == "lit":
                one = a[2] == "1"
                tbl = {("==", 1): one, ("!=", 1): not one, (">", 1): not one, ("<=", 1): one, (">=", 2): not one, ("<", 2): one}
                if (op, b[1]) in tbl:
                    return ("bool", tbl[(op, b[1])])
            raise _Unknown("comparison")
        if k == "binary" and e["op"] in ("&&", "||"):
            a = val(e["l"])
            if a[0] != "bool":
                raise _Unknown("non-bool operand")
            if (e["op"] == "&&" and not a[1]) or (e["op"] == "||" and a[1]):
                return a
            return val(e["r"])
        if k == "unary" and e["op"] == "!":
            a = val(e["e"])
            if a[0] != "bool":
                raise _Unknown("non-bool operand")
            return ("bool", not a[1])
        if k == "match":
            # `let (index, data) = match tpe { .. Type::Array(a) => (a.index_width, a.data_width) }`
            v = val(e["scrut"])
            for arm in e["arms"]:
                if bind(arm["pat"], v):
                    if "guard" in arm:
                        g_ = val(arm["guard"])
                        if g_[0] != "bool":
                            raise _Unknown("guard")
                        if not g_[1]:
                            continue
                    return val(arm["body"])
            raise _Unknown("no arm matches")
        if k == "if" and "else" in e:
            cv = val(e["cond"])
            if cv[0] != "bool":
                raise _Unknown("condition")
            return val(e["then"] if cv[1] else e["else"])
        if k == "blockexpr" and "tail" in e["b"] and not [s_ for s_ in e["b"]["stmts"] if s_.get("k") != "let"]:
            for s_ in e["b"]["stmts"]:
                if "init" in s_:
                    bind(s_["pat"], val(s_["init"]))
            return val(e["b"]["tail"])
        raise _Unknown("expression " + str(k))

    def _raise(m):
        raise _Unknown(m)

    def bind(pat, v):
        """True/False: does v match pat (binding into env)"""
        while pat.get("k") in ("pref", "pderef"):
            pat = pat["pat"]
        k = pat.get("k")
        if k == "pwild":
            return True
        if k == "pbind" and "sub" not in pat:
            env[pat["id"]] = v
            return True
        if k == "plit":
            if v[0] == "int":
                if pat.get("v") == 1:
                    return v[2] == "1"
                if pat.get("v") == 0:
                    return False
                raise _Unknown("literal pattern %s" % pat.get("v"))
            raise _Unknown("literal pattern on non-int")
        if k == "ptuple" and v[0] == "tuple" and len(pat["subs"]) == len(v[1]) and not pat.get("rest"):
            return all([bind(sp, x) for sp, x in zip(pat["subs"], v[1])])
        if k == "pvariant" and v[0] == "type":
            if pat["path"] != TYPE + v[1]:
                return False
            if len(pat["subs"]) == 1:
                return bind(pat["subs"][0], v[2])
            return True
        if k == "por":
            return any(bind(a, v) for a in pat["alts"])
        if k == "pstruct" and v[0] == "arr":
            # `ArrayType { index_width, data_width }`
            for fl_ in pat["fields"]:
                fv = {"index_width": v[1], "data_width": v[2]}.get(fl_["name"])
                if fv is None:
                    raise _Unknown("field " + str(fl_["name"]))
                if not bind(fl_["pat"], fv):
                    return False
            return True
        raise _Unknown("pattern " + str(k))

    written = []          # (format shape, placeholder roles) of every write executed, in order

    class _Ret(Exception):
        pass

    def emit(site):
        pc = fmtstr.parse_call(site["snippet"])
        roles = []
        for a in fmtstr.arg_nodes(site):
            try:
                v = val(a) if a is not None else ("?",)
            except _Unknown:
                v = ("?",)
            roles.append(v[1] if v[0] == "int" else "?")
        written.append((fmtstr.shape(pc[2]), roles))

    def run_(e):
        """executes e abstractly, recording the writes in order"""
        if id(e) in sites:
            emit(sites[id(e)])
            return
        k = e.get("k")
        if k in ("return", "ireturn"):
            if "e" in e:
                run_(e["e"])
            raise _Ret()
        if k in ("try", "semi", "ref", "paren"):
            if "e" in e:
                run_(e["e"])
            return
        if k == "blockexpr" or k == "block":
            b = e["b"] if k == "blockexpr" else e
            try:
                for s_ in b["stmts"]:
                    if s_.get("k") == "let":
                        if "init" in s_:
                            run_(s_["init"])
                            try:
                                bind(s_["pat"], val(s_["init"]))
                            except _Unknown:
                                pass            # a binding that is never needed does not matter; a needed one raises at its use
                        continue
                    run_(s_)
                if "tail" in b:
                    run_(b["tail"])
            except _Ret:
                if k == "blockexpr" and "inl_id" in e:
                    return                      # the exit of an inlined helper ends that helper only
                raise
            return
        if k == "match":
            if not any(id(x) in sites for x in walk(e)):
                return
            v = val(e["scrut"])
            for arm in e["arms"]:
                if bind(arm["pat"], v):
                    if "guard" in arm:
                        g_ = val(arm["guard"])
                        if g_[0] != "bool":
                            raise _Unknown("guard")
                        if not g_[1]:
                            continue
                    run_(arm["body"])
                    return
            raise _Unknown("no arm matches")
        if k == "if":
            if not any(id(x) in sites for x in walk(e)):
                return
            cv = val(e["cond"])
            if cv[0] != "bool":
                raise _Unknown("condition")
            if cv[1]:
                run_(e["then"])
            elif "else" in e:
                run_(e["else"])
            return
        if k in ("mcall", "call"):
            for a in call_args(e):
                if any(id(x) in sites for x in walk(a)):
                    run_(a)
            return
        return
    try:
        run_(f["body"])
    except _Ret:
        pass
    if not written:
        raise _Unknown("nothing is written")
    return "".join(w[0] for w in written), [r for w in written for r in w[1]]


def types(ctx, c):
    f = ctx.fn("patronus", S + "serialize_type")

    def sort_txt(role, cls):
        return ("Bool", []) if cls == "1" else ("(_ BitVec {})", [role])
    got = {}
    ok = True
    why = []
    cases = [("BV", w) for w in "1n"] + [("Array", i, d) for i in "1n" for d in "1n"]
    for case in cases:
        if case[0] == "BV":
            want = sort_txt("w", case[1])
        else:
            a, b = sort_txt("i", case[1]), sort_txt("d", case[2])
            want = ("(Array %s %s)" % (a[0], b[0]), a[1] + b[1])
        try:
            res = eval_type_writer(c, f, case)
        except _Unknown as ex:
            ok = False
            why.append("%s: UNRECOGNISED (%s)" % (case, ex))
            continue
        got[str(case)] = res[0]
        if (res[0], res[1]) != want:
            ok = False
            why.append("%s is written as `%s` with widths %s, expected `%s` with %s" % (case, res[0], res[1], want[0], want[1]))
    ctx.inst("R05.1", "serialize_type:table", ok, f["span"], "serialize_type must spell 1-bit sorts as Bool and others as (_ BitVec w), arrays as (Array <index> <data>) in that order: %s" % "; ".join(why), sample=got)


def child_order(ctx):
    """find_next_child(pos, e): a counter starting at 0 is incremented once per child in for_each_child order, the child seen when
    counter == pos is the result (assigned before the increment)"""
    f = ctx.fn("patronus", S + "find_next_child")
    ix = Index(f["body"])
    defs = local_defs(f)
    p_pos = (param_ids(f) + [None])[0]
    txt = show(f["body"])
    fec = [n for n in ix.nodes if n.get("k") == "mcall" and n["name"] == "for_each_child"]
    ok = len(fec) == 1
    if ok:
        cl = resolve(fec[0]["args"][0])
        cb = pat_bindings(cl["params"][0]) if cl.get("k") == "closure" and cl.get("params") else []
        incs = [n for n in walk(cl.get("body", {})) if n.get("k") == "assignop" and n["op"] in ("+=", "+") and peel(n["l"]).get("k") == "local" and peel(n["r"]).get("v") == 1]
        ok = len(cb) == 1 and len(incs) == 1 and len(ix.regions[id(incs[0])]) == len(ix.regions[id(cl)]) + 1
        if ok:
            counter = peel(incs[0]["l"])["id"]
            init = simple_let_init(defs, counter)
            ok = init is not None and peel(init).get("v") == 0
            # the selection: `if counter == pos { out = Some(*c) }` before the increment
            sel = [a for a in walk(cl["body"]) if a.get("k") == "assign" and peel(a["l"]).get("k") == "local"]
            ok = ok and len(sel) == 1
            if ok:
                a = sel[0]
                r = peel(a["r"])
                conds = norm_.path_conditions(ix, a, upto=cl)
                eq = len(conds) == 1 and conds[0][1] is True and conds[0][0].get("k") == "binary" and conds[0][0]["op"] == "==" and \
                    {local_id(conds[0][0]["l"]), local_id(conds[0][0]["r"])} == {canon(counter), canon(p_pos)}
                ok = eq and r.get("k") == "ctor" and callee(r).endswith("Option::Some") and is_local(r["args"][0], cb[0][1]) and ix.precedes(a, incs[0]) \
                    and is_local(norm_.result_value(f["body"]), peel(a["l"])["id"])
                oinit = simple_let_init(defs, peel(a["l"])["id"])
                ok = ok and oinit is not None and (callee(peel(oinit)) or peel(oinit).get("path", "")).endswith("Option::None")
    ctx.inst("R05.3", "find_next_child", ok, f["span"], "find_next_child(pos) must return the pos-th child in for_each_child order: %s" % txt[:200], sample=txt[:160])


def degenerate(ctx, c):
    allowed = {"BVSlice": "slice", "BVZeroExt": "zero_extend", "BVSignExt": "sign_extend"}
    n = 0
    for path, fl in c.fns.items():
        if path.startswith("<" + EXPR + " as core::"):
            continue  # derived Clone/PartialEq/Debug/Hash copy an existing node
        for f in fl:
            for x in walk(f["body"]):
                if x.get("k") in ("struct", "ctor"):
                    p = x.get("path") if x["k"] == "struct" else callee(x)
                    vn = (p or "").split("::")[-1]
                    if (p or "").startswith(EXPR + "::") and vn in allowed:
                        n += 1
                        ok = path in (builders.CTX + "::" + allowed[vn], "patronus::expr::transform::update_expr_children")
                        if not ok and vn in ("BVZeroExt", "BVSignExt") and path.startswith(builders.CTX + "::"):
                            # another Context method may build the node when it performs the normalisation itself: the site runs only under `by != 0` for the `by` it stores
                            ix_ = Index(f["body"])
                            byv = None
                            if x["k"] == "struct":
                                byv = [fl_["e"] for fl_ in x["fields"] if fl_["name"] == "by"]
                                byv = byv[0] if byv else None
                            for cnd, pol in norm_.path_conditions(ix_, x):
                                if byv is not None and not pol and cnd.get("k") == "binary" and cnd["op"] == "==" and \
                                        ((local_id(cnd["l"]) is not None and local_id(cnd["l"]) == local_id(byv) and peel(cnd["r"]).get("v") == 0) or
                                         (local_id(cnd["r"]) is not None and local_id(cnd["r"]) == local_id(byv) and peel(cnd["l"]).get("v") == 0)):
                                    ok = True
                        ctx.inst("R05.4", "constructs:%s in %s" % (vn, path), ok, x["sp"], "%s constructs Expr::%s directly, bypassing the normalising builder: a full-range slice / extension by 0 would be written with unbalanced parentheses or a wrong coercion" % (path, vn))
    ctx.floor("R05.4", "constructions of BVSlice/BVZeroExt/BVSignExt", n, 6)
    add = c.fns.get(builders.ADD_EXPR)
    ctx.inst("R05.4", "add_expr-crate-private", bool(add) and add[0].get("vis") != "pub", add[0]["span"] if add else None, "Context::add_expr is public: other crates can intern un-normalised nodes")


SIMPLE_SYMBOL_PUNCT = set("~!@$%^&*_-+=<>.?/")


def identifiers(ctx, c):
    f = ctx.fn("patronus", S + "is_simple_smt_identifier")
    ix = Index(f["body"])
    defs = local_defs(f)
    p_id = (param_ids(f) + [None])[0]
    # (1) where every character is tested: a loop over id.chars() that rejects with `return false`, or id.chars()[.enumerate()].all(pred)
    char_ids, pos_ids = set(), set()
    per_char = None          # ("loop", loop node) | ("all", closure)
    slice_match = None       # a match on the identifier's bytes whose catch-all arm holds the per-character test
    for n in ix.nodes:
        if n.get("k") == "for":
            b_, ms_ = chain(n["iter"])
            names = [m_[0] for m_ in ms_]
            if is_local(b_, p_id) and names in (["chars"], ["bytes"], ["chars", "enumerate"], ["bytes", "enumerate"]):
                per_char = ("loop", n)
                pat = n["pat"]
                if names[-1] == "enumerate" and pat.get("k") == "ptuple":
                    pos_ids |= {i_ for _, i_ in pat_bindings(pat["subs"][0])}
                    char_ids |= {i_ for _, i_ in pat_bindings(pat["subs"][1])}
                else:
                    char_ids |= {i_ for _, i_ in pat_bindings(pat)}
        if n.get("k") == "mcall" and n["name"] == "all" and len(n["args"]) == 1:
            b_, ms_ = chain(n["recv"])
            names = [m_[0] for m_ in ms_]
            cl = resolve(n["args"][0])
            b0_ = peel(b_)
            if b0_.get("k") == "local" and not is_local(b_, p_id):
                # `match id.as_bytes() { [] => .., [first, ..] if .. => .., bytes => bytes.iter().all(..) }`: the catch-all binding is the identifier again
                d_ = defs.get(b0_["id"]) or defs.get(canon(b0_["id"]))
                if d_ and d_[0] == "arm":
                    sb_, sms_ = chain(d_[1]["scrut"])
                    if is_local(sb_, p_id) and [m_[0] for m_ in sms_] in (["as_bytes"], ["bytes"], ["chars"]):
                        slice_match = d_[1]
                        b_ = sb_
                        names = [("bytes" if m_[0] == "as_bytes" else m_[0]) for m_ in sms_] + [x for x in names if x not in ("iter", "copied", "cloned")]
            elif is_local(b_, p_id) and names[:1] == ["as_bytes"]:
                names = ["bytes"] + [x for x in names[1:] if x not in ("iter", "copied", "cloned")]
            if is_local(b_, p_id) and names in (["chars"], ["bytes"], ["chars", "enumerate"], ["bytes", "enumerate"]) and cl.get("k") == "closure" and len(cl["params"]) == 1:
                per_char = ("all", cl, n)
                pat = cl["params"][0]
                while pat.get("k") in ("pref", "pderef"):
                    pat = pat["pat"]
                if names[-1] == "enumerate" and pat.get("k") == "ptuple":
                    pos_ids |= {i_ for _, i_ in pat_bindings(pat["subs"][0])}
                    char_ids |= {i_ for _, i_ in pat_bindings(pat["subs"][1])}
                else:
                    char_ids |= {i_ for _, i_ in pat_bindings(pat)}
    # `let ac = cc as u8;` and similar: further names of the character
    lossy_cast = False
    changed = True
    while changed:
        changed = False
        for i_, d in defs.items():
            if d[0] == "let" and "init" in d[1] and d[2].get("k") == "pbind" and i_ not in char_ids:
                e = peel(d[1]["init"])
                casted = False
                while e.get("k") == "cast":
                    casted = casted or (e.get("ty") in ("u8", "i8"))
                    e = peel(e["e"])
                if casted and e.get("k") == "local" and (e["id"] in char_ids or canon(e["id"]) in {canon(x) for x in char_ids}):
                    lossy_cast = True      # `c as u8` drops the high bits: the class tests on it say nothing about a non-ASCII character
                if e.get("k") == "local" and (e["id"] in char_ids or canon(e["id"]) in {canon(x) for x in char_ids}):
                    char_ids.add(i_)
                    changed = True
    is_char = lambda e: peel(e).get("k") == "local" and (peel(e)["id"] in char_ids or canon(peel(e)["id"]) in {canon(x) for x in char_ids})
    # the "first character" flag of the loop form: `let mut is_first = true;` ... `is_first = false;` at the end of every iteration
    first_flags = set()
    if per_char and per_char[0] == "loop":
        for a in ix.nodes:
            if a.get("k") == "assign" and peel(a["l"]).get("k") == "local" and peel(a["r"]).get("v") is False and contains(per_char[1]["body"], a) \
                    and len(ix.regions[id(a)]) == len(ix.regions[id(per_char[1])]) + 1:
                lid = peel(a["l"])["id"]
                init = simple_let_init(defs, lid)
                if init is not None and peel(init).get("v") is True and ix.precedes(defs[lid][1], per_char[1]):
                    first_flags.add(lid)
    other_sets = []        # character sets of the explicit punctuation tests
    slice_empty_rejected = False

    def atom_fn(n):
        k = n.get("k")
        if k == "local" and n["id"] in first_flags:
            return "FIRST"
        if k == "mcall" and is_char(n["recv"]) and not n["args"]:
            return {"is_ascii": "ASCII", "is_ascii_alphabetic": "ALPHA", "is_ascii_digit": "DIGIT", "is_numeric": None, "is_alphanumeric": None, "is_alphabetic": None}.get(n["name"], {
                "is_ascii_uppercase": "UPPER", "is_ascii_lowercase": "LOWER", "is_ascii_alphanumeric": "ALNUM", "is_ascii_punctuation": "PUNCT"}.get(n["name"]))
        if k == "match" and is_char(n["scrut"]) and len(n["arms"]) == 2:
            # matches!(c, b'+' | b'-' ..)
            a0, a1 = n["arms"]
            alts = pat_alts(a0["pat"])
            if all(x.get("k") == "plit" and x.get("lk") in ("byte", "char") for x in alts) and peel(a0["body"]).get("v") is True and a1["pat"].get("k") == "pwild" and peel(a1["body"]).get("v") is False:
                other_sets.append({chr(x["v"]) if isinstance(x["v"], int) else x["v"] for x in alts})
                return "OTHER"
        if k == "mcall" and n["name"] == "contains" and len(n["args"]) == 1 and is_char(n["args"][0]):
            src = resolve(n["recv"])
            if src.get("k") == "def" and src.get("path") in CONSTS:
                src = peel(CONSTS[src["path"]])
            if src.get("k") == "lit" and isinstance(src.get("v"), str):
                other_sets.append(set(src["v"]))
                return "OTHER"
            if src.get("k") == "lit" and isinstance(src.get("v"), (list, tuple)) and all(isinstance(x_, int) for x_ in src["v"]):
                other_sets.append({chr(x_) for x_ in src["v"]})
                return "OTHER"
        if k == "binary" and n["op"] in ("==", "!=", ">", ">=", "<", "<=") and peel(n["l"]).get("k") == "local" and peel(n["l"])["id"] in pos_ids and peel(n["r"]).get("k") == "lit":
            v = peel(n["r"]).get("v")
            first = {("==", 0): True, ("!=", 0): False, (">", 0): False, (">=", 1): False, ("<", 1): True, ("<=", 0): True}.get((n["op"], v))
            if first is not None:
                return "FIRST" if first else "NOTFIRST"
        return None
    accept = None
    why = "UNRECOGNISED: no loop over / `all` on every character of the identifier"
    try:
        if per_char and per_char[0] == "loop":
            loop = per_char[1]
            # a character passes an iteration iff none of the unconditional `if c { return false }` statements fires
            accept = ("const", True)
            body = loop["body"]
            blk = body["b"] if body.get("k") == "blockexpr" else body
            for st in blk.get("stmts", []) + ([blk["tail"]] if "tail" in blk else []):
                st = unsemi(st)
                if st.get("k") == "if" and "else" not in st and norm_._diverges(st["then"]):
                    rv = [x for x in walk(st["then"]) if x.get("k") == "return"]
                    if len(rv) == 1 and "e" in rv[0] and peel(rv[0]["e"]).get("v") is False:
                        accept = ("and", accept, ("not", bp.extract(st["cond"], {}, defs, None, 0, None, atom_fn)))
                        continue
                    raise bp.Opaque(st, "exit other than `return false`")
                if st.get("k") in ("let",) or (st.get("k") == "assign" and peel(st["l"]).get("k") == "local" and peel(st["l"])["id"] in first_flags):
                    continue
                raise bp.Opaque(st, "statement in the character loop")
            # after the loop the function answers true
            tail = norm_.result_value(f["body"])
            if not (tail.get("k") == "lit" and tail.get("v") is True):
                raise bp.Opaque(tail, "result after the loop")
        elif per_char and per_char[0] == "all":
            accept = bp.extract(per_char[1]["body"], {}, defs, None, 0, None, atom_fn)
            if slice_match is not None:
                # the earlier arms of the match on the bytes: `[] => false` rejects the empty name, `[first, ..] if G(first) => false` rejects a first character with G
                for arm in slice_match["arms"]:
                    pt = arm["pat"]
                    while pt.get("k") in ("pref", "pderef"):
                        pt = pt["pat"]
                    if pt.get("k") in ("pbind", "pwild"):
                        break
                    if pt.get("k") != "pslice" or peel(arm["body"]).get("v") is not False:
                        raise bp.Opaque(arm["body"], "arm of the match on the identifier's bytes")
                    if not pt["before"] and "mid" not in pt and not pt.get("after"):
                        slice_empty_rejected = True
                        continue
                    if len(pt["before"]) == 1 and "mid" in pt and not pt.get("after"):
                        fb = pat_bindings(pt["before"][0])
                        if len(fb) == 1:
                            char_ids.add(fb[0][1])
                            g_ = bp.extract(arm["guard"], {}, defs, None, 0, None, atom_fn) if "guard" in arm else ("const", True)
                            accept = ("and", accept, ("not", ("and", ("atom", "FIRST"), g_)))
                            continue
                    raise bp.Opaque(arm["body"], "slice pattern on the identifier's bytes")
            # a test of the first character before the `all`: `match id.chars().next() { None => return false, Some(c) if G(c) => return false, Some(_) => {} }`
            for mm in ix.nodes:
                if mm.get("k") != "match" or contains(per_char[1], mm) or not ix.precedes(mm, per_char[2]):
                    continue
                sb_, sms_ = chain(mm["scrut"])
                if not (is_local(sb_, p_id) and [m_[0] for m_ in sms_] in (["chars", "next"], ["bytes", "next"], ["as_bytes", "first"], ["as_bytes", "iter", "next"])):
                    continue
                def rejects(body_):
                    rv_ = [x for x in walk(body_) if x.get("k") == "return"]
                    return norm_._diverges(body_) and len(rv_) == 1 and "e" in rv_[0] and peel(rv_[0]["e"]).get("v") is False
                def passes(body_):
                    b_ = peel(body_)
                    return b_.get("k") in ("blockexpr", "tuple") and not [x for x in walk(b_) if x.get("k") in ("return", "mcall", "call", "assign")]
                for arm in mm["arms"]:
                    pt = arm["pat"]
                    while pt.get("k") in ("pref", "pderef"):
                        pt = pt["pat"]
                    is_none = pt.get("k") in ("pvariant", "pconst", "ppath") and pt.get("path", "").endswith("Option::None")
                    is_some = pt.get("k") == "pvariant" and pt.get("path", "").endswith("Option::Some") and len(pt.get("subs", [])) == 1
                    if is_none and "guard" not in arm and rejects(arm["body"]):
                        slice_empty_rejected = True
                        continue
                    if is_some and rejects(arm["body"]):
                        fb = pat_bindings(pt["subs"][0])
                        if len(fb) == 1:
                            char_ids.add(fb[0][1])
                        elif fb or "guard" in arm:
                            raise bp.Opaque(arm["body"], "pattern on the first character")
                        g_ = bp.extract(arm["guard"], {}, defs, None, 0, None, atom_fn) if "guard" in arm else ("const", True)
                        accept = ("and", accept, ("not", ("and", ("atom", "FIRST"), g_)))
                        continue
                    if (is_some or is_none or pt.get("k") in ("pwild", "pbind")) and "guard" not in arm and passes(arm["body"]):
                        continue
                    raise bp.Opaque(arm["body"], "arm of the test of the first character")
    except bp.Opaque as ex:
        accept = None
        why = "UNRECOGNISED (fail closed): the per-character test contains `%s` (%s)" % (show(ex.node)[:60], ex.why)
    # (2) the truth table over the kinds of characters
    kinds = {
        "letter": dict(ASCII=True, ALPHA=True, UPPER=True, LOWER=True, ALNUM=True, DIGIT=False, OTHER=False, PUNCT=False),
        "digit": dict(ASCII=True, ALPHA=False, UPPER=False, LOWER=False, ALNUM=True, DIGIT=True, OTHER=False, PUNCT=False),
        "listed punctuation": dict(ASCII=True, ALPHA=False, UPPER=False, LOWER=False, ALNUM=False, DIGIT=False, OTHER=True, PUNCT=True),
        "other ASCII": dict(ASCII=True, ALPHA=False, UPPER=False, LOWER=False, ALNUM=False, DIGIT=False, OTHER=False, PUNCT=False),
        "non-ASCII": dict(ASCII=False, ALPHA=False, UPPER=False, LOWER=False, ALNUM=False, DIGIT=False, OTHER=False, PUNCT=False),
    }
    # a letter is upper XOR lower: evaluate both
    table = {}
    if accept is not None:
        for kind, val in kinds.items():
            for first in (True, False):
                variants = [dict(val)]
                if kind == "letter":
                    variants = [dict(val, UPPER=True, LOWER=False), dict(val, UPPER=False, LOWER=True)]
                if kind == "non-ASCII" and lossy_cast:
                    # after a truncating cast the byte of a non-ASCII character can look like any ASCII character
                    variants = [dict(kinds[k2], ASCII=False) for k2 in ("letter", "digit", "listed punctuation", "other ASCII")]
                res = set()
                for v in variants:
                    v = dict(v, FIRST=first, NOTFIRST=not first)
                    res.add(bp.ev(accept, v))
                table[(kind, first)] = res
    lits = set().union(*other_sets) if other_sets else set()
    extra = lits - SIMPLE_SYMBOL_PUNCT
    ctx.inst("R05.5", "alphabet:subset", bool(lits) and not extra and all(ord(ch) < 128 for ch in lits), f["span"], "characters %s are written unquoted but are not SMT-LIB simple_symbol characters" % sorted(extra), sample="".join(sorted(lits)))
    ok = accept is not None and all(table[(k_, fi)] == {True} for k_ in ("letter", "listed punctuation") for fi in (True, False)) and table[("other ASCII", True)] == {False} and table[("other ASCII", False)] == {False} \
        and table[("digit", False)] == {True}
    if accept is not None and not ok:
        why = "the per-character test accepts %s" % sorted("%s%s" % (k_, " (first)" if fi else "") for (k_, fi), r in table.items() if True in r)
    # no way to answer `true` that bypasses the per-character test (e.g. `if id.bytes().all(|b| b.is_ascii_digit()) { return true }`)
    scope = per_char[1] if per_char else None
    early = [x for x in ix.nodes if x.get("k") == "return" and "e" in x and not (peel(x["e"]).get("k") == "lit" and peel(x["e"]).get("v") is False)
             and not (scope is not None and contains(scope, x))
             and (per_char is None or ix.precedes(x, per_char[1] if per_char[0] == "loop" else per_char[2]))]
    ctx.inst("R05.5", "no-early-accept", not early, early[0]["sp"] if early else f["span"],
             "is_simple_smt_identifier answers without testing every character: `%s` - a name accepted on this path is written unquoted whatever it contains" % (show(early[0])[:80] if early else ""))
    ctx.inst("R05.5", "every-character-tested", ok, f["span"], why)
    # the empty name: rejected before / besides the per-character test
    empties = [n for n in ix.nodes if n.get("k") == "mcall" and n["name"] == "is_empty" and is_local(n["recv"], p_id)]
    ok_empty = slice_empty_rejected
    for n in empties:
        # `if id.is_empty() { return false }` or `!id.is_empty() && ...` as (part of) the result
        for c_, pol in norm_.path_conditions(ix, n):
            pass
        par = ix.parent.get(id(n))
        if par is not None and par.get("k") == "if" and peel(par["cond"]) is n and norm_._diverges(par["then"]):
            rv = [x for x in walk(par["then"]) if x.get("k") == "return" and "e" in x and peel(x["e"]).get("v") is False]
            ok_empty = ok_empty or len(rv) == 1
        res = norm_.result_value(f["body"])
        if res.get("k") == "binary" and res["op"] == "&&":
            cj = conjuncts(res)
            ok_empty = ok_empty or any(x.get("k") == "unary" and x["op"] == "!" and resolve(x["e"]) is n for x in cj)
    ctx.inst("R05.5", "empty-rejected", ok_empty, f["span"], "the empty name must not be written unquoted")
    ctx.inst("R05.5", "leading-digit-rejected", accept is not None and table.get(("digit", True)) == {False}, f["span"], "a name starting with a digit must not be written unquoted")
    ctx.inst("R05.5", "non-ascii-rejected", accept is not None and table.get(("non-ASCII", True)) == {False} and table.get(("non-ASCII", False)) == {False}, f["span"], "non-ASCII characters must force quoting")
    g = ctx.fn("patronus", S + "escape_smt_identifier")
    gt = show(g["body"])
    sites = fmtstr.macro_sites(c, g["body"], ("format",))
    g_id = (param_ids(g) + [None])[0]
    tests = [x for x in walk(g["body"]) if x.get("k") == "call" and callee(x) == S + "is_simple_smt_identifier" and is_local(x["args"][0], g_id)]
    okq = len(sites) == 1 and fmtstr.shape(fmtstr.parse_call(sites[0]["snippet"])[2]) == "|{}|" and len(tests) == 1 and bool(fmtstr.arg_nodes(sites[0])) and is_local(fmtstr.arg_nodes(sites[0])[0], g_id)
    if okq:
        # quoted exactly when the test fails, passed through unchanged when it holds
        gx = Index(g["body"])
        conds = [(c_, pol) for c_, pol in norm_.path_conditions(gx, sites[0]["node"]) if c_ is tests[0] or resolve(c_) is tests[0]]
        okq = len(conds) == 1 and conds[0][1] is False
    ctx.inst("R05.5", "quoting", okq, g["span"], "everything that is not a simple symbol must be wrapped in |..|: %s" % gt[:120])
    # every identifier written goes through escape_smt_identifier
    n_sym = 0
    for path in (S + "serialize_expr", S + "serialize_cmd"):
        h = ctx.fn("patronus", path)
        for x in walk(h["body"]):
            if x.get("k") in ("mcall",) and x["name"] in ("get_symbol_name",) or (x.get("k") == "index" and (x.get("ty") or "").endswith("String")):
                # must be (an argument of) escape_smt_identifier
                n_sym += 1
        esc = [x for x in walk(h["body"]) if x.get("k") == "call" and callee(x) == S + "escape_smt_identifier"]
        names_ = [x for x in walk(h["body"]) if (x.get("k") == "mcall" and x["name"] == "get_symbol_name") or (x.get("k") == "index" and (x.get("ty") or "") == "alloc::string::String")]
        hix = Index(h["body"])

        def reaches_escape(nm):
            if any(contains(e_, nm) for e_ in esc):
                return True
            # `let name = ..get_symbol_name(..)..; escape_smt_identifier(name)`
            for a in hix.ancestors(nm):
                if a.get("k") == "let" and a["pat"].get("k") == "pbind":
                    lid = a["pat"]["id"]
                    return any(is_local(chain(e_["args"][0])[0], lid) for e_ in esc if e_.get("args"))
                if a.get("k") in ("closure", "for", "while", "loop", "if", "match"):
                    return False
            return False
        covered = [nm for nm in names_ if reaches_escape(nm)]
        ctx.inst("R05.5", "escaped:%s" % path.split("::")[-1], len(covered) == len(names_) and len(names_) >= 1, h["span"], "%d of %d symbol names written by %s do not pass through escape_smt_identifier" % (len(names_) - len(covered), len(names_), path))


CMD_NAMES = {"Exit": "exit", "CheckSat": "check-sat", "SetLogic": "set-logic", "SetOption": "set-option", "SetInfo": "set-info", "Assert": "assert", "DeclareConst": "declare-const",
             "DefineConst": "define-fun", "CheckSatAssuming": "check-sat-assuming", "Push": "push", "Pop": "pop", "GetValue": "get-value", "GetUnsatAssumptions": "get-unsat-assumptions"}


def cmd_table(ctx, c):
    f = ctx.fn("patronus", S + "serialize_cmd")
    P = {name: i for p in f["params"] for name, i in pat_bindings(p)}
    m = find_match_on(f["body"], lambda s_: is_local(s_, P.get("cmd")))
    rows = {}
    if m is None:
        return f, None
    for alt, arm in match_arms(m):
        vp = variant_pat(alt)
        if vp is None:
            rows["_"] = (None, arm)
            continue
        sites = fmtstr.macro_sites(c, arm["body"], ("write", "writeln"))
        first = None

        def lit_role(node):
            # a placeholder that prints a string constant (e.g. the command name handed to a helper that writes `({cmd} :{name} {value})`)
            n_ = resolve(node)
            return ("lit", n_["v"]) if n_.get("k") == "lit" and isinstance(n_.get("v"), str) else "arg"
        from .. import linewriter
        for s_ in sites:
            toks = linewriter.site_tokens(s_, lit_role)
            if toks and toks[0] and all(p_[0] == "lit" for p_ in toks[0]):
                word = "".join(p_[1] for p_ in toks[0])
                if word.startswith("("):
                    mm = re.match(r"^\(([a-z\-]+)", word)
                    first = mm.group(1) if mm else None
                    break
        rows[vname(vp[0])] = (first, arm)
    return f, rows


def commands(ctx, c):
    f, rows = cmd_table(ctx, c)
    if rows is None:
        ctx.violation("R05.6", "serialize_cmd:shape", f["span"], "UNRECOGNISED: serialize_cmd is not a match on the command")
        return
    adt = c.adts.get("patronus::smt::solver::SmtCommand")
    for v in adt["variants"]:
        vn = v["name"]
        got = rows.get(vn, (None, None))
        want = CMD_NAMES.get(vn)
        ctx.inst("R05.6", "command:%s" % vn, got[0] == want and want is not None, got[1]["sp"] if got[1] else f["span"],
                 "SmtCommand::%s is written as `(%s ...`, SMT-LIB names it `%s`" % (vn, got[0], want), sample={"command": vn, "written": got[0]})
    ctx.floor("R05.6", "SmtCommand variants", len(adt["variants"]), 13)
