"""C11 - plumbing of system-level transformations: field coverage, mode agreement, anonymous-input removal."""
import re
from ..tree import *  # noqa
from ..flow import Index
from .. import norm
from .. import norm as norm_it
from .. import iterdesc
from ..norm import tail_value
from .c02 import binding_of_pat, mname

TS = "patronus::system::transition_system::TransitionSystem"
EXPR_REF = "patronus::expr::context::ExprRef"
DO_TRANSFORM = "patronus::system::transform::do_transform"
DO_TRANSFORM_EXPR = "patronus::expr::transform::do_transform_expr"
GET_FIXED_POINT = "patronus::expr::meta::get_fixed_point"
MODE = "patronus::expr::transform::ExprTransformMode::"
SIMPLIFY = "patronus::expr::simplify::simplify"

EXPLANATION = ("Static analysis of system::transform and TransitionSystem::{get_all_exprs, update_expressions} (rustc HIR facts + type definitions): the set of expression-carrying "
               "fields reachable from TransitionSystem is computed from the types; get_all_exprs must read each of them and update_expressions must re-point each of them from update(its own old value) "
               "with its own old value as fallback; do_transform passes the unmodified root list and one mode to both the rewriting and the lookup; simplify_expressions uses FixedPoint with the simplifier; "
               "replace_anonymous_inputs_with_zero removes exactly the inputs it maps to a zero of their own type and substitutes in SingleStep mode.")
ASSUMPTIONS = ["equivalence of rewritten functions is C01's concern", "name bookkeeping is not decided"]
LEVEL_TEXT = ("Static field-coverage and provenance analysis derived from the type definitions: decides for every expression-carrying field of a transition system (including ones added later) that the "
              "system-level transformation reads it and re-points it from its own old value, plus mode/argument wiring of the three entry points. Function equivalence itself is not decided."
              " The structural clauses about the rewrite rules themselves (C01: casts, dispatcher wiring, sibling branches, width preservation, commutative-helper discipline, unit/annihilator table, baa sibling agreement) are re-evaluated here because 'simplifying all expressions' applies those rules.")
LEVEL_NOTE = "Structural necessary conditions of behaviour preservation; assumes the expression-level transform is meaning-preserving (C01)."
TECHNIQUE = "type-derived field-coverage check + def-use provenance rules + presence truth tables (a field is yielded iff it is present) on rustc HIR facts"


def carriers(c):
    """{(collection field, element field or None): kind} for every ExprRef-carrying place of TransitionSystem"""
    adt = c.adts[TS]
    out = {}
    for fl in adt["variants"][0]["fields"]:
        t = fl["ty"]
        m = re.match(r"alloc::vec::Vec<(.+)>$", t)
        if not m:
            continue
        el = m.group(1)
        if el == EXPR_REF:
            out[(fl["name"], None)] = "plain"
        elif el in c.adts:
            for ef in c.adts[el]["variants"][0]["fields"]:
                if ef["ty"] == EXPR_REF:
                    out[(fl["name"], ef["name"])] = "plain"
                elif ef["ty"] == "core::option::Option<%s>" % EXPR_REF:
                    out[(fl["name"], ef["name"])] = "option"
    return out


def _presence_atoms(D, cond, pol):
    """a path condition as a formula over atoms `descriptor is Some`: ("atom", d) | ("and"/"or", [..]) | ("not", f) | ("free", text) | ("true",)"""
    k = cond.get("k")
    if k == "letexpr":
        return _pat_formula(D, cond["init"], cond["pat"], pol)
    if k == "armpat":
        return _pat_formula(D, cond["scrut"], cond["pat"], pol)
    if k == "mcall" and cond["name"] in ("is_some", "is_none") and not cond["args"]:
        f = ("atom", D.of(cond["recv"]))
        if cond["name"] == "is_none":
            f = ("not", f)
        return f if pol else ("not", f)
    f = ("free", show(cond)[:80])
    return f if pol else ("not", f)


def _pat_formula(D, scrut, pat, pol):
    def one(e, p):
        while p.get("k") in ("pref", "pderef"):
            p = p["pat"]
        if p.get("k") in ("pwild", "pbind") and "sub" not in p:
            return ("true",)
        if p.get("k") == "pvariant" and p["path"].endswith("Option::Some"):
            return ("atom", D.of(e))
        if p.get("k") in ("pvariant", "pconst", "ppath") and p.get("path", "").endswith("Option::None"):
            return ("not", ("atom", D.of(e)))
        if p.get("k") == "ptuple" and peel(e).get("k") == "tuple" and len(p["subs"]) == len(peel(e)["es"]):
            return ("and", [one(x, q) for x, q in zip(peel(e)["es"], p["subs"])])
        if p.get("k") == "por":
            return ("or", [one(e, q) for q in p["alts"]])
        return ("free", "%s matches %s" % (show(e)[:40], show_pat(p)[:40]))
    f = one(scrut, pat)
    return f if pol else ("not", f)


def _eval_formula(f, env):
    t = f[0]
    if t == "true":
        return True
    if t in ("atom", "free"):
        return env[f]
    if t == "not":
        return not _eval_formula(f[1], env)
    if t == "and":
        return all(_eval_formula(x, env) for x in f[1])
    if t == "or":
        return any(_eval_formula(x, env) for x in f[1])
    raise ValueError(t)


def _atoms(f, out):
    if f[0] in ("atom", "free"):
        out.add(f)
    elif f[0] == "not":
        _atoms(f[1], out)
    elif f[0] in ("and", "or"):
        for x in f[1]:
            _atoms(x, out)


def yields_iff_present(ctx, g, gix):
    import itertools
    D = iterdesc.Desc(gix, local_defs(g))
    sites = {}
    for n in gix.nodes:
        if n.get("k") == "mcall" and n["name"] == "push" and len(n["args"]) == 1 and "ExprRef" in (n["args"][0].get("ty") or ""):
            d = D.of(n["args"][0])
            if d[0] == "?":
                continue
            conds = norm.path_conditions(gix, n, arms=True)
            f = ("and", [_presence_atoms(D, c_, pol) for c_, pol in conds])
            sites.setdefault(d, []).append((f, n))
    for d, fs in sorted(sites.items(), key=lambda x: str(x[0])):
        want = ("atom", d[1]) if d[0] == "payload" else ("true",)
        yielded = ("or", [f for f, _ in fs])
        atoms = set()
        _atoms(yielded, atoms)
        _atoms(want, atoms)
        atoms = sorted(atoms, key=str)
        bad = None
        if len(atoms) <= 10:
            for vals in itertools.product((False, True), repeat=len(atoms)):
                env = dict(zip(atoms, vals))
                if _eval_formula(yielded, env) != _eval_formula(want, env):
                    bad = ", ".join("%s=%s" % (_fmt_atom(a_), v) for a_, v in env.items())
                    break
        name = _fmt_desc(d)
        ctx.inst("R11.1", "get_all_exprs:yields-%s-iff-present" % name, bad is None, fs[0][1].get("sp"),
                 "get_all_exprs yields %s under a condition that is not just its own presence (e.g. when %s): an expression that is skipped is never transformed and update_expressions then erases or keeps a stale reference" % (name, bad),
                 sample={"field": name, "sites": len(fs)})
    if sites:
        ctx.floor("R11.1", "element-wise yields of get_all_exprs with a presence condition", len(sites), 3)
    else:
        ctx.not_analysed.append("R11.1: get_all_exprs yields no element by an explicit push (iterator pipeline): the presence conditions are those of the adaptors")


def _fmt_desc(d):
    if d[0] == "payload":
        return _fmt_desc(d[1])
    if d[0] == "field":
        return "%s.%s" % (_fmt_desc(d[1]), d[2])
    if d[0] == "elem":
        return d[1].replace("self.", "") + "[*]"
    return str(d)


def _fmt_atom(a_):
    return ("present(%s)" % _fmt_desc(a_[1])) if a_[0] == "atom" else a_[1]


def run(ctx, for_simplifier=False):
    ctx.rule("R11.1", "every ExprRef-carrying field reachable from TransitionSystem (computed from the type definitions) is read by get_all_exprs and re-pointed by update_expressions from update(its own old value), falling back to its own old value")
    ctx.rule("R11.2", "do_transform passes the unmodified result of get_all_exprs and its mode parameter to do_transform_expr, and the lookup closure uses get_fixed_point exactly under FixedPoint on the same result map")
    ctx.rule("R11.3", "simplify_expressions = do_transform(ctx, sys, FixedPoint, simplify)")
    ctx.rule("R11.4", "replace_anonymous_inputs_with_zero: the retain closure returns false exactly on the branch that records a replacement; the replacement is zero/zero_array of the removed input's own type; substitution runs in SingleStep mode through replace_map.get(expr)")
    c = ctx.facts.lib("patronus")
    if TS not in c.adts:
        ctx.violation("ANCHOR", "missing:" + TS, None, "TransitionSystem type not found")
        return
    car = carriers(c)
    ctx.floor("R11.1", "expression-carrying fields of TransitionSystem", len(car), 7)
    ctx.extra["expression_carrying_fields"] = ["%s[*]%s" % (a, "." + b if b else "") for a, b in sorted(car, key=str)]
    # get_all_exprs ------------------------------------------------------------------------------------
    g = ctx.fn("patronus", TS + "::get_all_exprs")
    read = set()
    for n, parents in walk_parents(g["body"]):
        if n.get("k") == "field":
            fp = field_path(n)
            if fp and fp[0] == "self" and len(fp[2]) == 1:
                read.add((fp[2][0], None))
    # element fields: any `.f` access on a value whose type is the element type
    for n in walk(g["body"]):
        if n.get("k") == "field":
            bt = (n["e"].get("ty") or "").replace("&", "").replace("mut ", "").strip()
            for (coll, ef), kind in car.items():
                if ef == n["name"] and bt in c.adts:
                    elt = None
                    for fl in c.adts[TS]["variants"][0]["fields"]:
                        if fl["name"] == coll:
                            elt = re.match(r"alloc::vec::Vec<(.+)>$", fl["ty"]).group(1)
                    if elt == bt:
                        read.add((coll, ef))
    for key in car:
        ok = (key in read) if key[1] else ((key[0], None) in read)
        ctx.inst("R11.1", "get_all_exprs:%s" % fmt(key), ok, g["span"], "get_all_exprs does not read %s: expressions reachable only from it are never transformed" % fmt(key), sample=fmt(key))
    # an element-wise yield (`out.push(x)`) happens exactly when the yielded field is present: the only condition is the Option elimination of that field itself
    gix = Index(g["body"])
    yields_iff_present(ctx, g, gix)
    # update_expressions ---------------------------------------------------------------------------------
    u = ctx.fn("patronus", TS + "::update_expressions")
    uix = Index(u["body"])
    upd = (param_ids(u) + [None] * 3)[2]            # update_expressions(&mut self, ctx, update)
    udefs = local_defs(u)
    done = {}
    D = iterdesc.Desc(uix, udefs)
    for a in uix.nodes:
        if a.get("k") != "assign":
            continue
        lhs = a["l"]
        d = D.of(lhs)
        alts = list(d[1:]) if d[0] == "oneof" else [d]
        keys = []
        for x in alts:
            if x[0] == "elem" and x[1].startswith("self."):
                keys.append((x[1][5:], None))
            elif x[0] == "field" and x[1][0] == "elem" and x[1][1].startswith("self."):
                keys.append((x[1][1][5:], x[2]))
            else:
                keys = None
                break
        if not keys or not all(k_ in car for k_ in keys) or len({car[k_] for k_ in keys}) != 1:
            continue
        it = norm_it.iter_context(uix, a)
        if it is None or it["kind"] not in ("for", "closure"):
            continue
        _, filtered = D.source(it["src"])
        scope = it["node"]
        ok, why, anchor = repoint_ok(uix, a, lhs, upd, car[keys[0]])
        # the re-pointing statement runs for every element: directly in the body of the element loop / for_each closure
        uncond = (not filtered) and len(uix.regions[id(anchor)]) == len(uix.regions[id(scope)]) + 1 and not any(x.get("k") in ("break", "continue", "return") for x in walk(it["body"]))
        for key in keys:
            if done.get(key) is True:
                continue
            done[key] = ok and uncond
            ctx.inst("R11.1", "update_expressions:%s" % fmt(key), ok and uncond, a["sp"], "%s is re-pointed by `%s`: %s" % (fmt(key), show(a), why if not ok else "assignment is conditional"), sample=show(a))
    for key in car:
        if key not in done:
            ctx.violation("R11.1", "update_expressions:%s" % fmt(key), u["span"], "update_expressions never re-points %s: after a transformation it still refers to the old expression" % fmt(key))
    do_transform(ctx)
    if for_simplifier:
        return          # C01 shares R11.1-R11.3 (system-wide simplification); the rest is C11's own
    anon(ctx)
    # the expression-level rebuild step (expr/transform.rs, anchored by this property too) is a prerequisite
    from . import c01
    from ..tables import T0, T1
    ctx.rule("R01.1", "update_expr_children rebuilds the same operator with the same attributes over the rewritten children in the same positions (shared with C01)")
    t0 = T0(ctx)
    t1 = T1(ctx, t0)
    c01.r011(ctx, t0, t1)
    # "simplifying all expressions of a system yields .. equivalent" functions: the rewrite rules themselves are part of this property;
    # the structural clauses C01 decides about them (casts, dispatcher plumbing, sibling branches, width preservation) are re-evaluated here
    ctx.rule("R01.2", "every narrowing integer cast in expr::simplify is dominated by a range comparison of its source, or its source provably fits (shared with C01)")
    ctx.rule("R01.3", "the rule dispatcher passes attribute fields of the matched node to the like-named parameter of the rule function and the children in slice order (shared with C01)")
    c01.r012(ctx)
    c01.r013(ctx, t0, t1)
    c01.r014(ctx)
    c01.r015(ctx)
    c01.r016(ctx)
    c01.r017(ctx)
    c01.shared_value_ops(ctx)


def fmt(key):
    return "%s[*]%s" % (key[0], "." + key[1] if key[1] else "")


def same_place(a, b):
    return show(peel(a)) == show(peel(b))


def element_source(ix, defs, bid):
    """for a binding that stands for one element of self.<coll> (loop variable of `for x in self.coll.iter_mut()`, parameter of
    `self.coll.iter_mut().for_each(|x| ..)`, possibly through `for list in [&mut self.a, &mut self.b]`): ([coll..], scope node, unconditional)"""
    d = defs.get(bid)
    if d is None:
        return None
    kind, node, pat = d
    if kind == "for":
        it, scope = node["iter"], node
    elif kind == "closure":
        par = ix.parent.get(id(node))
        while par is not None and par.get("k") in ("ref",):
            par = ix.parent.get(id(par))
        if not (par is not None and par.get("k") == "mcall" and par["name"] == "for_each" and peel(par["args"][0]) is node):
            return None
        it, scope = par["recv"], node
    else:
        return None
    b, ms = chain(it)
    if [m[0] for m in ms] not in (["iter_mut"], []):
        return None
    fp = field_path(b)
    if fp and fp[0] == "self" and len(fp[2]) == 1:
        return [fp[2][0]], scope, True
    b = peel(b)
    if b.get("k") == "local" and defs.get(b["id"], ("",))[0] == "for":
        outer = defs[b["id"]][1]
        arr = peel(outer["iter"])
        if arr.get("k") == "array":
            colls = []
            for e in arr["es"]:
                fpe = field_path(e)
                if not (fpe and fpe[0] == "self" and len(fpe[2]) == 1):
                    return None
                colls.append(fpe[2][0])
            inner_uncond = len(ix.regions[id(scope)]) == len(ix.regions[id(outer)]) + 1 and not any(x.get("k") in ("break", "continue", "return") for x in walk(outer["body"]))
            return colls, scope, inner_uncond
    return None


def calls_update(e, upd, arg_ok):
    e = peel(e)
    return e.get("k") == "callv" and is_local(e["f"], upd) and len(e["args"]) == 1 and arg_ok(e["args"][0])


def repoint_ok(ix, a, lhs, upd, kind):
    """(ok, why, statement that must be unconditional)"""
    r = strip_try(a["r"])
    base, ms = chain(r)
    names = [m[0] for m in ms]
    here = lambda x: same_place(x, lhs)
    if kind == "plain":
        # update(P).unwrap_or(P)
        if base.get("k") == "callv" and is_local(base["f"], upd) and names == ["unwrap_or"]:
            if same_place(base["args"][0], lhs) and same_place(ms[0][1][0], lhs):
                return True, "", a
            return False, "argument or fallback is not the field's own old value", a
        # if let Some(new) = update(P) { P = new }   /   match update(P) { Some(new) => P = new, None => {} }
        if peel(r).get("k") == "local":
            for anc in ix.ancestors(a):
                if anc.get("k") not in ("if", "match"):
                    continue
                oe = norm.opt_elim(anc) if anc.get("k") == "match" or "else" in anc else None
                if anc.get("k") == "if" and "else" not in anc and peel(anc["cond"]).get("k") == "letexpr":
                    c_ = peel(anc["cond"])
                    pat = c_["pat"]
                    if pat.get("k") == "pvariant" and pat["path"].endswith("Option::Some") and len(pat["subs"]) == 1:
                        b_ = pat_bindings(pat["subs"][0])
                        oe = {"scrut": c_["init"], "bind": b_[0][1] if len(b_) == 1 else None, "some": anc["then"], "none": None}
                if oe and oe["bind"] is not None and is_local(r, oe["bind"]) and contains(oe["some"], a):
                    if not calls_update(oe["scrut"], upd, here):
                        return False, "the new value does not come from update(the field's own old value)", anc
                    if oe["none"] is not None and any(x.get("k") in ("assign", "assignop") for x in walk(oe["none"])):
                        return False, "the None branch assigns as well", anc
                    # the assignment is the only thing between the test and the store: directly in the Some branch
                    if len(ix.regions[id(a)]) != len(ix.regions[id(anc)]) + 1:
                        return False, "the store is conditional inside the Some branch", anc
                    return True, "", anc
        return False, "not of the form update(old).unwrap_or(old)", a
    # option: P.and_then(update)  /  P.map(|e| update(e).unwrap_or(e))  /  match P { Some(x) => update(x), None => None }
    if same_place(base, lhs) and names == ["and_then"]:
        f = resolve(ms[0][1][0])
        if f.get("k") == "local" and is_local(f, upd):
            return True, "", a
        if f.get("k") == "closure":
            return any(x.get("k") == "callv" and is_local(x["f"], upd) for x in walk(f)), "closure does not call update", a
    if same_place(base, lhs) and names == ["map"]:
        f = resolve(ms[0][1][0])
        if f.get("k") == "closure" and len(f["params"]) == 1:
            pb = binding_of_pat(f["params"][0])
            b2, ms2 = chain(peel_block(f["body"]))
            if b2.get("k") == "callv" and is_local(b2["f"], upd) and pb and is_local(b2["args"][0], pb[1]) and [m[0] for m in ms2] == ["unwrap_or"] and is_local(ms2[0][1][0], pb[1]):
                return True, "", a
    oe = norm.opt_elim(r)
    if oe and oe["bind"] is not None and oe["some"] is not None and same_place(oe["scrut"], lhs):
        none = tail_value(oe["none"])
        if calls_update(tail_value(oe["some"]), upd, lambda x: is_local(x, oe["bind"])) and (callee(none) or none.get("path", "")).endswith("Option::None"):
            return True, "", a
    return False, "not of the form old.and_then(update)", a


def do_transform(ctx):
    f = ctx.fn("patronus", DO_TRANSFORM)
    ix = Index(f["body"])
    defs = local_defs(f)
    P = {name: i for p in f["params"] for name, i in pat_bindings(p)}
    calls = [n for n in ix.nodes if n.get("k") == "call" and callee(n) == DO_TRANSFORM_EXPR]
    ok = len(calls) == 1
    why = "expected one do_transform_expr call"
    tmap = None
    if ok:
        a = calls[0]["args"]
        todo = peel(a[3])
        tmap = local_id(a[2])
        ok = is_local(a[1], P.get("mode")) and is_local(a[4], P.get("tran")) and is_local(a[0], P.get("ctx"))
        why = "mode / tran / ctx are not forwarded"
        if ok:
            src = todo
            uses = 1
            if todo.get("k") == "local":
                src = simple_let_init(defs, todo["id"])
                uses = len([x for x in ix.nodes if x.get("k") == "local" and x["id"] == todo["id"]])
            src = strip_try(src) if src is not None else {}
            ok = src.get("k") == "mcall" and src["name"] == "get_all_exprs" and is_local(src["recv"], P.get("sys")) and uses == 1
            why = "the root list passed to do_transform_expr is not the unmodified sys.get_all_exprs() (%s, %d uses of the list)" % (show(src)[:80], uses)
    ctx.inst("R11.2", "do_transform:roots-and-mode", ok, f["span"], why, sample=show(calls[0])[:160] if calls else None)
    # lookup closure: for every mode exactly one update_expressions call is reached, and its lookup is get_fixed_point(map, old) under FixedPoint, map[old] otherwise
    ups = [n for n in ix.nodes if n.get("k") == "mcall" and n["name"] == "update_expressions"]
    variants = ctx.facts.lib("patronus").adts.get(MODE[:-2], {}).get("variants", [])
    vnames = [v["name"] for v in variants]
    ok = bool(ups) and bool(vnames) and all(is_local(u["recv"], P.get("sys")) and calls and ix.precedes(calls[0], u) for u in ups)
    why = "update_expressions must be called on sys after the rewriting"

    def mode_holds(cnd, pol, v):
        """True / False when the condition decides whether mode == v, None when it does not talk about the mode"""
        if cnd.get("k") == "armpat" and is_local(cnd["scrut"], P.get("mode")):
            alts = []
            for alt in pat_alts(cnd["pat"]):
                while alt.get("k") in ("pref", "pderef"):
                    alt = alt["pat"]
                if alt.get("k") in ("pwild", "pbind"):
                    return pol
                alts.append((alt.get("path") or "").split("::")[-1])
            return (v in alts) == pol
        if is_eq_test(cnd, P.get("mode"), MODE[:-2] + "::" + v):
            return pol
        for w in vnames:
            if w != v and is_eq_test(cnd, P.get("mode"), MODE[:-2] + "::" + w):
                return (not pol)
        return None
    if ok:
        for v in vnames:
            reached = []
            for u in ups:
                conds = norm.path_conditions(ix, u, arms=True)
                if all(mode_holds(c_, pol, v) is not False for c_, pol in conds):
                    reached.append(u)
            if len(reached) != 1:
                ok, why = False, "in mode %s, %d update_expressions calls are reached (expected exactly one)" % (v, len(reached))
                break
            cl = resolve(reached[0]["args"][-1])
            if not (cl.get("k") == "closure" and len(cl["params"]) == 1):
                ok, why = False, "lookup is not a closure"
                break
            pb = binding_of_pat(cl["params"][0])
            disp = norm.enum_dispatch(cl["body"], P.get("mode"), MODE)
            body = cl["body"]
            if disp is not None:
                body = disp.get(v, disp.get("other"))
            t = tail_value(body) if body is not None else {}
            if disp is None and t.get("k") not in ("call", "index"):
                # the closure decides by early return / on a flag computed from the mode: the exit that is taken in mode v
                leaves = []
                exits = [(x["e"], x) for x in walk(cl["body"]) if x.get("k") == "return" and "e" in x] + [(cl["body"], None)]
                for e_, node_ in exits:
                    pre = norm.path_conditions(ix, node_, upto=cl, arms=True) if node_ is not None else []
                    for cs_, lf in norm.result_table(ix, e_, unwrap=()):
                        leaves.append((pre + cs_, lf))

                def holds(c_, pol, depth=0):
                    m_ = mode_holds(c_, pol, v)
                    if m_ is not None:
                        return m_
                    c0 = peel(c_) if c_.get("k") not in ("armpat", "letexpr") else c_
                    if c0.get("k") == "unary" and c0.get("op") == "!":
                        h_ = holds(c0["e"], not pol, depth + 1)
                        return h_
                    if c0.get("k") in ("local", "match", "if", "blockexpr") and depth < 3:
                        for acs, av in norm.value_alternatives(c0):
                            av = peel(av)
                            if av.get("k") == "lit" and isinstance(av.get("v"), bool) and acs and all(holds(a_, p_, depth + 1) is True for a_, p_ in acs):
                                return av["v"] == pol
                    return None
                taken = [lf for cs_, lf in leaves if all(holds(c_, pol) is True for c_, pol in cs_)]
                undecided = [lf for cs_, lf in leaves if any(holds(c_, pol) is None for c_, pol in cs_)]
                if len(taken) == 1 and not undecided:
                    t = tail_value(taken[0])
            if v == "FixedPoint":
                good = t.get("k") == "call" and callee(t) == GET_FIXED_POINT and is_local(t["args"][0], tmap) and pb is not None and is_local(t["args"][1], pb[1])
            else:
                good = t.get("k") == "index" and is_local(t["e"], tmap) and pb is not None and is_local(t["i"], pb[1])
            if not good:
                ok, why = False, "lookup in mode %s: %s" % (v, show(t)[:160])
                break
    ctx.inst("R11.2", "do_transform:lookup", bool(ok), f["span"], why)
    # R11.3
    g = ctx.fn("patronus", "patronus::system::transform::simplify_expressions")
    calls = [n for n in walk(g["body"]) if n.get("k") == "call" and callee(n) == DO_TRANSFORM]
    ok = len(calls) == 1
    if ok:
        a = calls[0]["args"]
        m, t = peel(a[2]), peel(a[3])
        ok = m.get("k") == "def" and m.get("path") == MODE + "FixedPoint" and t.get("k") == "def" and t.get("path") == SIMPLIFY
    ctx.inst("R11.3", "simplify_expressions", ok, g["span"], "simplify_expressions must be do_transform(ctx, sys, ExprTransformMode::FixedPoint, simplify): %s" % show(g["body"])[:160], sample=show(g["body"])[:160])


def anon(ctx):
    f = ctx.fn("patronus", "patronus::system::transform::replace_anonymous_inputs_with_zero")
    ix = Index(f["body"])
    defs = local_defs(f)
    pid = param_ids(f) + [None, None]
    p_sys = pid[1]                                 # replace_anonymous_inputs_with_zero(ctx, sys)
    inserts_all = [n for n in ix.nodes if n.get("k") == "mcall" and n["name"] == "insert" and "HashMap" in (n.get("path") or "")]
    rets = [n for n in ix.nodes if n.get("k") == "mcall" and n["name"] == "retain"]
    form = None
    if len(rets) == 1:
        # form 1: sys.inputs.retain(|&input| ..): an input is kept iff the closure returns true
        r = rets[0]
        fp = field_path(r["recv"])
        ctx.inst("R11.4", "anon:retain-on-inputs", fp is not None and fp[1] == p_sys and fp[2] == ["inputs"], r["sp"], "retain must run on sys.inputs")
        cl = resolve(r["args"][0])
        if cl.get("k") == "closure":
            pb = None
            for name, i in pat_bindings(cl["params"][0]):
                pb = (name, i)
            inserts = [n for n in walk(cl["body"]) if any(n is x for x in inserts_all)]
            paths = [(v if isinstance(v, bool) else None, ins_) for v, ins_, st in path_effects(cl["body"], inserts, []) if st in ("value", "return")]
            form, removal, body_sp = "retain", r, cl["sp"]
            t_ = tail_value(cl["body"])
            if not inserts and t_.get("k") == "unary" and t_["op"] == "!" and peel(t_["e"]).get("k") == "mcall" and peel(t_["e"])["name"] == "contains_key" \
                    and pb and is_local(peel(t_["e"])["args"][0], pb[1]) and local_id(peel(t_["e"])["recv"]) is not None:
                # form 3: the replacements are recorded first (a loop over sys.inputs filling a fresh map), then `retain(|x| !map.contains_key(x))`
                mid = local_id(peel(t_["e"])["recv"])
                init = simple_let_init(defs, mid)
                fresh = init is not None and ((callee(peel(init)) or "").endswith(("::default", "::new")))
                ins3 = [n for n in inserts_all if is_local(n["recv"], mid)]
                loops3 = [l for l in ix.nodes if l.get("k") == "for" and field_path(chain(l["iter"])[0]) and field_path(chain(l["iter"])[0])[1] == p_sys and field_path(chain(l["iter"])[0])[2] == ["inputs"]]
                good = fresh and len(ins3) == 1 and len(loops3) == 1 and contains(loops3[0]["body"], ins3[0]) and ix.precedes(loops3[0], r)
                if good:
                    lb = pat_bindings(loops3[0]["pat"])
                    good = len(lb) == 1 and is_local(ins3[0]["args"][0], lb[0][1])
                if good:
                    inserts = ins3
                    pb = lb[0]
                    # kept iff not in the map; in the map iff the recording loop inserted it
                    paths = [(False, True), (True, False)]
                    form = "record-then-retain"
    elif not rets:
        # form 2: a loop over sys.inputs that pushes the kept inputs onto a new list which then replaces sys.inputs
        stores = [a for a in ix.nodes if a.get("k") == "assign" and field_path(a["l"]) and field_path(a["l"])[1] == p_sys and field_path(a["l"])[2] == ["inputs"] and peel(a["r"]).get("k") == "local"]
        loops = [l for l in ix.nodes if l.get("k") == "for" and field_path(chain(l["iter"])[0]) and field_path(chain(l["iter"])[0])[1] == p_sys and field_path(chain(l["iter"])[0])[2] == ["inputs"]
                 and [m[0] for m in chain(l["iter"])[1]] in (["iter"], ["iter", "copied"], ["iter", "cloned"], ["clone", "into_iter"], ["clone"])]
        if len(stores) == 1 and len(loops) == 1 and ix.precedes(loops[0], stores[0]):
            lp, newlist = loops[0], local_id(stores[0]["r"])
            pbs = pat_bindings(lp["pat"])
            pb = pbs[0] if len(pbs) == 1 else None
            pushes = [n for n in walk(lp["body"]) if n.get("k") == "mcall" and n["name"] == "push" and is_local(n["recv"], newlist) and pb and is_local(n["args"][0], pb[1])]
            other_mut = [n for n in ix.nodes if n.get("k") == "mcall" and is_local(n["recv"], newlist) and n["name"] not in ("push", "len", "is_empty") ]
            inserts = [n for n in walk(lp["body"]) if any(n is x for x in inserts_all)]
            eff = path_effects(lp["body"], inserts, pushes)
            paths = [(bool(pu) if not other_mut else None, ins_) for pu, ins_, st in eff if st in ("value", "continue")]
            if any(st in ("return", "break") for _, _, st in eff):
                paths.append((None, False))
            form, removal, body_sp = "rebuild", stores[0], lp["sp"]
    if form is None:
        ctx.violation("R11.4", "anon:retain", f["span"], "UNRECOGNISED: expected sys.inputs.retain(..) or a loop over sys.inputs that rebuilds the list")
        return
    map_id = local_id(inserts[0]["recv"]) if inserts else None
    # every path: the input is dropped iff the path passed an insert(input, ..)
    bad = [p for p in paths if p[0] is None or (p[0] is False) != p[1]]
    ctx.inst("R11.4", "anon:retain-iff-recorded", len(inserts) == 1 and not bad and len(paths) >= 2, body_sp,
             "an input must be removed exactly on the path that inserts into the replacement map (paths as (kept, recorded): %s): an input removed without a replacement stays free in the expressions, one replaced but kept still constrains nothing" % paths,
             sample={"form": form, "paths(kept, recorded)": paths})
    if inserts:
        ins = inserts[0]
        okk = is_local(ins["args"][0], pb[1]) if pb else False
        ri = tail_value(resolve(ins["args"][1]))
        okz = False
        why = "replacement is not a match on the input's type"
        if ri.get("k") == "match":
            m = ri
            sc = strip_try(resolve(m["scrut"]))
            okz = sc.get("k") == "mcall" and sc["name"] == "get_type" and pb is not None and is_local(sc["recv"], pb[1])
            for arm in m["arms"]:
                vb = [i for _, i in pat_bindings(arm["pat"])]
                b = peel(peel_block(arm["body"]))
                want = "zero" if arm["pat"].get("path", "").endswith("Type::BV") else "zero_array"
                if not (b.get("k") == "mcall" and b["name"] == want and (callee(b) or "").startswith("patronus::expr::context::Context::") and len(vb) == 1 and is_local(b["args"][0], vb[0])):
                    okz = False
                    why = "arm `%s` builds `%s`" % (show_pat(arm["pat"]), show(b))
        ctx.inst("R11.4", "anon:replacement-zero-of-own-type", okk and okz, ins["sp"], "the replacement recorded for a removed input must be zero(width)/zero_array(type) of that input's own type, keyed by the input: %s" % why, sample=show(ins))
    calls = [n for n in ix.nodes if n.get("k") == "call" and callee(n) == DO_TRANSFORM]
    ok = len(calls) == 1 and ix.precedes(removal, calls[0])
    if ok:
        a = calls[0]["args"]
        m = peel(a[2])
        cl2 = resolve(a[3])
        ok = m.get("k") == "def" and m.get("path") == MODE + "SingleStep" and cl2.get("k") == "closure"
        if ok:
            ps = [binding_of_pat(p) for p in cl2["params"]]
            b, ms = chain(peel_block(cl2["body"]))
            ok = is_local(b, map_id) and [x[0] for x in ms] in (["get", "cloned"], ["get", "copied"]) and ps[1] and is_local(ms[0][1][0], ps[1][1])
    ctx.inst("R11.4", "anon:substitution", ok, f["span"], "the substitution must run after the removal as do_transform(.., SingleStep, |_, expr, _| replace_map.get(&expr).cloned())")


def path_effects(n, inserts, pushes, ins=False, pu=False):
    """paths through a closure / loop body: [(value literal or 'pushed' flag, passed an insert, status)] with status value|continue|return|break"""
    def has(x, marks):
        return any(any(y is m for m in marks) for y in walk(x))

    def stmts_paths(stmts, tail, ins, pu):
        states = [(ins, pu)]
        out = []
        for s_ in stmts:
            nxt = []
            for (i_, p_) in states:
                for v, i2, p2, st in expr_paths(s_, i_, p_):
                    if st == "value":
                        nxt.append((i2, p2))
                    else:
                        out.append((v, i2, p2, st))
            states = nxt
        for (i_, p_) in states:
            if tail is not None:
                out += expr_paths(tail, i_, p_)
            else:
                out.append((None, i_, p_, "value"))
        return out

    def expr_paths(e, ins, pu):
        k = e.get("k")
        if k in ("semi",):
            return [(v if st == "return" else None, i2, p2, st) for v, i2, p2, st in expr_paths(e["e"], ins, pu)]
        if k == "blockexpr":
            return stmts_paths(e["b"]["stmts"], e["b"].get("tail"), ins, pu)
        if k == "block":
            return stmts_paths(e["stmts"], e.get("tail"), ins, pu)
        if k == "if":
            i0, p0 = ins or has(e["cond"], inserts), pu or has(e["cond"], pushes)
            out = expr_paths(e["then"], i0, p0)
            out += expr_paths(e["else"], i0, p0) if "else" in e else [(None, i0, p0, "value")]
            return out
        if k == "match":
            i0, p0 = ins or has(e["scrut"], inserts), pu or has(e["scrut"], pushes)
            out = []
            for a in e["arms"]:
                out += expr_paths(a["body"], i0, p0)
            return out
        if k == "continue":
            return [(None, ins, pu, "continue")]
        if k == "break":
            return [(None, ins, pu, "break")]
        if k == "return" and not e.get("inl"):
            v = peel(e["e"]).get("v") if "e" in e and peel(e["e"]).get("k") == "lit" else None
            return [(v, ins, pu, "return")]
        if k == "lit" and isinstance(e.get("v"), bool):
            return [(e["v"], ins, pu, "value")]
        if k == "let" and "els" in e:
            i0, p0 = ins or has(e.get("init", {}), inserts), pu or has(e.get("init", {}), pushes)
            return expr_paths(e["els"], i0, p0) + [(None, i0, p0, "value")]
        return [(None, ins or has(e, inserts), pu or has(e, pushes), "value")]
    res = expr_paths(n, ins, pu)
    if pushes:
        return [(p2, i2, st) for v, i2, p2, st in res]
    return [(v, i2, st) for v, i2, p2, st in res]


def bool_paths(n, inserts, seen=False):
    """[(returned bool literal or None, passed an insert)] over paths of a closure body"""
    n = peel_block(n) if n.get("k") == "blockexpr" and not n["b"]["stmts"] else n
    k = n.get("k")
    if k == "blockexpr":
        st = n["b"]["stmts"]
        s2 = seen or any(any(x is i for i in inserts) for s_ in st for x in walk(s_))
        if "tail" in n["b"]:
            return bool_paths(n["b"]["tail"], inserts, s2)
        return [(None, s2)]
    if k == "if":
        out = bool_paths(n["then"], inserts, seen)
        out += bool_paths(n["else"], inserts, seen) if "else" in n else [(None, seen)]
        return out
    if k == "match":
        out = []
        for a in n["arms"]:
            out += bool_paths(a["body"], inserts, seen)
        return out
    if k == "lit" and isinstance(n.get("v"), bool):
        return [(n["v"], seen)]
    return [(None, seen)]
