"""C13 - repeatability preconditions of the simplifier: no hidden state, fixed-point plumbing, cache containers."""
from ..tree import *
from .. import norm
from .. import norm as psanorm
from ..norm import tail_value  # noqa
from ..flow import Index
from .. import callgraph
from .c02 import binding_of_pat

SIMPLIFY = "patronus::expr::simplify::simplify"
SIMPLIFIER_SIMPLIFY = "patronus::expr::simplify::Simplifier::simplify"
DO_TRANSFORM_EXPR = "patronus::expr::transform::do_transform_expr"
GET_FIXED_POINT = "patronus::expr::meta::get_fixed_point"
MODE = "patronus::expr::transform::ExprTransformMode::"

EXPLANATION = ("Static analysis of the simplifier's repeatability preconditions (rustc HIR facts, call graph): nothing reachable from expr::simplify::simplify reads or writes global/ambient state "
               "(statics, thread-locals, RNG, clock, environment, I/O), so with canonical references (C12) a rule's result is a function of the node; Simplifier::simplify and do_transform_expr run in FixedPoint "
               "mode, read every cached result through get_fixed_point, re-queue rewritten nodes, and write the cache at one site; get_fixed_point's path compression writes only the chain's end point; both cache "
               "containers return the default only on a miss and hand out mutable references into their storage. Termination and idempotence of the rule set itself are NOT decided.")
ASSUMPTIONS = ["expression references are canonical (C12)", "termination of the rewrite system is not decided by this check", "hash-map iteration order is not used to choose results (no iteration over the cache in the simplification path)"]
LEVEL_TEXT = ("Static effect/provenance analysis: decides the structural preconditions of 'same input, same reference' (no ambient state, results always read through the fixed-point lookup, single cache-write site, "
              "containers that never lose a store) for every order of use of one simplifier instance. Termination (possible ping-pong between rules) has no static argument in reach and is explicitly excluded.")
LEVEL_NOTE = "Preconditions only: termination and idempotence of the rule set are outside this technique."
TECHNIQUE = "call-graph reachability + effect deny-list, def-use provenance of cache reads/writes on rustc HIR facts"

AMBIENT_PREFIXES = ("std::time::", "std::env::", "std::fs::", "std::io::", "std::thread::", "std::process::", "rand::", "rand_core::", "std::sync::", "std::cell::", "core::cell::",
                    "std::net::", "core::sync::atomic", "std::collections::hash::map::RandomState", "std::hash::random")


def run(ctx):
    ctx.rule("R13.1", "no function reachable from expr::simplify::simplify touches a static, thread-local, RNG, clock, environment, file/IO, or interior-mutable global")
    ctx.rule("R13.2", "Simplifier::simplify runs do_transform_expr in FixedPoint mode on its own cache and returns only get_fixed_point(cache, e); do_transform_expr reads children through get_fixed_point in FixedPoint mode, re-queues a rewritten node unless it already has an entry, and writes the cache at exactly one site; get_fixed_point writes only the chain's end point")
    ctx.rule("R13.3", "both ExprMap containers return &self.default only on a miss in index and return a reference into their storage from index_mut")
    ambient(ctx)
    plumbing(ctx)
    containers(ctx)


def ambient(ctx):
    g, fns = callgraph.build(ctx.facts, {"patronus"})
    reach = callgraph.reachable(g, [SIMPLIFY])
    local = [p for p in reach if p in fns]
    ctx.floor("R13.1", "functions reachable from simplify", len(local), 25)
    ctx.extra["reachable_from_simplify"] = len(local)
    bad = 0
    for p in sorted(local):
        f = fns[p]
        hits = []
        for n in walk(f["body"]):
            if n.get("k") == "def" and n.get("dk") == "static":
                hits.append("static %s" % n["path"])
            c = callee(n) or ""
            if c.startswith(AMBIENT_PREFIXES) or (n.get("path") or "").startswith(AMBIENT_PREFIXES):
                hits.append("call %s" % c)
            if in_macro(n, "println") or in_macro(n, "print") or in_macro(n, "eprintln") or in_macro(n, "thread_local"):
                hits.append("macro %s" % mac_names(n)[-1])
        # RefCell inside Builder is a borrow-checker workaround over &mut Context, not ambient state
        hits = [h for h in hits if not (h.startswith("call core::cell::RefCell") or h.startswith("call std::cell::RefCell")) or "context::Builder" not in p and "Context::build" not in p]
        ctx.inst("R13.1", "reach:%s" % p, not hits, f["span"], "%s (reachable from simplify) touches ambient state: %s" % (p, sorted(set(hits))[:4]), nontrivial=True)


def plumbing(ctx):
    f = ctx.fn("patronus", SIMPLIFIER_SIMPLIFY)
    ix = Index(f["body"])
    P = {name: i for p in f["params"] for name, i in pat_bindings(p)}
    calls = [n for n in ix.nodes if n.get("k") == "call" and callee(n) == DO_TRANSFORM_EXPR]
    ok = len(calls) == 1
    if ok:
        a = calls[0]["args"]
        m = peel(psanorm.resolve(a[1]))
        cache = field_path(psanorm.resolve(a[2]))       # `let cache = &mut self.cache;`
        roots = peel(psanorm.resolve(a[3]))
        tr = peel(psanorm.resolve(a[4]))
        root_locals = [x for x in walk(roots) if x.get("k") == "local"]
        ok = m.get("k") == "def" and m.get("path") == MODE + "FixedPoint" and cache is not None and cache[0] == "self" and cache[2] == ["cache"] \
            and len(root_locals) == 1 and root_locals[0]["id"] == P.get("e") and tr.get("k") == "def" and tr.get("path") == SIMPLIFY
    ctx.inst("R13.2", "Simplifier::simplify:transform-call", ok, f["span"], "Simplifier::simplify must call do_transform_expr(ctx, FixedPoint, &mut self.cache, vec![e], simplify): %s" % (show(calls[0])[:200] if calls else "no call"), sample=show(calls[0])[:200] if calls else None)
    # every returned value is get_fixed_point(&mut self.cache, e)
    rets = [n["e"] for n in ix.nodes if n.get("k") == "return" and "e" in n] + [stmts_of(f["body"])[-1]]
    for i, r in enumerate(rets):
        b, ms = chain(r)
        b = peel(psanorm.resolve(b))       # `let simplified = get_fixed_point(..); simplified.unwrap()`
        okr = b.get("k") == "call" and callee(b) == GET_FIXED_POINT and field_path(psanorm.resolve(b["args"][0])) and field_path(psanorm.resolve(b["args"][0]))[2] == ["cache"] and is_local(b["args"][1], P.get("e")) \
            and [m[0] for m in ms] in (["unwrap"], ["expect"]) and (not calls or ix.precedes(calls[0], b))
        ctx.inst("R13.2", "Simplifier::simplify:result#%d" % (i + 1), okr, r.get("sp"),
                 "Simplifier::simplify returns `%s`: a result that is not read through get_fixed_point after the transformation can be an intermediate (not fully simplified) node, so the answer depends on what was simplified before" % show(r)[:160], sample=show(r)[:160])
    # do_transform_expr
    d = ctx.fn("patronus", DO_TRANSFORM_EXPR)
    dix = Index(d["body"])
    ddefs = local_defs(d)
    pids = param_ids(d) + [None] * 5
    mode, tmap, todo = pids[1], pids[2], pids[3]     # do_transform_expr(ctx, mode, transformed, todo, tran)
    # cache writes
    writes = [n for n in dix.nodes if n.get("k") == "assign" and peel(n["l"]).get("k") == "index" and is_local(peel(n["l"])["e"], tmap)]
    okw = len(writes) == 1
    if okw:
        w = writes[0]
        r = peel(w["r"])
        okw = r.get("k") == "ctor" and callee(r).endswith("Option::Some")
        loop = dix.enclosing(w, ("while", "loop"))
        popped = None
        if loop is not None and loop.get("k") == "while":
            c = peel(loop["cond"])
            if c.get("k") == "letexpr":
                b, ms = chain(c["init"])
                if is_local(b, todo) and [m[0] for m in ms] == ["pop"]:
                    popped = binding_of_pat(c["pat"]["subs"][0])
        okw = okw and popped is not None and is_local(peel(w["l"])["i"], popped[1])
    ctx.inst("R13.2", "do_transform_expr:single-cache-write", okw, d["span"], "the result cache must be written at exactly one site, `transformed[popped] = Some(result)` (found %d writes: %s)" % (len(writes), [show(w)[:80] for w in writes]), sample=[show(w) for w in writes])
    other_mut = [n for n in dix.nodes if n.get("k") == "mcall" and is_local(n["recv"], tmap) and n["name"] not in ("index", "iter", "non_default_value_keys")]
    ctx.inst("R13.2", "do_transform_expr:no-other-cache-mutation", not other_mut, d["span"], "the result cache is modified through %s" % [show(n)[:60] for n in other_mut])
    # child lookup through get_fixed_point in FixedPoint mode
    gfp = [n for n in dix.nodes if n.get("k") == "call" and callee(n) == GET_FIXED_POINT]
    okc = False
    for n in gfp:
        if norm.enum_guarded(dix, n, mode, "ExprTransformMode::FixedPoint") and is_local(n["args"][0], tmap):
            okc = True
    ctx.inst("R13.2", "do_transform_expr:children-through-fixed-point", okc, d["span"], "in FixedPoint mode the children of a node must be looked up with get_fixed_point(transformed, child)")
    # re-queue
    pushes = [n for n in dix.nodes if n.get("k") == "mcall" and n["name"] == "push" and is_local(n["recv"], todo)]
    okq = False
    shown = []
    for pu in pushes:
        a = peel(pu["args"][0])
        if a.get("k") != "local" or not writes:
            continue
        wr = peel(writes[0]["r"])
        if not (wr.get("k") == "ctor" and is_local(wr["args"][0], a["id"])):
            continue
        # guard conjuncts
        ifs = [x for x in dix.ancestors(pu) if x.get("k") == "if" and contains(x["then"], pu)]
        conj = []
        for x in ifs:
            conj += conjuncts(x["cond"])
        shown = [show(c)[:60] for c in conj]
        n_mode = n_fix = n_none = 0
        extra = 0
        for c in conj:
            s_ = show(c)
            if is_eq_test(c, mode, "ExprTransformMode::FixedPoint"):
                n_mode += 1
            elif c.get("k") == "mcall" and c["name"] == "is_none" and peel(c["recv"]).get("k") == "index" and is_local(peel(c["recv"])["e"], tmap) and is_local(peel(c["recv"])["i"], a["id"]):
                n_none += 1
            elif fixed_point_test(c, ddefs, a["id"]):
                n_fix += 1
            else:
                extra += 1
        okq = n_mode == 1 and n_fix == 1 and n_none <= 1 and extra == 0 and dix.precedes(writes[0], pu)
    ctx.inst("R13.2", "do_transform_expr:requeue", okq, d["span"],
             "in FixedPoint mode a rewritten node (result != node) must be pushed back onto the work list after its result was cached, unless it already has an entry; guards found: %s" % shown, sample=shown)
    # get_fixed_point compression
    g = ctx.fn("patronus", GET_FIXED_POINT)
    gix = Index(g["body"])
    gdefs = local_defs(g)
    gm = (param_ids(g) + [None])[0]        # get_fixed_point(m, key)
    ws = [n for n in gix.nodes if n.get("k") == "assign" and peel(n["l"]).get("k") == "index" and is_local(peel(n["l"])["e"], gm)]
    okg = len(ws) >= 1
    assigns = [n for n in gix.nodes if n.get("k") in ("assign", "assignop") and peel(n["l"]).get("k") == "local"]
    for w in ws:
        r = peel(w["r"])
        v = peel(r["args"][0]) if r.get("k") == "ctor" and r.get("args") else {}
        init = simple_let_init(gdefs, v["id"]) if v.get("k") == "local" else None
        chase = [l for l in gix.nodes if l.get("k") in ("while", "loop") and gix.precedes(l, w) and not contains(l, w)]
        noop = False
        if init is not None:
            i2 = strip_try(init)
            # re-storing the value that is already there (m[x] = Some(m[x]?)) is a no-op
            noop = i2.get("k") == "index" and is_local(i2["e"], gm) and local_id(i2["i"]) is not None and local_id(i2["i"]) == local_id(peel(w["l"])["i"])
        endpoint = False
        if v.get("k") == "local" and chase:
            # the stored local is the chase variable (or an immutable copy taken after the chase loop) and is not assigned between the chase loop and its use
            if init is not None and peel(init).get("k") == "local" and gdefs.get(v["id"], ("",))[0] == "let" and not gdefs[v["id"]][2].get("mut"):
                root, use, wloop = peel(init)["id"], gdefs[v["id"]][1], None
            else:
                root, use, wloop = v["id"], w, gix.enclosing(w, ("while", "loop", "for"))
            for l in chase:
                if not any(contains(l, a) and peel(a["l"])["id"] == root for a in assigns):
                    continue
                if not gix.precedes(l, use):
                    continue
                later = [a for a in assigns if peel(a["l"])["id"] == root and gix.precedes(l, a) and not contains(l, a) and (gix.precedes(a, use) or (wloop is not None and contains(wloop, a)))]
                if not later:
                    endpoint = True
        if not (noop or endpoint) and v.get("k") == "local":
            # the stored value comes out of a chase that ends on the fixed-point test itself: every value it can be is a local x that left
            # the chase under `m[x] == x` (e.g. `loop { let next = m[cur]?; if next == cur { return Some(cur) } cur = next }` in an inlined helper)
            src = psanorm.value_source(gix, gdefs, v) if hasattr(psanorm, "value_source") else v
            leaves = []
            for cs_, lf in psanorm.result_table(gix, v):
                l0 = peel(lf)
                if (l0.get("k") == "def" and (l0.get("path") or "").endswith("Option::None")) or (l0.get("k") == "ctor" and callee(l0).endswith("Result::Err")):
                    continue          # the failure exits of the chase leave through `?`: no value is stored on them
                leaves.append((cs_, lf))
            ok_all = bool(leaves)
            for cs_, lf in leaves:
                lf0 = peel(lf)
                if lf0.get("k") != "local":
                    ok_all = False
                    break
                site = lf
                conds = list(cs_) + list(psanorm.path_conditions(gix, site))
                good = False
                for c_, pol in conds:
                    if pol and c_.get("k") == "binary" and c_["op"] == "==":
                        for x, y in ((c_["l"], c_["r"]), (c_["r"], c_["l"])):
                            if local_id(x) is not None and local_id(x) == local_id(lf0):
                                yi = strip_try(resolve(peel(y)))
                                if yi.get("k") == "local":
                                    ini = LET_INITS.get(yi["id"]) or LET_INITS.get(canon(yi["id"]))
                                    yi = strip_try(peel(ini)) if ini is not None else yi
                                if yi.get("k") == "index" and is_local(yi["e"], gm) and local_id(yi["i"]) is not None and local_id(yi["i"]) == local_id(lf0):
                                    good = True
                if not good:
                    ok_all = False
            endpoint = ok_all
        okg = okg and (noop or endpoint)
    ctx.inst("R13.2", "get_fixed_point:compression-writes-end-point", okg, g["span"], "path compression may only store the end point of the chain (the value reached by the chase loop): %s" % [show(w) for w in ws], sample=[show(w) for w in ws])
    rets = [n["e"] for n in gix.nodes if n.get("k") == "return" and "e" in n] + [stmts_of(g["body"])[-1]]
    ctx.inst("R13.2", "get_fixed_point:returns", all(peel(r).get("k") == "ctor" or (peel(r).get("k") == "def" and (peel(r).get("path") or "").endswith("Option::None")) for r in rets), g["span"], "get_fixed_point must return Some(end point)", nontrivial=False)


def fixed_point_test(c, defs, new_id):
    """`!is_at_fixed_point` with is_at_fixed_point = (expr_ref == new_expr_ref), or `expr_ref != new`"""
    c = peel(c)
    neg = False
    if c.get("k") == "unary" and c["op"] == "!":
        neg, c = True, peel(c["e"])
    if c.get("k") == "local":
        init = simple_let_init(defs, c["id"])
        if init is None:
            return False
        c = peel(init)
    if c.get("k") == "binary" and c["op"] in ("==", "!="):
        ids = {local_id(c["l"]), local_id(c["r"])}
        if new_id in ids and None not in ids:
            return (c["op"] == "==") == neg
    return False


def containers(ctx):
    c = ctx.facts.lib("patronus")
    for ty in ("SparseExprMap", "DenseExprMetaData"):
        idx = [p for p in c.fns if p.startswith("<patronus::expr::meta::%s<T> as core::ops::index::Index<" % ty) and p.endswith("::index")]
        idm = [p for p in c.fns if p.startswith("<patronus::expr::meta::%s<T> as core::ops::index::IndexMut<" % ty) and p.endswith("::index_mut")]
        if len(idx) != 1 or len(idm) != 1:
            ctx.violation("R13.3", "%s:impls" % ty, None, "expected one Index and one IndexMut impl for %s, found %d/%d" % (ty, len(idx), len(idm)))
            continue
        f = ctx.fn("patronus", idx[0])
        pe = (param_ids(f) + [None, None])[1]      # index(&self, e)
        tail = tail_value(stmts_of(f["body"])[-1]) if not [x for x in stmts_of(f["body"])[:-1] if x.get("k") != "let"] else {}
        oe = norm.opt_elim(tail) if tail else None
        ok = False
        if oe is not None:
            b, ms = chain(oe["scrut"])
            fp = field_path(b)
            d = peel(oe["none"]) if oe["none"] is not None else {}
            some_ok = oe["some"] is None or (oe["bind"] is not None and is_local(tail_value(oe["some"]), oe["bind"]))
            ok = fp is not None and fp[0] == "self" and fp[2] == ["inner"] and [m[0] for m in ms] == ["get"] and some_ok \
                and d.get("k") == "field" and d["name"] == "default" and field_path(d) is not None and field_path(d)[0] == "self" \
                and norm.converts_param(ms[0][1][0], pe)
        ctx.inst("R13.3", "%s:index" % ty, ok, f["span"], "%s::index must be self.inner.get(key of e).unwrap_or(&self.default): %s" % (ty, show(f["body"])[:160]), sample=show(f["body"])[:160])
        fm = c.fns[idm[0]][0]
        uses_default = [n for n in walk(fm["body"]) if n.get("k") == "field" and n["name"] == "default" and show(n["e"]) in ("self", "*self")]
        uses_inner = [n for n in walk(fm["body"]) if n.get("k") == "field" and n["name"] == "inner"]
        tail = peel(stmts_of(fm["body"])[-1])
        tb, tms = chain(tail)
        from_inner = (tail.get("k") == "index" and field_path(tail["e"]) and field_path(tail["e"])[2] == ["inner"]) or (field_path(tb) and field_path(tb)[2] == ["inner"] and [m[0] for m in tms] in (["entry", "or_default"], ["entry", "or_insert_with"], ["get_mut", "unwrap"], ["get_mut", "expect"]))
        ctx.inst("R13.3", "%s:index_mut" % ty, bool(from_inner) and not uses_default, fm["span"],
                 "%s::index_mut must return a reference into `inner` (never to the shared default): %s - a store through it would be lost or would change every missing key" % (ty, show(fm["body"])[:160]), sample=show(fm["body"])[:160])
