"""C18 - panic discipline of the btor2 reader on the untrusted-input path: explicit aborts, token indexing,
builder preconditions, unwraps on sort data; accepted implies typed."""
import re
from ..tree import *  # noqa
from .. import semterm
from .. import norm as norm_
from ..flow import Index
from .. import callgraph, panics, builders
from . import c08
from .c02 import binding_of_pat

P = c08.P
MOD = c08.MOD
CTX = builders.CTX

EXPLANATION = ("Static abort-site analysis of btor2::parse (rustc HIR facts, call graph): every explicit abort (todo!/panic!/unreachable!) reachable from parse_str is an arm that names documented-unsupported operators or an "
               "allow-listed defensive arm; every constant token index tokens[k] is dominated by a length guarantee n > k (require_at_least_n_tokens in the function or at every call site, is_empty / get(k) tests); every call "
               "to a Context builder that aborts on operands of the wrong kind or width (set computed from the builders' own unwrap/assert sites) whose operand comes from a line reference is dominated by a kind check of that "
               "operand; unwraps on sort data need a dominating kind test; accepted lines are type-checked against the declared sort (R08.5) and inputs/states are created only with a sort from the sort table.")
ASSUMPTIONS = ["arithmetic overflow of width sums (hi + 1, a_width + b_width) is profile-dependent and only inventoried", "the tokenizer's own slicing is not analysed (Unicode handling not decided)"]
LEVEL_TEXT = ("Static panic-discipline analysis over all paths of the reader reachable from arbitrary input text: decides where a malformed file can abort the process instead of producing a diagnostic, as a complete inventory "
              "keyed by call site, and that an accepted line went through the declared-sort check. Every site the inventory reported was repaired in /repo (DESIGN 11.3), so there are no open known findings and a new site is reported."
              " Same-width preconditions between two operands and overflow of numeric builder parameters parsed from the input are part of the inventory; expressions read back from the reader's own line table count as input.")
LEVEL_NOTE = "Abort sites are decided per call site; overflow of width arithmetic and the tokenizer are outside the rule set."
TECHNIQUE = "call-graph reachability + abort-site inventory with allow-list; dominating-guard rule for constant indices (intra- and inter-procedural); precondition-set computation for builders + dominating kind-check rule"

DOCUMENTED = {"rol", "ror", "saddo", "uaddo", "sdivo", "udivo", "smulo", "umulo", "ssubo", "usubo", "fair", "justice"}
ABORT_ALLOW = {
    "parse_unary_op:macro:panic#1": "generic arm of parse_unary_op: unreachable because every name in UNARY_OPS has an arm (R08.4)",
    "parse_bin_op:macro:panic#1": "generic arm of parse_bin_op: unreachable because every name in BINARY_OPS has an arm (R08.4)",
    "parse_ternary_op:macro:panic#1": "generic arm of parse_ternary_op: only reached for ite/write, both have arms",
    "parse_format:macro:panic#1": "generic arm of parse_format: only reached for const/constd/consth/zero/one (dispatcher arm)",
    "parse_line:macro:unreachable#1": "inner match of the output/bad/constraint/fair arm: all four names handled",
}


def run(ctx):
    ctx.rule("R18.1", "explicit aborts reachable from btor2::parse_str are arms naming documented-unsupported operators, or allow-listed defensive arms made unreachable by the operator-set rule")
    ctx.rule("R18.2", "every constant token index is dominated by a token-count guarantee larger than the index (in the function or at every call site)")
    ctx.rule("R18.3", "every call in btor2::parse to a Context builder that aborts on operands of the wrong kind/width, with an operand taken from a line reference, is dominated by a kind check of that operand")
    ctx.rule("R18.4", "unwrap on kind-dependent sort/type data (get_bit_vector_width, get_array_*) of values that depend on referenced lines needs a dominating kind test")
    ctx.rule("R18.5", "inputs and states are created only with a sort from the sort table; operator results pass the declared-sort check (shared with C08 R08.5)")
    c = ctx.facts.lib("patronus")
    g, fns = callgraph.build(ctx.facts, {"patronus"})
    roots = [MOD + "parse_str", MOD + "parse_file", MOD + "parse_file_with_ctx"]
    reach = sorted(p for p in callgraph.reachable(g, roots) if p in fns and p.startswith(MOD))
    ctx.floor("R18.1", "reader functions reachable from parse_str", len(reach), 25)
    aborts(ctx, reach, fns)
    token_indices(ctx, reach, fns)
    pre = precondition_set(ctx, c)
    builder_calls(ctx, reach, fns, pre)
    typed(ctx, c)


def aborts(ctx, reach, fns):
    n = 0
    for p in reach:
        f = fns[p]
        for s_ in panics.keyed(p, panics.sites(f)):
            if s_["kind"] != "macro" or s_["what"].startswith("debug_assert") or s_["what"] in ("assert", "assert_eq", "assert_ne"):
                continue
            n += 1
            node = s_["node"]
            # the arm this abort sits in: string patterns naming operators
            ix = Index(f["body"])
            ops = set()
            for a in ix.ancestors(node):
                if a.get("k") == "match":
                    for arm in a["arms"]:
                        if contains(arm["body"], node):
                            for alt in pat_alts(arm["pat"]):
                                if alt.get("k") == "plit" and alt.get("lk") == "str":
                                    ops.add(alt["v"])
                    break
            # a catch-all arm of an inner match on the operator token is dead when an enclosing arm of a match on the same token
            # admits only operators that the inner match names explicitly
            dead = False
            inner = None
            for a in ix.ancestors(node):
                if a.get("k") == "match" and a.get("src") == "match":
                    inner = a
                    break
            if inner is not None and not ops:
                named = {alt["v"] for arm in inner["arms"] for alt in pat_alts(arm["pat"]) if alt.get("k") == "plit" and alt.get("lk") == "str" and "guard" not in arm}
                for a in ix.ancestors(inner):
                    if a.get("k") == "match" and a.get("src") == "match" and _same_subject(a["scrut"], inner["scrut"]):
                        for arm in a["arms"]:
                            if contains(arm["body"], inner):
                                outer = pat_alts(arm["pat"])
                                if outer and all(x.get("k") == "plit" and x.get("lk") == "str" for x in outer) and {x["v"] for x in outer} <= named:
                                    dead = True
            if inner is not None and not dead:
                # the catch-all arm of a match whose scrutinee is a known literal on this path (a base operator found by a lookup and handed to
                # an inlined helper) is dead when the match names that literal explicitly
                sv = resolve(peel(inner["scrut"]))
                for _ in range(4):
                    if sv.get("k") == "local" and sv["id"] in LET_INITS:
                        sv = resolve(peel(LET_INITS[sv["id"]]))
                if sv.get("k") == "lit" and isinstance(sv.get("v"), str):
                    in_catch_all = any(contains(arm["body"], node) and all(x.get("k") in ("pwild", "pbind") for x in pat_alts(arm["pat"])) for arm in inner["arms"])
                    named_ = {alt["v"] for arm in inner["arms"] for alt in pat_alts(arm["pat"]) if alt.get("k") == "plit" and "guard" not in arm}
                    if in_catch_all and sv["v"] in named_:
                        dead = True
            if not ops:
                # the operator may have been classified first (`LineKind::classify(op)` .. `match kind { .. }`): the operators that select this path
                from .. import norm as norm__
                for conds in norm__.expand_enum_conditions(ix, norm__.path_conditions(ix, node, arms=True)):
                    cur = None
                    for c_, pol in conds:
                        if pol and c_.get("k") == "armpat":
                            lits = {alt["v"] for alt in pat_alts(c_["pat"]) if alt.get("k") == "plit" and alt.get("lk") == "str"}
                            if lits:
                                cur = lits if cur is None else (cur & lits)
                    ops |= (cur or set())
            documented = dead or (bool(ops) and ops <= DOCUMENTED and s_["what"] in ("todo", "unimplemented", "unreachable"))
            # OTHER_OPS `panic!("TODO: implement support for {other} operation")` names the op at run time
            ok = documented or s_["key"] in ABORT_ALLOW
            if not ok and p.endswith("parse_line") and s_["what"] == "panic" and "TODO: implement support for" in ctx.facts.lib("patronus").macros.get((node.get("mac") or {}).get("site"), ""):
                ok = other_ops_all_handled(ctx, f)
            ctx.inst("R18.1", s_["key"], ok, node.get("sp"), "%s: `%s!` in the arm for %s aborts the reader on input text and is neither a documented-unsupported operator nor an allow-listed unreachable arm" % (p, s_["what"], sorted(ops) or "(no operator arm)"),
                     sample={"site": s_["key"], "operators": sorted(ops), "why_ok": "documented unsupported" if documented else ABORT_ALLOW.get(s_["key"], "")})
    ctx.floor("R18.1", "explicit abort sites on the reader path", n, 6)


def other_ops_all_handled(ctx, f):
    """the `other => if OTHER_OPS_SET.contains(other) {panic!}` arm is dead iff every OTHER_OPS name has its own arm"""
    names = c08.const_strings(ctx, "OTHER_OPS")
    oa = c08.op_arms(f)
    arms = set(oa[1]) if oa else set()
    # `read` is dispatched earlier through BINARY_OPS
    binary = set(c08.const_strings(ctx, "BINARY_OPS"))
    missing = [n for n in names if n not in arms and n not in binary]
    return not missing


def token_guarantee_sites(f):
    """[(node, n)] : after node, tokens.len() >= n on the fall-through path"""
    out = []
    for n in walk(f["body"]):
        if n.get("k") == "mcall" and callee(n) == P + "require_at_least_n_tokens":
            v = resolve(n["args"][2])
            if v.get("k") == "lit":
                out.append((n, _Const(v["v"])))
            elif v.get("k") == "match":
                # a count selected by the operator token: `match op { "slice" => 6, "uext" | "sext" => 5, _ => 4 }`
                tbl, dflt, ok = {}, None, True
                for arm in v["arms"]:
                    val = peel(peel_block(arm["body"]))
                    if val.get("k") != "lit" or not isinstance(val.get("v"), int) or "guard" in arm:
                        ok = False
                        break
                    for alt in pat_alts(arm["pat"]):
                        if alt.get("k") == "plit":
                            tbl.setdefault(alt["v"], val["v"])
                        elif alt.get("k") in ("pwild", "pbind") and dflt is None:
                            dflt = val["v"]
                        else:
                            ok = False
                if ok and dflt is not None:
                    out.append((n, _PerOp(v["scrut"], tbl, dflt)))
            elif v.get("k") == "if":
                out.append((n, _SpecExpr(v)))
    return out


def _same_subject(a, b):
    a, b = resolve(a), resolve(b)
    ka, kb = c08.tok_index(a), c08.tok_index(b)
    if ka is not None or kb is not None:
        return ka == kb
    return a.get("k") == "local" and b.get("k") == "local" and canon(a["id"]) == canon(b["id"])


class _Const:
    def __init__(self, v):
        self.v = v

    def at(self, site, ix):
        return self.v


class _PerOp:
    """a guarantee whose size depends on the operator token: at a site inside an arm of a match on the same token, the smallest value over
    the operators of that arm; elsewhere the smallest value of the table"""

    def __init__(self, scrut, tbl, dflt):
        self.scrut, self.tbl, self.dflt = scrut, tbl, dflt

    def at(self, site, ix):
        for a in ix.ancestors(site):
            if a.get("k") == "match" and _same_subject(a["scrut"], self.scrut):
                for arm in a["arms"]:
                    if contains(arm["body"], site) or ("guard" in arm and contains(arm["guard"], site)):
                        alts = pat_alts(arm["pat"])
                        if all(x.get("k") == "plit" for x in alts):
                            return min(self.tbl.get(x["v"], self.dflt) for x in alts)
        return min(list(self.tbl.values()) + [self.dflt])


def token_indices(ctx, reach, fns):
    # guarantees at call sites: for each function, min over call sites of (max n guaranteed before the call)
    call_guar = {}
    for p in reach:
        f = fns[p]
        ix = Index(f["body"])
        gs = token_guarantee_sites(f)
        base = own_base_guarantees(f, ix)
        for n in ix.nodes:
            if n.get("k") == "mcall" and (callee(n) or "").startswith(P) and callee(n) in fns and callee(n) != P + "require_at_least_n_tokens":
                passes_tokens = any(show(peel(a)) in ("tokens", "cont", "&cont", "cont.tokens", "&cont.tokens") or show(peel(a)).endswith("tokens") for a in n["args"])
                if not passes_tokens:
                    continue
                g_ = max([v.at(n, ix) for (r, v) in gs if (ix.dominates(r, n) or correlated_guarantee(r, n, ix)) and dominates_with_try(r, ix)] + [b for (r, b) in base if r is None or ix.dominates(r, n)] + [0])
                call_guar.setdefault(callee(n), []).append(g_)
    n_idx = 0
    for p in reach:
        f = fns[p]
        ix = Index(f["body"])
        gs = token_guarantee_sites(f)
        base = own_base_guarantees(f, ix)
        inherited = min(call_guar.get(p, [0])) if p in call_guar else 0
        per = {}
        for n in ix.nodes:
            k = c08.tok_index(n)
            if k is None:
                continue
            if p.endswith("require_at_least_n_tokens"):
                continue
            n_idx += 1
            per[k] = per.get(k, 0) + 1
            have = max([v.at(n, ix) for (r, v) in gs if dominates_with_try(r, ix) and (ix.dominates(r, n) or correlated_guarantee(r, n, ix))] + [b for (r, b) in base if r is None or ix.dominates(r, n)] + [inherited])
            ctx.inst("R18.2", "%s:tokens[%d]#%d" % (p.split("::")[-1], k, per[k]), have > k, n["sp"],
                     "%s reads token %d but at most %d tokens are guaranteed on this path: a line with too few tokens aborts the reader (index out of bounds) instead of reporting an error" % (p, k, have),
                     sample={"fn": p, "index": k, "guaranteed_tokens": have})
    ctx.floor("R18.2", "constant token index sites", n_idx, 25)
    # the helper itself
    h = fns.get(P + "require_at_least_n_tokens")
    if h:
        hp = param_ids(h) + [None] * 4            # require_at_least_n_tokens(&mut self, line, tokens, n)
        hx = Index(h["body"])
        ok = False
        for okc in [x for x in hx.nodes if x.get("k") == "ctor" and callee(x).endswith("Result::Ok")]:
            # Ok is returned exactly when !(tokens.len() < n)
            for c_, pol in norm_.path_conditions(hx, okc):
                if c_.get("k") == "binary" and c_["op"] in ("<", ">=", ">", "<="):
                    l_, r_, op_ = c_["l"], c_["r"], c_["op"]
                    if op_ in (">", "<="):
                        l_, r_, op_ = r_, l_, {">": "<", "<=": ">="}[op_]
                    lb, lms = chain(resolve(l_))
                    if [m_[0] for m_ in lms] == ["len"] and is_local(lb, hp[2]) and is_local(r_, hp[3]):
                        ok = (op_ == "<" and pol is False) or (op_ == ">=" and pol is True)
        ctx.inst("R18.2", "require_at_least_n_tokens:semantics", ok, h["span"], "require_at_least_n_tokens must fail exactly when tokens.len() < n")
        ctx.note("R18.2: the two token reads inside require_at_least_n_tokens (tokens[1], tokens.last()) are reached only after parse_line matched tokens.get(1) as Some")


def _arm_literals(n, ix):
    """(match node, [string literals]) of the innermost literal-only string-match arm around n"""
    for a in ix.ancestors(n):
        if a.get("k") == "match":
            for arm in a["arms"]:
                if contains(arm["body"], n):
                    alts = pat_alts(arm["pat"])
                    if alts and all(x.get("k") == "plit" and isinstance(x.get("v"), str) for x in alts) and "guard" not in arm:
                        return a, [x["v"] for x in alts]
    return None, None


def correlated_guarantee(r, n, ix):
    """r sits in `if <cond on X> { require(..)? }` and n in a string-match arm on the same X whose literals all satisfy cond"""
    the_if = None
    for a in ix.ancestors(r):
        if a.get("k") == "if" and contains(a["then"], r):
            the_if = a
            break
        if a.get("k") in ("match", "for", "while", "loop", "closure"):
            return False
    if the_if is None or not ix.precedes(the_if, n):
        return False
    # the `if` itself must dominate n
    if not ix.dominates(the_if, n):
        return False
    # the condition tests a classification value (`if !matches!(kind, Kind::A | Kind::B) { require(..)? }`) and n sits in an arm for other variants of it
    c0 = resolve(peel(the_if["cond"]))
    neg = False
    if c0.get("k") == "unary" and c0["op"] == "!":
        neg, c0 = True, resolve(peel(c0["e"]))
    if c0.get("k") == "match" and len(c0["arms"]) == 2 and peel(c0["arms"][0]["body"]).get("v") is True and peel(c0["arms"][1]["body"]).get("v") is False and peel(c0["scrut"]).get("k") == "local":
        tested = {x.get("path") for x in pat_alts(c0["arms"][0]["pat"])}
        from .. import norm as norm__
        for cnd, pol in norm__.path_conditions(ix, n, arms=True):
            if pol and cnd.get("k") == "armpat" and peel(cnd["scrut"]).get("k") == "local" and canon(peel(cnd["scrut"])["id"]) == canon(peel(c0["scrut"])["id"]):
                here = {x.get("path") for x in pat_alts(cnd["pat"])}
                if None in here or None in tested:
                    return False
                val = True if here <= tested else (False if not (here & tested) else None)
                if val is None:
                    return False
                return (not val) if neg else val
    m, lits = _arm_literals(n, ix)
    if not lits:
        return False
    ex = semterm.Extractor({}, lambda n_, e_: None)
    for l in lits:
        ex.spec = lambda e_, l=l: l if _same_subject(e_, m["scrut"]) else None
        if ex.decide(the_if["cond"]) is not True:
            return False
    return True


class _SpecExpr:
    """a guarantee whose size is an expression of the operator token (`if op.starts_with("const") { 4 } else { 3 }`): at a site inside a
    string-match arm on that token, the smallest value over the arm's operators"""

    def __init__(self, e):
        self.e = e

    def at(self, site, ix):
        m, lits = _arm_literals(site, ix)
        if not lits:
            return 0
        ex = semterm.Extractor({}, lambda n_, e_: None)
        vals = []
        for l in lits:
            ex.spec = lambda e_, l=l: l if _same_subject(e_, m["scrut"]) else None
            try:
                v = ex.ev(self.e, {})
            except semterm.Opaque:
                return 0
            if not (isinstance(v, tuple) and v[0] == "lit" and isinstance(v[1], int)):
                return 0
            vals.append(v[1])
        return min(vals)


def dominates_with_try(r, ix):
    p = ix.parent.get(id(r))
    return p is not None and p.get("k") == "try"


def own_base_guarantees(f, ix):
    """[(dominating node or None, n)] from is_empty early returns and get(k) matches"""
    out = []
    for n in ix.nodes:
        if n.get("k") == "if" and n["then"].get("ty") == "!" or (n.get("k") == "if" and any(x.get("k") == "return" for x in walk(n["then"]))):
            cb_, cms_ = chain(resolve(n["cond"]))
            if [m_[0] for m_ in cms_] == ["is_empty"] and c08.tok_index({"k": "index", "e": cb_, "i": {"k": "lit", "v": 0}}) == 0:
                out.append((n, 1))
        if n.get("k") == "let" and "init" in n:
            init = peel(n["init"])
            gb_, gms_ = chain(init["scrut"]) if init.get("k") == "match" else ({}, [])
            if init.get("k") == "match" and [m_[0] for m_ in gms_] == ["get"] and peel(gms_[0][1][0]).get("v") == 1 and c08.tok_index({"k": "index", "e": gb_, "i": {"k": "lit", "v": 0}}) == 0:
                none_diverges = any(show_pat(a["pat"]).endswith("None") and (a["body"].get("ty") == "!" or any(x.get("k") == "return" for x in walk(a["body"]))) for a in init["arms"])
                if none_diverges:
                    out.append((n, 2))
    return out


def precondition_set(ctx, c):
    """builders of Context that abort on operands of the wrong kind/width: name -> (release?, how)"""
    out = {}
    for path, fl in c.fns.items():
        if not path.startswith(CTX + "::"):
            continue
        name = path.split("::")[-1]
        f = fl[0]
        params = [binding_of_pat(p) for p in f["params"]]
        pidx = builders._ParamIndex()
        k = 0
        for b in params:
            if b and b[0] != "self":
                pidx[b[1]] = k
                k += 1
        ids = pidx            # membership through aliases (parameters of inlined helpers)
        hard = []
        soft = []
        constrained = set()
        pairs = set()
        asserts_seen = set()
        for n, parents in walk_parents(f["body"]):
            # width arithmetic on a numeric parameter (`width(e) + by`): overflows on a huge input number
            if n.get("k") == "binary" and n["op"] in ("+", "*") and str(n.get("ty", "")).startswith(("u", "i")):
                sides = [peel(n["l"]), peel(n["r"])]
                for s_i, s_ in enumerate(sides):
                    o_ = sides[1 - s_i]
                    if s_.get("k") == "local" and s_["id"] in ids and o_.get("k") != "lit":
                        soft.append("`%s` overflow on `%s`" % (n["op"], show(n)[:40]))
                        constrained.add(pidx[s_["id"]])
            in_dbg = any(m.startswith("debug_assert") for a in (n,) + parents for m in mac_names(a))
            if n.get("k") == "mcall" and n["name"] in ("unwrap", "expect"):
                used = {pidx[x["id"]] for x in walk(n["recv"]) if x.get("k") == "local" and x["id"] in ids}
                if used:
                    (soft if in_dbg else hard).append("unwrap on `%s`" % show(n["recv"])[:50])
                    constrained |= used
            # assert!/debug_assert! conditions: every parameter mentioned in the enclosing `if !cond {panic}` is constrained
            if n.get("k") == "if":
                aborts = [x for x in walk(n["then"], into_closures=False) if (callee(x) or "").startswith("core::panicking")]
                names = set()
                for x in aborts:
                    names |= set(mac_names(x))
                if aborts and names & {"assert", "assert_eq", "assert_ne", "debug_assert", "debug_assert_eq", "debug_assert_ne"}:
                    used = {pidx[x["id"]] for x in walk(n["cond"]) if x.get("k") == "local" and x["id"] in ids}
                    if used:
                        constrained |= used
                        (soft if any(m.startswith("debug_assert") for m in names) else hard).append("assert!" if not any(m.startswith("debug_assert") for m in names) else "debug_assert!")
            if n.get("k") == "match" and n.get("src") != "match":
                pass
            if (callee(n) or "").startswith("core::panicking::assert_failed"):
                # assert_eq!/debug_assert_eq!: operands are bound by a match on (&left, &right)
                for a in parents[::-1]:
                    if a.get("k") == "match":
                        used = {pidx[x["id"]] for x in walk(a["scrut"]) if x.get("k") == "local" and x["id"] in ids}
                        if used:
                            constrained |= used
                            if len(used) == 2:
                                pairs.add(tuple(sorted(used)))
                            names = set(mac_names(n))
                            (soft if any(m.startswith("debug_assert") for m in names) else hard).append("assert_eq!" if not any(m.startswith("debug_assert") for m in names) else "debug_assert_eq!")
                        break
        if hard or soft:
            out[name] = {"release": bool(hard), "how": sorted(set(hard + soft))[:3], "params": constrained, "pairs": pairs}
    ctx.extra["builders_with_type_preconditions"] = {k: v["how"] for k, v in sorted(out.items())}
    ctx.floor("R18.3", "builders with kind/width preconditions", len(out), 25)
    return out


def width_source(a, defs):
    """where the width of a builder operand comes from when that is the input: the operand itself is an input expression, or it is a
    constant built by a Context builder from an input-derived width"""
    if a.get("k") != "local":
        return None
    s_ = operand_source(a["id"], defs, 0)
    if s_:
        return s_
    init = simple_let_init(defs, a["id"])
    c = strip_try(init) if init is not None else {}
    if c.get("k") == "mcall" and (callee(c) or "").startswith(CTX + "::"):
        for x in c["args"]:
            x = peel(x)
            if x.get("k") == "local":
                s_ = operand_source(x["id"], defs, 0)
                if s_:
                    return "constant of " + s_
    return None


def derived_locals(aid, defs, fn_body):
    """the operand and the locals computed from it (`let w = require_bv(a)?`, `let t = a.get_type(ctx)`, tuple lets), two levels"""
    out = {aid, canon(aid)}
    for _ in range(3):
        for n in walk(fn_body):
            if n.get("k") == "let" and "init" in n and any(x.get("k") == "local" and (x["id"] in out or canon(x["id"]) in out) for x in walk(n["init"])):
                ini = strip_try(n["init"])
                if ini.get("k") == "mcall" and (callee(ini) or "").startswith(CTX + "::"):
                    continue          # a new expression built from it is a different value
                if n["pat"].get("k") == "ptuple" and peel(n["init"]).get("k") == "tuple":
                    for sub, e in zip(n["pat"].get("pats", n["pat"].get("elems", [])), peel(n["init"])["elems"]):
                        if any(x.get("k") == "local" and (x["id"] in out or canon(x["id"]) in out) for x in walk(e)):
                            out |= {i for _, i in pat_bindings(sub)} | {canon(i) for _, i in pat_bindings(sub)}
                    continue
                out |= {i for _, i in pat_bindings(n["pat"])} | {canon(i) for _, i in pat_bindings(n["pat"])}
    return out


def propagates(n, parents):
    """the Result of the call n is handed on: `n?`, or n is the value of a block / branch / `return` whose own value is handed on
    (the tail call of a helper that was inlined under `?`)"""
    cur = n
    for par in reversed(parents):
        k = par.get("k")
        if k == "try":
            return True
        if k in ("return", "ireturn"):
            return True
        if k == "blockexpr":
            cur = par
            continue
        if k == "block":
            if par.get("tail") is cur:
                cur = par
                continue
            return False
        if k == "if" and (par.get("then") is cur or par.get("else") is cur):
            cur = par
            continue
        if k == "match" and any(a_["body"] is cur for a_ in par["arms"]):
            cur = par
            continue
        if k is None and isinstance(par, dict) and par.get("body") is cur:      # a match arm
            cur = par
            continue
        if k in ("paren",):
            cur = par
            continue
        return False
    return False


def following(n, parents):
    """the statements after the one holding n in the nearest enclosing block"""
    cur = n
    for par in reversed(parents):
        if par.get("k") == "block":
            for i_, st_ in enumerate(par["stmts"]):
                if st_ is cur or (st_.get("k") == "semi" and st_["e"] is cur):
                    return par["stmts"][i_ + 1:] + ([par["tail"]] if "tail" in par else [])
            return []
        if par.get("k") not in ("semi",):
            return []
        cur = par
    return []


def related_widths(ai, aj, call, ix, f, fns, defs):
    A = derived_locals(ai["id"], defs, f["body"]) if ai.get("k") == "local" else set()
    B = derived_locals(aj["id"], defs, f["body"]) if aj.get("k") == "local" else set()
    # one side is a constant built from the other side's own width
    for x, other in ((ai, B), (aj, A)):
        if x.get("k") == "local":
            init = simple_let_init(defs, x["id"])
            c = strip_try(init) if init is not None else {}
            if c.get("k") == "mcall" and (callee(c) or "").startswith(CTX + "::"):
                locs = [peel(y) for y in c["args"]]
                locs = [y for y in locs if y.get("k") == "local"]
                if locs and all(y["id"] in other for y in locs):
                    return True
    def relates(region):
        for n, parents in walk_parents(region):
            par = parents[-1] if parents else None
            subj = None
            if n.get("k") == "mcall" and (callee(n) or "").startswith(P) and propagates(n, parents):
                subj = n
            elif n.get("k") in ("if", "match"):
                rejects = any(x.get("k") == "return" or (x.get("k") == "ctor" and callee(x).endswith("Result::Err")) or (x.get("k") == "mcall" and callee(x) == P + "add_error") for x in walk(n))
                if not rejects:
                    # `if widths agree { return Ok(()) } <report the error>`: the rejection follows the test in the same block
                    rejects = any((x.get("k") == "ctor" and callee(x).endswith("Result::Err")) or (x.get("k") == "mcall" and callee(x) == P + "add_error") for st_ in following(n, parents) for x in walk(st_))
                if rejects:
                    subj = n["cond"] if n["k"] == "if" else n["scrut"]
            if subj is not None:
                locs = {x["id"] for x in walk(subj) if x.get("k") == "local"}
                locs |= {canon(i_) for i_ in locs}
                if locs & A and locs & B:
                    return True
        return False
    pins = {"A": set(), "B": set()}
    def pin(region):
        """each side checked (fallibly) against the same constant type pins both widths"""
        for n, parents in walk_parents(region):
            par = parents[-1] if parents else None
            if n.get("k") == "mcall" and callee(n) == P + "check_type" and propagates(n, parents):
                x, y = n["args"][0], n["args"][1]
                for u, v in ((x, y), (y, x)):
                    lu = {z["id"] for z in walk(u) if z.get("k") == "local"}
                    lv = {z["id"] for z in walk(v) if z.get("k") == "local"}
                    if lu and not lv:
                        if lu <= A:
                            pins["A"].add(show(peel(v)))
                        if lu <= B:
                            pins["B"].add(show(peel(v)))
        return bool(pins["A"] & pins["B"])
    anc = ix.ancestors(call)
    for blk in anc:
        if blk.get("k") != "blockexpr":
            continue
        for st in blk["b"]["stmts"]:
            if contains(st, call):
                break
            s_ = unsemi(st)
            sel = enclosing_op(call, ix)
            if s_.get("k") == "match" and sel is not None and show(s_["scrut"]) == sel[0]:
                arm = pick_arm(s_, sel[1])
                if arm is not None and (relates(arm["body"]) or pin(arm["body"])):
                    return True
                continue
            if s_.get("k") == "if" and sel is not None and peel(s_["cond"]).get("k") == "binary" and show(peel(s_["cond"])["l"]) == sel[0]:
                cs = show(peel(s_["cond"])).replace(" ", "")
                if cs == '(%s=="%s")' % (sel[0].replace(" ", ""), sel[1]) and (relates(s_["then"]) or pin(s_["then"])):
                    return True
                continue
            if relates(st) or pin(st):
                return True
    return False


def builder_calls(ctx, reach, fns, pre):
    _FNS["fns"] = fns
    n_calls = 0
    n_pairs = 0
    for p in reach:
        f = fns[p]
        ix = Index(f["body"])
        defs = local_defs(f)
        per = {}
        perp = {}
        for n in ix.nodes:
            if n.get("k") != "mcall" or not (callee(n) or "").startswith(CTX + "::"):
                continue
            b = callee(n).split("::")[-1]
            if b not in pre:
                continue
            # operands that come from line references / parsed numbers
            tainted = []
            for ai, a in enumerate(n["args"]):
                a = peel(a)
                if ai not in pre[b].get("params", set()):
                    continue  # the builder places no requirement on this parameter
                if a.get("k") == "local":
                    src = operand_source(a["id"], defs, 0)
                    if src:
                        tainted.append((a, src))
            # same-width pairs (`debug_assert_eq!(width(a), width(b))`): when either side comes from the input the two must be related
            for (pi, pj) in sorted(pre[b].get("pairs", ())):
                if max(pi, pj) >= len(n["args"]):
                    continue
                ai, aj = peel(n["args"][pi]), peel(n["args"][pj])
                srcs = [width_source(x, defs) for x in (ai, aj)]
                if not any(srcs):
                    continue
                n_pairs += 1
                perp[b] = perp.get(b, 0) + 1
                ok = related_widths(ai, aj, n, ix, f, fns, defs)
                ctx.inst("R18.3", "%s:%s:same-width#%d" % (p.split("::")[-1], b, perp[b]), ok, n["sp"],
                         "%s calls Context::%s, which aborts unless `%s` and `%s` have the same width, on operands from the input (%s) whose widths nothing relates: no dominating check mentions both and neither is built from the other's width; a line whose declared sort differs from its operand aborts the reader" % (
                             p, b, show(ai), show(aj), "; ".join(x for x in srcs if x)),
                         sample={"fn": p, "builder": b, "operands": srcs})
            if not tainted:
                continue
            n_calls += 1
            per[b] = per.get(b, 0) + 1
            guarded = all(kind_checked(a, n, ix, f, fns, src.startswith("integer")) or (b == "symbol" and src.startswith("sort id") and sort_table_nonzero(ctx, fns)) for a, src in tainted)
            ctx.inst("R18.3", "%s:%s#%d" % (p.split("::")[-1], b, per[b]), guarded, n["sp"],
                     "%s calls Context::%s (aborts on %s%s) on operand(s) %s taken from the input without a dominating kind/width check: an ill-sorted line (e.g. an array where a bit-vector is required) aborts the reader instead of reporting an error" % (
                         p, b, "; ".join(pre[b]["how"]), "" if pre[b]["release"] else "; debug builds only", [show(a) for a, _ in tainted]),
                     sample={"fn": p, "builder": b, "operands": [src for _, src in tainted]})
    ctx.floor("R18.3", "builder calls on input operands", n_calls, 30)
    ctx.extra["same_width_pairs_on_input_operands"] = n_pairs
    # R18.4: unwrap on kind-dependent data
    n_u = 0
    for p in reach:
        f = fns[p]
        ix = Index(f["body"])
        defs = local_defs(f)
        per = 0
        for n in ix.nodes:
            if n.get("k") == "mcall" and n["name"] in ("unwrap", "expect"):
                r = peel(n["recv"])
                if r.get("k") == "mcall" and r["name"] in ("get_bit_vector_width", "get_array_index_width", "get_array_data_width", "get_bv_type", "get_array_type"):
                    base_locals = [x for x in walk(r["recv"]) if x.get("k") == "local"]
                    srcs = [operand_source(x["id"], defs, 0) for x in base_locals]
                    if not any(srcs):
                        continue
                    n_u += 1
                    per += 1
                    ok = any(kind_checked(x, n, ix, f, fns) for x in base_locals)
                    ctx.inst("R18.4", "%s:%s.unwrap#%d" % (p.split("::")[-1], r["name"], per), ok, n["sp"],
                             "%s unwraps `%s` on a value that depends on a referenced line without a dominating kind test: the wrong kind of operand/sort aborts the reader" % (p, show(r)[:80]),
                             sample={"fn": p, "unwrap": show(n)[:80]})
    ctx.extra["unwraps_on_kind_dependent_data"] = n_u


def sort_table_nonzero(ctx, fns):
    """every sort entering the sort table has a non-zero width: the BV insert in parse_sort is dominated by a rejecting width == 0 test,
    array sorts are built from widths read back from the table (get_bv_width)"""
    f = fns.get(P + "parse_sort")
    if f is None:
        return False
    ix = Index(f["body"])
    defs = local_defs(f)
    ins = [n for n in ix.nodes if n.get("k") == "mcall" and n["name"] == "insert" and show(peel(n["recv"])).endswith("type_map")]
    all_ins = [n for _, g in fns.items() for n in walk(g["body"]) if n.get("k") == "mcall" and n["name"] == "insert" and show(peel(n["recv"])).endswith("type_map")]
    if len(ins) != len(all_ins) or not ins:
        return False
    def alternatives(e, depth=0):
        """the constructor expressions a value can be (through lets, match / if arms; diverging arms excluded)"""
        e = norm_.tail_value(strip_try(e))
        if depth > 6:
            return [e]
        if e.get("k") == "local":
            init = simple_let_init(defs, e["id"])
            return alternatives(init, depth + 1) if init is not None else [e]
        if e.get("k") == "match":
            out_ = []
            for arm in e["arms"]:
                if arm["body"].get("ty") == "!" or norm_._diverges(arm["body"]):
                    continue
                out_ += alternatives(arm["body"], depth + 1)
            return out_
        if e.get("k") == "if" and "else" in e:
            return [x for b_ in (e["then"], e["else"]) if not norm_._diverges(b_) for x in alternatives(b_, depth + 1)]
        if e.get("k") in ("blockexpr",) and "tail" in e["b"]:
            return alternatives(e["b"]["tail"], depth + 1)
        return [e]
    for n in ins:
        for v in alternatives(n["args"][1]):
            if v.get("k") == "ctor" and callee(v).endswith("Type::BV"):
                w = peel(v["args"][0])
                if not (w.get("k") == "local" and norm_.nonzero_at(ix, v, w["id"])):
                    return False
            elif v.get("k") == "ctor" and callee(v).endswith("Type::Array"):
                def from_table(e_, depth_=0):
                    """every width inside is read back from the sort table (through lets and struct literals)"""
                    for x in [y for y in walk(e_) if y.get("k") == "local"]:
                        init = simple_let_init(defs, x["id"])
                        cc = strip_try(init) if init is not None else {}
                        if cc.get("k") == "mcall" and callee(cc) == P + "get_bv_width":
                            continue
                        if cc.get("k") in ("struct", "ctor") and depth_ < 3 and from_table(cc, depth_ + 1):
                            continue
                        return False
                    return True
                if not from_table(v):
                    return False
            else:
                return False
    return True


_FNS = {}


def passes_through(cal):
    """index of the argument a reader helper returns unchanged on success (every Ok(..) it builds wraps that parameter), else None"""
    fl = _FNS.get("fns", {}).get(cal)
    if not fl or not cal.startswith(P):
        return None
    f = fl if isinstance(fl, dict) else fl[0]
    params = [binding_of_pat(q) for q in f["params"]]
    ids = [b[1] for b in params if b and b[0] != "self"]
    oks = [x for x in walk(f["body"]) if x.get("k") == "ctor" and callee(x).endswith("Result::Ok")]
    idx = set()
    for x in oks:
        a_ = peel(x["args"][0]) if x.get("args") else {}
        if a_.get("k") == "local" and a_["id"] in ids:
            idx.add(ids.index(a_["id"]))
        else:
            return None
    return idx.pop() if len(idx) == 1 else None


def _walk_outside_builders(n):
    """the nodes of an expression that are not inside a call of one of our own builders: what a builder returns is well-formed whatever
    went in (its own preconditions are checked at that call), e.g. the 1-bit slices collected for `redxor`"""
    stack = [n]
    while stack:
        x = stack.pop()
        if isinstance(x, list):
            stack.extend(x)
            continue
        if not isinstance(x, dict):
            continue
        if x.get("k") == "mcall" and (callee(x) or "").startswith(CTX + "::"):
            continue
        yield x
        stack.extend(v for k_, v in x.items() if k_ != "mac" and isinstance(v, (dict, list)))


def operand_source(lid, defs, depth):
    """'line reference token k' / 'parsed integer token k' / 'sort token k' when the local comes from the input line"""
    if depth > 4:
        return None
    init = simple_let_init(defs, lid)
    if init is None:
        # `if let Some(signal) = self.signal_map.get(&id)`: an expression stored for an earlier line, of whatever kind that line had
        d = defs.get(lid)
        if d and d[0] in ("arm", "letexpr"):
            subj = strip_try(d[1]["scrut"] if d[0] == "arm" else d[1]["init"])
            if subj.get("k") == "mcall" and subj["name"] in ("get", "get_mut", "remove") and "ExprRef" in str(subj.get("ty", "")) \
                    and peel(subj["recv"]).get("k") == "field" and "Map" in str(peel(subj["recv"]).get("ty", "")):
                return "expression stored for the line id looked up in `%s`" % show(peel(subj["recv"]))
        return None
    c = strip_try(init)
    if c.get("k") == "mcall":
        cal = callee(c) or ""
        if cal == P + "get_bv_width":
            return "width of the sort in token %s" % c08.tok_index(c["args"][1])
        if cal == P + "get_expr_from_line_id":
            return "expression id in token %s" % c08.tok_index(c["args"][1])
        if cal == P + "parse_width_int":
            return "integer in token %s" % c08.tok_index(c["args"][1])
        if cal == P + "get_tpe_from_id":
            return "sort id in token %s" % c08.tok_index(c["args"][1])
        if cal.startswith(CTX + "::"):
            return None  # results of our own builders are well-formed once the builder's own preconditions were checked at its call
        pt = passes_through(cal)
        if pt is not None and pt < len(c["args"]):
            # `let checked = self.check_expr_type(e, ..)?`: the helper hands its argument back on success
            a_ = peel(c["args"][pt])
            return operand_source(a_["id"], defs, depth + 1) if a_.get("k") == "local" else None
        if c["name"] in ("get_type", "get_bit_vector_width", "unwrap") or True:
            d_ = defs.get(lid)
            wants_expr = bool(d_) and "ExprRef" in str(d_[2].get("ty", ""))
            for x in _walk_outside_builders(c):
                if wants_expr and x.get("k") == "local" and "ExprRef" not in str(x.get("ty", "")):
                    continue        # an expression cannot come out of an integer (`0..width`), only out of expressions and collections of them
                if x.get("k") == "local" and x["id"] != lid:
                    s_ = operand_source(x["id"], defs, depth + 1)
                    if s_:
                        return "derived from " + s_
    if c.get("k") == "local":
        return operand_source(c["id"], defs, depth + 1)
    return None


_KIND_HELPERS = {}


def kind_helpers(fns):
    """Parser methods that test the type of an ExprRef argument and can fail: {path: [param indices tested]}"""
    if _KIND_HELPERS.get("_done"):
        return _KIND_HELPERS
    for p, f in fns.items():
        if not p.startswith(P):
            continue
        params = [binding_of_pat(q) for q in f["params"]]
        tested = []
        has_err = any((x.get("k") == "ctor" and callee(x).endswith("Result::Err")) or (x.get("k") == "mcall" and callee(x) in (P + "add_error", P + "check_type")) for x in walk(f["body"]))
        if not has_err:
            continue
        k = 0
        for b in params:
            if not b or b[0] == "self":
                continue
            if any(y.get("k") == "mcall" and y["name"] in ("get_type", "type_check", "get_bv_type") and any(z.get("k") == "local" and z["id"] == b[1] for z in walk(y["recv"])) for y in walk(f["body"])):
                tested.append(k)
            k += 1
        if tested:
            _KIND_HELPERS[p] = tested
    _KIND_HELPERS["_done"] = True
    return _KIND_HELPERS


_RANGE_HELPERS = {}


def range_helpers(fns):
    """Parser methods that compare a numeric parameter and can fail: {path: [param indices compared]}"""
    if _RANGE_HELPERS.get("_done"):
        return _RANGE_HELPERS
    for p, f in fns.items():
        if not p.startswith(P):
            continue
        if not any((x.get("k") == "ctor" and callee(x).endswith("Result::Err")) or (x.get("k") == "mcall" and callee(x) == P + "add_error") for x in walk(f["body"])):
            continue
        k = 0
        cmp = []
        for q in f["params"]:
            b = binding_of_pat(q)
            if not b or b[0] == "self":
                continue
            for y in walk(f["body"]):
                if y.get("k") == "if" and any(z.get("k") == "binary" and z["op"] in ("<", "<=", ">", ">=") and any(w.get("k") == "local" and w["id"] == b[1] for w in walk(z)) for z in walk(y["cond"])):
                    cmp.append(k)
                    break
            k += 1
        if cmp:
            _RANGE_HELPERS[p] = cmp
    _RANGE_HELPERS["_done"] = True
    return _RANGE_HELPERS


def checks_in(region, aid, defs, fns, is_int):
    """does this code region contain a fallible test of operand `aid`'s kind (or, for integers, range)?"""
    helpers = kind_helpers(fns)
    for n, parents in walk_parents(region):
        par = parents[-1] if parents else None
        if n.get("k") == "mcall" and par is not None and par.get("k") == "try":
            cal = callee(n) or ""
            if cal in helpers:
                for ti in helpers[cal]:
                    if ti < len(n["args"]) and is_local(n["args"][ti], aid):
                        return True
            if is_int and cal in range_helpers(fns):
                for ti in range_helpers(fns)[cal]:
                    if ti < len(n["args"]) and is_local(n["args"][ti], aid):
                        return True
            if cal == P + "check_type":
                for x in walk(n["args"][0]):
                    if x.get("k") == "local":
                        if x["id"] == aid:
                            return True
                        d = defs.get(x["id"])
                        if d and d[0] == "let" and "init" in d[1] and any(y.get("k") == "mcall" and y["name"] == "get_type" and any(z.get("k") == "local" and z["id"] == aid for z in walk(y["recv"])) for y in walk(d[1]["init"])):
                            return True
        if n.get("k") in ("if", "match"):
            subj = n["cond"] if n["k"] == "if" else n["scrut"]
            mentions = any(x.get("k") == "local" and x["id"] == aid for x in walk(subj))
            if not mentions:
                # through a let-bound local derived from the operand (e.g. `width`)
                for x in walk(subj):
                    if x.get("k") == "local":
                        d = defs.get(x["id"])
                        if d and d[0] == "let" and "init" in d[1] and any(z.get("k") == "local" and z["id"] == aid for z in walk(d[1]["init"])):
                            mentions = True
            if mentions:
                kindy = any(y.get("k") == "mcall" and y["name"] in ("is_bit_vector", "is_array", "is_bool", "get_type", "get_bv_type", "get_bit_vector_width") for y in walk(subj))
                cmpy = any(y.get("k") == "binary" and y["op"] in ("<", "<=", ">", ">=", "==", "!=") for y in walk(subj))
                rejects = any(x.get("k") == "return" or (x.get("k") == "ctor" and callee(x).endswith("Result::Err")) or (x.get("k") == "mcall" and callee(x) == P + "add_error") for x in walk(n))
                if (kindy or (is_int and cmpy)) and rejects:
                    return True
    return False


def kind_checked(a, call, ix, f, fns=None, is_int=False):
    """a dominating fallible check of operand a's kind: a `?`-propagated kind helper / check_type on it, an if/match
    on its type with a rejecting branch, or the call sits inside the branch selected by such a test; correlated
    matches on the same operator token are followed (pre-check match arm for op X guards the builder arm for op X)"""
    fns = fns if fns is not None else {}
    aid = a["id"] if isinstance(a, dict) and "id" in a else None
    defs = local_defs(f)
    # (1) straight-line: statements of enclosing blocks that precede the call
    anc = ix.ancestors(call)
    chain_ = [call] + anc
    for i, blk in enumerate(anc):
        if blk.get("k") != "blockexpr":
            continue
        inner = chain_[i]  # the child of blk on the path to the call
        for st in blk["b"]["stmts"]:
            if contains(st, call):
                break
            if stmt_checks(st, aid, defs, fns, is_int):
                return True
            # (2) correlated dispatch on the operator token
            s_ = unsemi(st)
            sel = enclosing_op(call, ix)
            if sel is not None:
                scrut_txt, op = sel
                if s_.get("k") == "match" and show(s_["scrut"]) == scrut_txt:
                    arm = pick_arm(s_, op)
                    if arm is not None and checks_in(arm["body"], aid, defs, fns, is_int):
                        return True
                if s_.get("k") == "if":
                    cs = show(peel(s_["cond"])).replace(" ", "")
                    if cs in ('(%s=="%s")' % (scrut_txt.replace(" ", ""), op),) and checks_in(s_["then"], aid, defs, fns, is_int):
                        return True
    # (3) the call is inside the branch chosen by a kind test of the operand
    for a_ in anc:
        subj = None
        if a_.get("k") == "if" and contains(a_["then"], call):
            subj = a_["cond"]
        elif a_.get("k") == "match":
            for arm_ in a_["arms"]:
                if "guard" in arm_ and contains(arm_["body"], call):
                    subj = arm_["guard"]          # `Kind::Init if x.get_type(ctx).is_bit_vector() => builder(x)`
        if subj is not None:
            locs = set()
            for x in walk(subj):
                if x.get("k") == "local":
                    locs.add(x["id"])
                    d = defs.get(x["id"])
                    if d and d[0] == "let" and "init" in d[1]:
                        locs |= {z["id"] for z in walk(d[1]["init"]) if z.get("k") == "local"}
            if aid in locs and any(y.get("k") == "mcall" and y["name"] in ("is_bit_vector", "is_array", "is_bool") for y in list(walk(subj)) + [z for x in walk(subj) if x.get("k") == "local" and defs.get(x["id"]) and defs[x["id"]][0] == "let" and "init" in defs[x["id"]][1] for z in walk(defs[x["id"]][1]["init"])]):
                return True
    return False


def stmt_checks(st, aid, defs, fns, is_int):
    """an unconditionally executed statement that checks the operand: a let / expression statement containing a `?`-propagated
    check outside any branch, or an `if`/`match` whose own subject tests the operand and has a rejecting branch.
    Checks nested inside the arms of a branching statement do not count here (they only guard what is correlated with that arm)."""
    s_ = unsemi(st)
    if s_.get("k") in ("if", "match"):
        shallow = dict(s_)
        # only the subject-level test: reuse checks_in on a copy whose branches are kept (needed for `rejects`) but nested checks ignored
        subj = s_["cond"] if s_["k"] == "if" else s_["scrut"]
        mentions = any(x.get("k") == "local" and x["id"] == aid for x in walk(subj))
        if not mentions:
            for x in walk(subj):
                if x.get("k") == "local":
                    d = defs.get(x["id"])
                    if d and d[0] == "let" and "init" in d[1] and any(z.get("k") == "local" and z["id"] == aid for z in walk(d[1]["init"])):
                        mentions = True
        if not mentions:
            return False
        expanded = list(walk(subj))
        for x in list(expanded):
            if x.get("k") == "local":
                d = defs.get(x["id"])
                if d and d[0] == "let" and "init" in d[1] and d[2].get("k") == "pbind" and not d[2].get("mut"):
                    expanded += list(walk(d[1]["init"]))      # `let in_range = a <= b && b < w; if !in_range { reject }`
        kindy = any(y.get("k") == "mcall" and y["name"] in ("is_bit_vector", "is_array", "is_bool", "get_type", "get_bv_type", "get_bit_vector_width") for y in expanded)
        cmpy = any(y.get("k") == "binary" and y["op"] in ("<", "<=", ">", ">=", "==", "!=") for y in expanded)
        rejects = any(x.get("k") == "return" or (x.get("k") == "ctor" and callee(x).endswith("Result::Err")) or (x.get("k") == "mcall" and callee(x) == P + "add_error") for x in walk(s_))
        return (kindy or (is_int and cmpy)) and rejects
    if s_.get("k") in ("for", "while", "loop"):
        return False
    return checks_in(st, aid, defs, fns, is_int)


def straight(st):
    """a statement whose checks are executed unconditionally when control passes it (let/expr with `?`), not hidden in a branch"""
    s_ = unsemi(st)
    return s_.get("k") in ("let", "try", "mcall", "call", "if", "match")


def enclosing_op(call, ix):
    """(scrutinee text, operator literal) of the string-match arm the call sits in"""
    for a in ix.ancestors(call):
        if a.get("k") == "match":
            for arm in a["arms"]:
                if contains(arm["body"], call):
                    lits = [alt["v"] for alt in pat_alts(arm["pat"]) if alt.get("k") == "plit" and alt.get("lk") == "str"]
                    if len(lits) >= 1:
                        return show(a["scrut"]), lits[0]
    return None


def pick_arm(m, op):
    for arm in m["arms"]:
        if any(alt.get("k") == "plit" and alt.get("v") == op for alt in pat_alts(arm["pat"])):
            return arm
    for arm in m["arms"]:
        if all(alt.get("k") in ("pbind", "pwild") for alt in pat_alts(arm["pat"])):
            return arm
    return None


def typed(ctx, c):
    for name, fld in (("parse_state", "states"), ("parse_input", "inputs")):
        f = ctx.fn("patronus", P + name)
        defs = local_defs(f)
        syms = [n for n in walk(f["body"]) if n.get("k") == "mcall" and callee(n) == CTX + "::symbol"]
        ok = len(syms) == 1
        if ok:
            t = peel(syms[0]["args"][1])
            init = simple_let_init(defs, t["id"]) if t.get("k") == "local" else None
            cc = strip_try(init) if init is not None else {}
            ok = cc.get("k") == "mcall" and callee(cc) == P + "get_tpe_from_id" and c08.tok_index(cc["args"][1]) == 2
        ctx.inst("R18.5", "%s:sort-from-table" % name, ok, f["span"], "%s must create its symbol with the sort looked up from token 2 in the sort table" % name)
    g = ctx.fn("patronus", P + "get_tpe_from_id")
    ok = any(x.get("k") == "mcall" and x["name"] == "get" and field_path(x["recv"]) and field_path(x["recv"])[0] == "self" and field_path(x["recv"])[2] == ["type_map"] for x in walk(g["body"]))
    ctx.inst("R18.5", "get_tpe_from_id:from-type_map", ok, g["span"], "sorts must only come from the table filled by parse_sort")
    # operator results pass the declared sort check: re-evaluate C08's R08.5 here
    for fname in ("parse_unary_op", "parse_bin_op", "parse_ternary_op"):
        f = ctx.fn("patronus", P + fname)
        oa = c08.op_arms(f)
        if oa:
            c08.r085(ctx, f, fname, oa[0])
    c08.init_next(ctx)
    slice_type_rule(ctx)
    # T4: the full type-rule table (accepted implies typed rests on type_check being the IR's typing rules)
    from .. import typerules
    from ..tables import T0
    ctx.rule("T4", "for each of the 35 variants type_check enforces exactly the IR's typing constraints and returns the IR's result type; get_type returns that same type without checking")
    typerules.check(ctx, T0(ctx))


def _norm_cmp(n):
    n = peel(n)
    if n.get("k") != "binary" or n["op"] not in ("<", "<=", ">", ">="):
        return None
    l, r, op = show(peel(n["l"])), show(peel(n["r"])), n["op"]
    if op in ("<=", ">"):
        # a <= b  ==  b >= a ;  a > b  ==  b < a
        l, r, op = r, l, {"<=": ">=", ">": "<"}[op]
    return "%s%s%s" % (l, op, r)


def slice_type_rule(ctx):
    """type_check(BVSlice{e,hi,lo}) succeeds only if lo <= hi < width(e): the reader relies on it for range safety of every accepted slice"""
    ctx.rule("R18.6", "TypeCheck for BVSlice rejects hi >= width(e) and hi < lo (exactly these two bounds) before returning BV(hi - lo + 1)")
    f = ctx.fn("patronus", "<patronus::expr::nodes::Expr as patronus::expr::types::TypeCheck>::type_check")
    from ..tables import find_match_on, match_arms, variant_pat, vname
    m = None
    for n in walk(f["body"]):
        if n.get("k") == "match" and n.get("src") == "match" and len(n["arms"]) > 20:
            m = n
            break
    arm = None
    if m is not None:
        for alt, a in match_arms(m):
            vp = variant_pat(alt)
            if vp and vname(vp[0]) == "BVSlice":
                arm = a
    if arm is None:
        ctx.violation("R18.6", "type_check:BVSlice", f["span"], "UNRECOGNISED: no BVSlice arm in type_check")
        return
    # the constraints the arm enforces, extracted as for T4 (if-chains, early rejections and lets are understood there)
    from .. import typerules
    from ..tables import binding_of
    binds = {}
    for alt, a in match_arms(m):
        vp = variant_pat(alt)
        if vp and vname(vp[0]) == "BVSlice" and a is arm:
            for kk, sp in vp[1].items():
                b = binding_of(sp)
                if b:
                    binds[b[1]] = kk
    cons, result, names = typerules.arm_constraints(arm, binds)
    errs = sorted(c[1] for c in cons if c[0] == "reject")
    final_ok = result == ("BV", "((hi-lo)+1)")
    ok = errs == sorted(["hi>=w(e)", "hi<lo"]) and final_ok and ("bv", "e") in cons
    ctx.inst("R18.6", "type_check:BVSlice:bounds", ok, arm["sp"], "type_check(BVSlice) rejects under %s and then returns %s; it must reject exactly hi >= width(e) and hi < lo and return BV(hi - lo + 1): an out-of-range slice would be accepted as well-typed" % (errs, "BV(hi-lo+1)" if final_ok else "?"),
             sample={"rejects_when": errs})
