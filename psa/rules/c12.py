"""C12 - hash-consing tables are append-only, identity is structural, a single entrance interns expressions,
true/false are fixed, reference <-> index is a bijection."""
import os
import subprocess
import shutil
import tempfile
from ..tree import *  # noqa
from .. import norm
from ..flow import Index
from ..flow import Index
from .. import intcast
from .c02 import binding_of_pat

CTX = "patronus::expr::context::Context"
ADD_EXPR = CTX + "::add_expr"
LIT_NEW = "patronus::expr::nodes::BVLitValue::new"
THOROUGH_SCOPE = "all"

EXPLANATION = ("Static who-may-touch / who-may-call analysis of expr::context and expr::nodes (rustc HIR facts over every crate that is built): the interning tables Context.{exprs,strings,values} "
               "are only ever used through an allow-list of non-removing, non-reordering operations; Expr, BVLitValue, ExprRef, StringRef, Type, ArrayType have derived (field-wise) PartialEq/Eq/Hash; "
               "expressions are interned only by Context::add_expr, which is callable only from the builders and update_expr_children, literal values only by bv_lit through the value interner; true/false "
               "references are assigned once in Default::default from one(1)/zero(1) and tested by interner index; reference<->index conversions use the same offset and no intermediate narrower type. "
               "Thorough tier adds compile-fail witnesses that the tables and add_expr are unreachable from outside the crate.")
ASSUMPTIONS = ["indexmap::IndexSet::insert_full returns the existing index for an equal element and never moves entries",
               "baa::ValueInterner::get_index is canonical per (value,width) and pre-seeds small values",
               "more than 2^32-1 interned entries (index wrap-around of the u32 reference) is outside the model: memory-infeasible"]
TRUSTED = ["indexmap::IndexSet", "baa::ValueInterner", "rustc privacy and type checking"]
LEVEL_TEXT = ("Static ownership/effect analysis (who may mutate, construct or call what) over all crates of the workspace: for every finite or infinite sequence of construction calls the tables can only grow "
              "and lookups are structural, which is exactly the canonical-and-stable claim modulo the trusted collections. This is the strongest case for static analysis in this repository: the argument is about all histories, "
              "which no test sequence can enumerate."
              " The builder contract T2 (the node interned is the one asked for, operands and widths in their own fields, trivial cases normalised away; symbol builders included) is part of this check: equal requests must intern equal nodes.")
LEVEL_NOTE = "Trusted base: indexmap::IndexSet and baa::ValueInterner behave as documented; index wrap-around beyond 2^32-1 entries is excluded."
TECHNIQUE = "who-may-access / who-may-call allow-list analysis, derive-provenance check, key-completeness (dependency subset) rule for secondary tables, compile-fail privacy witnesses (thorough)"

# operations on the interning tables that neither remove nor move entries
ALLOWED = {
    "exprs": {"insert_full", "get_index", "len", "is_empty", "iter", "get_index_of", "contains", "get", "capacity", "reserve"},
    "strings": {"insert_full", "get_index", "get_index_of", "len", "is_empty", "iter", "contains", "get", "capacity", "reserve"},
    "values": {"get_index", "words", "is_zero", "is_one"},
}
MUTATING_OK = {"exprs": {"insert_full", "reserve"}, "strings": {"insert_full", "reserve"}, "values": {"get_index"}}


def base_ty(t):
    t = (t or "").strip()
    while t.startswith("&"):
        t = t[1:].strip()
        if t.startswith("mut "):
            t = t[4:].strip()
        if t.startswith("'"):
            t = t.split(" ", 1)[1] if " " in t else t
    return t


def run(ctx):
    ctx.rule("R12.1", "every use of Context.{exprs,strings,values} in any crate is a call of an allow-listed non-removing, non-reordering method (or the field initialisation in Default / derived Clone)")
    ctx.rule("R12.2", "Expr, BVLitValue, ExprRef, StringRef, Type, ArrayType have derived PartialEq, Eq and Hash (all fields take part in interning)")
    ctx.rule("R12.3", "exprs.insert_full is called only by Context::add_expr; add_expr is crate-private and called only by Context builders and update_expr_children; BVLitValue::new only by Context::bv_lit with an index obtained from the value interner; Index<ExprRef> reads immutably")
    ctx.rule("R12.4", "true_expr_ref/false_expr_ref are assigned only in Default::default from one(1)/zero(1) and read by get_true/get_false; is_true/is_false test width 1 and interner index one/zero")
    ctx.rule("R12.5", "reference<->index conversions add and subtract the same offset and cast only between usize and the u32 representation")
    tables(ctx)
    derives(ctx)
    entrance(ctx)
    truefalse(ctx)
    bijection(ctx)
    memo_tables(ctx)
    # "building the same expression (same operator, same operand references, same widths ..) returns the same reference": the node a builder interns
    # must be the one it was asked for (operands and widths in their own fields) and the trivial cases (full slice, extension by 0) must be
    # normalised away, or equal requests intern different nodes - the builder contract shared with C08 / C14
    from .. import builders
    from ..tables import T0
    ctx.rule("T2", "every Context builder constructs the variant(s) its contract names, with parameters in the contracted child positions and attributes computed as contracted; symbol builders carry name and widths in their own fields")
    builders.check_t2(ctx, T0(ctx))
    if ctx.tier == "thorough":
        witnesses(ctx)


def memo_tables(ctx):
    """R12.6: a reference handed out from a secondary table of the context is keyed by everything it depends on"""
    ctx.rule("R12.6", "a Context method that returns a reference read from a field other than the interner tables (a memo table) finds, for every insertion into that field, "
                      "every parameter the stored reference depends on among the parameters the key depends on: a lossy key makes structurally different expressions share a reference")
    c = ctx.facts.lib("patronus")
    interner = set(ALLOWED) | {"true_expr_ref", "false_expr_ref"}
    methods = {p: fl[0] for p, fl in c.fns.items() if p.startswith(CTX + "::") and "{closure" not in p}
    n_reads = 0
    for p, f, fld, bad, n_ins in memo_findings(methods, interner):
        n_reads += 1
        ctx.inst("R12.6", "%s:reads-%s" % (p.split("::")[-1], fld), not bad, f["span"],
                 "%s returns a reference read from Context.%s; %s: two structurally different expressions get the same reference" % (p, fld, "; ".join(bad)),
                 sample={"method": p, "field": fld, "insertions": n_ins})
    ctx.extra["memo_table_reads"] = n_reads


def memo_findings(methods, interner, ref_types=("ExprRef", "StringRef")):
    """[(method path, fn, field, [defects], number of insertions)] for every method that returns a reference read from a non-interner field of self"""
    inserts = {}
    for p, f in methods.items():
        params = {canon(i) for q in f["params"] for _, i in pat_bindings(q)}
        fdefs = local_defs(f)

        def deps(e, depth=0, seen=None, params=params, fdefs=fdefs):
            seen = seen if seen is not None else set()
            out = set()
            for x in walk(e):
                if x.get("k") == "local":
                    i = canon(x["id"])
                    if i in params:
                        out.add(x.get("name"))
                    elif depth < 6 and i not in seen:
                        seen.add(i)
                        init = LET_INITS.get(x["id"]) or LET_INITS.get(i) or simple_let_init(fdefs, x["id"])
                        if init is not None:
                            out |= deps(init, depth + 1, seen)
            return out
        for n in walk(f["body"]):
            if n.get("k") == "mcall" and n["name"] in ("insert", "entry", "insert_full", "push") and n.get("args"):
                fp = field_path(chain(n["recv"])[0])
                if fp and fp[0] == "self" and len(fp[2]) == 1 and fp[2][0] not in interner:
                    key = n["args"][0]
                    val = n["args"][1] if len(n["args"]) > 1 else None
                    inserts.setdefault(fp[2][0], []).append((p, n, deps(key) - {"self"}, (deps(val) - {"self"}) if val is not None else None))
    out = []
    for p, f in sorted(methods.items()):
        ix = Index(f["body"])
        defs = local_defs(f)
        fields = set()
        for cs, leaf in norm.function_results(f, ix):
            leaf = peel(leaf)
            if not any(t in (leaf.get("ty") or "") for t in ref_types):
                continue
            fld = _origin_field(leaf, defs)
            if fld and fld not in interner:
                fields.add(fld)
        for fld in sorted(fields):
            ins = inserts.get(fld, [])
            bad = ["%s stores a reference that depends on {%s} under a key that depends on {%s}" % (ip.split("::")[-1], ", ".join(sorted(dv)), ", ".join(sorted(dk)))
                   for ip, _, dk, dv in ins if dv is not None and not dv <= dk]
            out.append((p, f, fld, bad, len(ins)))
    return out


def _origin_field(leaf, defs, depth=0):
    """the field of self a returned value was read from (through `if let Some(x) = self.f.get(..)`, `match`, lets), or None"""
    leaf = peel(leaf)
    if depth > 6:
        return None
    if leaf.get("k") == "local":
        d = defs.get(leaf["id"]) or defs.get(canon(leaf["id"]))
        if not d:
            return None
        kind, node, pat = d
        src = None
        if kind in ("let", "letexpr") and "init" in node:
            src = node["init"]
        elif kind == "arm":
            src = node["scrut"]
        if src is None:
            return None
        return _origin_field(src, defs, depth + 1)
    b, ms = chain(strip_try(leaf))
    fp = field_path(peel(b))
    if fp and fp[0] == "self" and fp[2]:
        return fp[2][0]
    if peel(b).get("k") == "local" and ms:
        return _origin_field(peel(b), defs, depth + 1)
    if peel(b).get("k") == "index":
        return _origin_field(peel(b)["e"], defs, depth + 1)
    return None


def tables(ctx):
    n_uses = 0
    for c, f in ctx.facts.all_fns():
        for n, parents in walk_parents(f["body"]):
            if n.get("k") != "field" or n["name"] not in ALLOWED:
                continue
            if base_ty(n["e"].get("ty")) != CTX:
                continue
            n_uses += 1
            fld = n["name"]
            par = parents[-1] if parents else None
            where = "%s::%s" % (c.name, f["path"])
            key = "%s:%s#%d" % (f["path"].split("::")[-1], fld, n_uses)
            # receiver of a method call?
            m = None
            p_i = len(parents) - 1
            cur = n
            while p_i >= 0 and parents[p_i].get("k") in ("ref", "unary") and (parents[p_i].get("e") is cur):
                cur = parents[p_i]
                p_i -= 1
            if p_i >= 0 and parents[p_i].get("k") == "mcall" and parents[p_i]["recv"] is cur:
                m = parents[p_i]
            if m is not None:
                ok = m["name"] in ALLOWED[fld]
                mutating = "refmut" in (cur.get("adj") or []) or (cur.get("k") == "ref" and cur.get("mut"))
                if mutating and m["name"] not in MUTATING_OK[fld]:
                    ok = False
                ctx.inst("R12.1", "%s.%s:%s in %s" % ("Context", fld, m["name"], f["path"]), ok, m["sp"],
                         "%s calls `%s` on the interning table Context.%s: entries could be removed, reordered or overwritten, so existing references would change meaning" % (where, m["name"], fld),
                         sample={"fn": f["path"], "use": show(m)[:120]})
                continue
            # struct initialisation in Default / Clone or plain read of the field in a derived impl
            if par is not None and par.get("k") in ("struct",):
                continue
            derived_clone = "as core::clone::Clone>::clone" in f["path"]
            ctx.inst("R12.1", "%s.%s:other-use in %s" % ("Context", fld, f["path"]), derived_clone, n["sp"],
                     "%s uses Context.%s outside a method call (`%s`): the table escapes the allow-listed operations" % (where, fld, show(par)[:120] if par else show(n)))
    ctx.floor("R12.1", "uses of the interning tables", n_uses, 8)
    # no function returns a mutable handle to a table
    for c, f in ctx.facts.all_fns():
        out = f.get("output") or ""
        if "&mut" in out and ("IndexSet" in out or "ValueInterner" in out):
            ctx.violation("R12.1", "mut-handle:%s" % f["path"], f["span"], "%s returns a mutable reference to an interning table: %s" % (f["path"], out))
    # fields private
    c = ctx.facts.lib("patronus")
    adt = c.adts.get(CTX)
    for fl in adt["variants"][0]["fields"]:
        ctx.inst("R12.1", "field-private:%s" % fl["name"], fl["vis"] != "pub" and fl["vis"] != "crate", adt["span"], "Context.%s is visible outside its module (%s)" % (fl["name"], fl["vis"]), nontrivial=fl["name"] in ALLOWED)


def derives(ctx):
    c = ctx.facts.lib("patronus")
    types = ["patronus::expr::nodes::Expr", "patronus::expr::nodes::BVLitValue", "patronus::expr::context::ExprRef", "patronus::expr::context::StringRef",
             "patronus::expr::nodes::Type", "patronus::expr::nodes::ArrayType"]
    for t in types:
        for tr in ("core::cmp::PartialEq", "core::cmp::Eq", "core::hash::Hash"):
            impls = [i for i in c.impls if i["self_ty"] == t and (i["trait"] or "").split("<")[0] == tr]
            ok = len(impls) == 1 and impls[0]["derived"]
            ctx.inst("R12.2", "%s:%s" % (t.split("::")[-1], tr.split("::")[-1]), ok, impls[0]["span"] if impls else None,
                     "%s for %s is %s: a hand-written impl may ignore fields, so structurally different nodes could intern to one reference (or equal ones to two)" % (tr, t, "hand-written" if impls else "missing"),
                     sample={"type": t, "trait": tr, "derived": ok})


def entrance(ctx):
    c = ctx.facts.lib("patronus")
    n_add = 0
    for cr, f in ctx.facts.all_fns():
        for n in walk(f["body"]):
            if n.get("k") == "mcall" and callee(n) == ADD_EXPR or (n.get("k") == "call" and callee(n) == ADD_EXPR):
                n_add += 1
                ok = cr.name == "patronus" and (f["path"].startswith(CTX + "::") or f["path"] == "patronus::expr::transform::update_expr_children" or (cr.is_test and "::tests::" in f["path"]))
                ctx.inst("R12.3", "add_expr-caller:%s" % f["path"], ok, n["sp"], "Context::add_expr is called from %s::%s, outside the builders and update_expr_children" % (cr.name, f["path"]), nontrivial=not ok or n_add <= 5)
            if n.get("k") == "mcall" and n["name"] == "insert_full":
                r = peel(n["recv"])
                if r.get("k") == "field" and r["name"] == "exprs" and base_ty(r["e"].get("ty")) == CTX:
                    ctx.inst("R12.3", "exprs.insert_full in %s" % f["path"], f["path"] == ADD_EXPR, n["sp"], "expressions are interned outside Context::add_expr (%s)" % f["path"])
            if n.get("k") == "call" and callee(n) == LIT_NEW or (n.get("k") == "ctor" and callee(n) == "patronus::expr::nodes::BVLitValue"):
                ok = f["path"] in (CTX + "::bv_lit", LIT_NEW)
                why = "BVLitValue is constructed in %s, outside Context::bv_lit" % f["path"]
                if ok and f["path"] == CTX + "::bv_lit":
                    defs = local_defs(f)
                    a = peel(n["args"][0])
                    init = simple_let_init(defs, a["id"]) if a.get("k") == "local" else a
                    g = strip_try(init) if init is not None else {}
                    r = peel(g.get("recv", {})) if g.get("k") == "mcall" else {}
                    ok = g.get("k") == "mcall" and g["name"] == "get_index" and r.get("k") == "field" and r["name"] == "values"
                    why = "the literal's value index does not come from self.values.get_index(..): `%s` - a hand-made index bypasses canonical interning (equal values get different references beyond one word)" % show(g)
                ctx.inst("R12.3", "BVLitValue::new in %s" % f["path"], ok, n["sp"], why, sample=show(n))
    ctx.floor("R12.3", "add_expr call sites", n_add, 36)
    add = ctx.fn("patronus", ADD_EXPR)
    ctx.inst("R12.3", "add_expr:visibility", add.get("vis") != "pub", add["span"], "Context::add_expr is public: arbitrary (ill-formed) nodes can be interned from outside")
    b = peel(stmts_of(add["body"])[-1])
    # Index<ExprRef>
    idx = ctx.fn("patronus", "<patronus::expr::context::Context as core::ops::index::Index<patronus::expr::context::ExprRef>>::index")
    ms = [n for n in walk(idx["body"]) if n.get("k") == "mcall" and peel(n["recv"]).get("k") == "field" and peel(n["recv"])["name"] == "exprs"]
    ctx.inst("R12.3", "Index<ExprRef>", len(ms) == 1 and ms[0]["name"] == "get_index" and (idx.get("inputs") or [""])[0].startswith("&") and not (idx["inputs"][0].startswith("&mut")), idx["span"], "Index<ExprRef> must read exprs.get_index(..) immutably")
    # no IndexMut
    for i in c.impls:
        if i["self_ty"] == CTX and (i["trait"] or "").startswith("core::ops::index::IndexMut"):
            ctx.violation("R12.3", "IndexMut", i["span"], "Context implements IndexMut: interned nodes can be overwritten in place")


def truefalse(ctx):
    writes = []
    for cr, f in ctx.facts.all_fns():
        for n in walk(f["body"]):
            if n.get("k") == "assign":
                l = peel(n["l"])
                if l.get("k") == "field" and l["name"] in ("true_expr_ref", "false_expr_ref") and base_ty(l["e"].get("ty")) == CTX:
                    writes.append((f, n, l["name"]))
    for f, n, name in writes:
        r = strip_try(n["r"])
        want = "one" if name.startswith("true") else "zero"
        ok = f["path"].endswith("as core::default::Default>::default") and r.get("k") == "mcall" and r["name"] == want and callee(r) == CTX + "::" + want and peel(r["args"][0]).get("v") == 1
        ctx.inst("R12.4", "%s:assign in %s" % (name, f["path"].split("::")[-1]), ok, n["sp"], "%s is assigned `%s` in %s (must be %s(1) in Default::default only)" % (name, show(n["r"]), f["path"], want), sample=show(n))
    ctx.inst("R12.4", "assignments:count", len(writes) == 2, None, "expected exactly two assignments of the cached true/false references, found %d" % len(writes))
    for g, fld in (("get_true", "true_expr_ref"), ("get_false", "false_expr_ref")):
        f = ctx.fn("patronus", CTX + "::" + g)
        b = peel(peel_block(f["body"]))
        ctx.inst("R12.4", g, b.get("k") == "field" and b["name"] == fld, f["span"], "%s must return self.%s: %s" % (g, fld, show(f["body"])))
    for g, pred in (("is_true", "is_one"), ("is_false", "is_zero")):
        f = ctx.fn("patronus", "patronus::expr::nodes::BVLitValue::" + g)
        b = peel(peel_block(f["body"]))
        parts = []

        def conj(x):
            x = peel(x)
            if x.get("k") == "binary" and x["op"] == "&&":
                conj(x["l"])
                conj(x["r"])
            else:
                parts.append(x)
        conj(b)
        def is_self_width(x):
            x = peel(x)
            return x.get("k") == "mcall" and x["name"] == "width" and peel(x["recv"]).get("k") == "local" and peel(x["recv"])["name"] == "self"

        def is_self_0(x):
            fp_ = field_path(x)
            return bool(fp_) and fp_[0] == "self" and [str(y) for y in fp_[2]] == ["0"]
        has_w = any(p.get("k") == "binary" and p["op"] == "==" and ((is_self_width(p["l"]) and peel(p["r"]).get("v") == 1) or (is_self_width(p["r"]) and peel(p["l"]).get("v") == 1)) for p in parts)
        has_p = any(p.get("k") == "mcall" and p["name"] == pred and is_self_0(p["recv"]) for p in parts)
        ctx.inst("R12.4", "BVLitValue::" + g, has_w and has_p and len(parts) == 2, f["span"], "BVLitValue::%s must be `self.width() == 1 && self.0.%s()`: %s" % (g, pred, show(f["body"])), sample=show(f["body"]))


def bijection(ctx):
    fns = {
        "StringRef::from_index": "patronus::expr::context::StringRef::from_index",
        "StringRef::index": "patronus::expr::context::StringRef::index",
        "usize::from(ExprRef)": "<usize as core::convert::From<patronus::expr::context::ExprRef>>::from",
        "ExprRef::from(usize)": "<patronus::expr::context::ExprRef as core::convert::From<usize>>::from",
    }
    offs = {}
    for tag, path in fns.items():
        f = ctx.fn("patronus", path)
        casts = [n for n in walk(f["body"]) if n.get("k") == "cast"]
        okc = len(casts) >= 1 and all({c_["from"], c_["ty"]} <= {"usize", "u32"} for c_ in casts)
        ctx.inst("R12.5", "%s:cast-types" % tag, okc, f["span"], "%s converts through %s: an intermediate type narrower than the u32 representation makes distinct indices share one reference" % (
            tag, [(c_["from"], c_["ty"]) for c_ in casts]), sample=[(c_["from"], c_["ty"]) for c_ in casts])
        ops = [n for n in walk(f["body"]) if n.get("k") == "binary" and n["op"] in ("+", "-") and peel(n["r"]).get("k") == "lit"]
        offs[tag] = [(o["op"], peel(o["r"])["v"]) for o in ops]
    ok = offs["StringRef::from_index"] == [("+", 1)] and offs["StringRef::index"] == [("-", 1)] and offs["ExprRef::from(usize)"] == [("+", 1)] and offs["usize::from(ExprRef)"] == [("-", 1)]
    ctx.inst("R12.5", "offsets", ok, None, "index->reference must add and reference->index subtract the same offset 1: %s" % offs, sample=offs)


WITNESS = [
    ("exprs-field-private", "E0616", "let ctx = patronus::expr::Context::default(); let _n = ctx.exprs.len();", "let ctx = patronus::expr::Context::default(); let _n = ctx.get_true();"),
    ("strings-field-private", "E0616", "let ctx = patronus::expr::Context::default(); let _n = ctx.strings.len();", "let ctx = patronus::expr::Context::default(); let _n = ctx.get_false();"),
    ("values-field-private", "E0616", "let ctx = patronus::expr::Context::default(); let _v = &ctx.values;", "let ctx = patronus::expr::Context::default(); let _v = &ctx;"),
    ("add_expr-private", "E0624", "let mut ctx = patronus::expr::Context::default(); let t = ctx.get_true(); let _e = ctx.add_expr(patronus::expr::Expr::BVNot(t, 1));", "let mut ctx = patronus::expr::Context::default(); let t = ctx.get_true(); let _e = ctx.not(t);"),
    ("exprref-field-private", "E0616", "let ctx = patronus::expr::Context::default(); let t = ctx.get_true(); let _x = t.0;", "let ctx = patronus::expr::Context::default(); let t = ctx.get_true(); let _x: usize = t.into();"),
]


def witnesses(ctx):
    """compile-fail witnesses: each bad program must fail with the expected error code while its twin compiles"""
    from .. import facts as F
    d = tempfile.mkdtemp(prefix="psa-wit-")
    try:
        os.makedirs(d + "/src/bin")
        open(d + "/Cargo.toml", "w").write('[package]\nname = "psa-witness"\nversion = "0.0.0"\nedition = "2024"\n[dependencies]\npatronus = { path = "%s/patronus" }\n[workspace]\n' % F.REPO)
        shutil.copy(os.path.join(F.REPO, "Cargo.lock"), d + "/Cargo.lock")
        for name, code, bad, good in WITNESS:
            open(d + "/src/bin/bad_%s.rs" % name.replace("-", "_"), "w").write("fn main() { %s }\n" % bad)
            open(d + "/src/bin/good_%s.rs" % name.replace("-", "_"), "w").write("fn main() { %s }\n" % good)
        env = dict(os.environ)
        env["CARGO_TARGET_DIR"] = os.path.join(F.BUILD, "target-witness")
        env["CARGO_NET_OFFLINE"] = "true"
        for name, code, bad, good in WITNESS:
            b = name.replace("-", "_")
            rg = subprocess.run(["cargo", "check", "--offline", "--bin", "good_" + b], cwd=d, env=env, stdout=subprocess.PIPE, stderr=subprocess.STDOUT, text=True)
            rb = subprocess.run(["cargo", "check", "--offline", "--bin", "bad_" + b], cwd=d, env=env, stdout=subprocess.PIPE, stderr=subprocess.STDOUT, text=True)
            ok = rg.returncode == 0 and rb.returncode != 0 and ("error[%s]" % code) in rb.stdout
            ctx.inst("R12.E4", "witness:" + name, ok, None,
                     "compile-fail witness `%s`: twin compiles=%s, bad program rejected=%s with %s=%s - the interning internals are reachable from outside the crate" % (name, rg.returncode == 0, rb.returncode != 0, code, ("error[%s]" % code) in rb.stdout),
                     sample={"bad": bad, "expected_error": code})
    finally:
        shutil.rmtree(d, ignore_errors=True)
