"""C15 - solver faults surface as errors: end-of-stream exits of read loops, Result discipline, unknown is never
unsat, PDR verdict provenance, error-text extraction, abort inventory on the response path."""
from ..tree import *  # noqa
from .. import norm as psanorm
from ..flow import Index
from .. import callgraph, panics
from .c02 import binding_of_pat, mname, BMC, FAIL, SUCCESS
from . import c14

SOLVER = "patronus::smt::solver::"
CTXT = SOLVER + "SmtLibSolverCtx::"
RESP = SOLVER + "CheckSatResponse::"
PDR = "patronus::mc::pdr::"

EXPLANATION = ("Static error-discipline analysis of smt::solver and the model checkers (rustc HIR facts, call graph): every loop that reads solver output line by line leaves the loop when the stream ends; every call whose type "
               "is Result<_, smt::Error> or io::Result in mc::{bmc,pdr,utils,encoding} and smt::solver is propagated, matched or returned (never dropped, unwrapped or tested-and-forgotten, one allow-listed shutdown site); the process "
               "backend maps only `sat`/`unsat` to verdicts and anything else to an error, no SolverContext in the workspace fabricates Unknown, and in PDR - which states the belief that Unknown can occur - no branch lumps "
               "Unknown with Unsat; PDR's Success/Fail/Unknown provenance; the solver's error text is extracted with length-safe idioms on the tested prefix; explicit abort sites on the response path are on a reviewed allow-list.")
ASSUMPTIONS = ["a live but silent solver blocks read_line on the pipe: bounded time cannot be decided statically", "process-exit races between try_wait and the pipe are not decided"]
LEVEL_TEXT = ("Static error-discipline / must-exit analysis over every response-bearing call site of a BMC or PDR run at once (no solver, no fault injection needed): decides that a fault is turned into an error on every path, "
              "that unknown/garbage can never become a verdict, and that a truncated stream cannot spin the reader. Liveness against a silent but alive solver is outside static reach."
              " The loop that completes a reply is controlled only by the parenthesis count and the byte count of the last read.")
LEVEL_NOTE = "Decides error propagation and loop exits structurally; 'within bounded time' for a live silent solver is not decidable statically."
TECHNIQUE = "Result-consumption dataflow rule, loop must-exit-on-EOF rule, discriminant-domain enumeration of CheckSatResponse branches, length-safe-slicing rule, panic-site inventory"


def run(ctx):
    ctx.rule("R15.1", "every loop in smt::solver that calls BufRead::read_line uses the returned byte count to leave the loop at end of stream")
    ctx.rule("R15.2", "every Result<_, smt::Error | io::Error> produced by a call in mc::{bmc,pdr,utils,encoding} and smt::solver is consumed by ?, a match/if-let on it, or is the function's result (allow-list: the shutdown write in shut_down_solver)")
    ctx.rule("R15.3", "read_sat_response maps exactly \"sat\"->Sat, \"unsat\"->Unsat, anything else->Err; no workspace code fabricates CheckSatResponse::Unknown; in mc::pdr no branch on a CheckSatResponse lumps Unknown with Unsat; in bmc the same holds or Unknown cannot occur")
    ctx.rule("R15.4", "pdr returns Success only under propagate_blocked_cubes(..)? == true, Fail only with bmc's witness, and turns Unknown answers into errors at the documented sites")
    ctx.rule("R15.5", "the solver's error message is cut out of the response with length-safe idioms (strip_prefix of the tested literal / strip_suffix), never by index arithmetic on the string length")
    ctx.rule("R15.6", "explicit abort sites in smt::solver reachable from the response-bearing methods are on the reviewed allow-list")
    c = ctx.facts.lib("patronus")
    eof(ctx, c)
    results(ctx, c)
    unknown(ctx, c)
    pdr_verdicts(ctx)
    error_text(ctx)
    balanced_before_read(ctx)
    aborts(ctx)


def eof(ctx, c):
    n = 0
    for path, fl in c.fns.items():
        if not path.startswith("patronus::smt::solver::"):
            continue
        for f in fl:
            ix = Index(f["body"])
            per = 0
            for x in ix.nodes:
                if x.get("k") == "mcall" and x["name"] == "read_line":
                    loop = ix.enclosing(x, ("while", "loop", "for"))
                    if loop is None:
                        continue
                    n += 1
                    per += 1
                    ok, why = count_used_to_exit(x, ix, loop)
                    ctx.inst("R15.1", "%s:read_line-in-loop#%d" % (path.split("::")[-1], per), ok, x["sp"],
                             "%s reads solver output in a loop and %s: when the solver dies after an unbalanced reply, read_line keeps returning Ok(0) and the loop never ends" % (path, why),
                             sample={"fn": path, "call": show(x)[:80], "exit": why})
    ctx.floor("R15.1", "read_line calls inside loops in smt::solver", n, 1)


def count_used_to_exit(x, ix, loop):
    p = ix.parent.get(id(x))
    if p is None or p.get("k") != "try":
        return False, "does not even propagate the I/O error"
    pp = ix.parent.get(id(p))
    # direct comparison `read_line(..)? == 0`
    val_node = p
    cmp_ = None
    if pp is not None and pp.get("k") == "binary" and pp["op"] in ("==", "!=", ">", "<", "<=", ">="):
        cmp_ = pp
    elif pp is not None and pp.get("k") == "let":
        b = binding_of_pat(pp["pat"])
        if b:
            for y in ix.nodes:
                if y.get("k") == "binary" and y["op"] in ("==", "!=", ">", "<", "<=", ">=") and (is_local(y["l"], b[1]) or is_local(y["r"], b[1])) and contains(loop, y):
                    cmp_ = y
    if cmp_ is None:
        return False, "discards the returned byte count"
    other = cmp_["r"] if (cmp_["l"] is val_node or is_local(cmp_["l"])) else cmp_["l"]
    if not (peel(other).get("k") == "lit" and peel(other).get("v") in (0, 1)):
        return False, "does not compare the byte count with 0"
    # the comparison must control an exit from the loop: an `if` whose branch breaks/returns, or the loop condition itself
    for a in ix.ancestors(cmp_):
        if a is loop:
            if loop.get("k") == "while" and contains(loop["cond"], cmp_):
                return True, "the byte count is part of the loop condition"
            break
        if a.get("k") == "if" and contains(a["cond"], cmp_):
            outer_inl = {b_.get("inl_id") for b_ in ix.ancestors(loop) if b_.get("k") == "blockexpr" and "inl_id" in b_}

            def leaves_loop(y):
                # `return` of an inlined helper leaves the helper's block; it leaves the loop when that block encloses the loop
                return y.get("k") in ("break", "return") or (y.get("k") == "ireturn" and y.get("inl") in outer_inl)
            exits = [y for y in walk(a["then"]) if leaves_loop(y)] + ([y for y in walk(a["else"]) if leaves_loop(y)] if "else" in a else [])
            tries = [y for y in walk(a) if y.get("k") == "try"]
            if exits:
                return True, "leaves the loop when the byte count is 0"
    return False, "compares the byte count but never leaves the loop on it"


SCOPE = ("patronus::mc::bmc::", "patronus::mc::pdr::", "patronus::mc::utils::", "patronus::mc::encoding::", "patronus::smt::solver::", "<patronus::smt::solver::SmtLibSolverCtx as ", "<patronus::mc::encoding::UnrollSmtEncoding as ")
RESULT_ALLOW = {
    "shut_down_solver:wait:expect": "waiting for our own child after a successful `exit`; a failure is an OS-level invariant violation and aborts loudly rather than being swallowed",
    "shut_down_solver:write_cmd:is_ok": "best-effort `exit` during shutdown/Drop: the solver may already be dead, the outcome only decides whether to wait for the child",
}


def is_solver_result(t):
    t = t or ""
    return t.startswith("core::result::Result<") and ("patronus::smt::solver::Error" in t or "std::io::error::Error" in t or "patronus::smt::parser::SmtParserError" in t)


def results(ctx, c):
    n = 0
    for path, fl in c.fns.items():
        if not path.startswith(SCOPE):
            continue
        for f in fl:
            per = {}
            for x, parents in walk_parents(f["body"]):
                if x.get("k") not in ("call", "mcall", "callv") or not is_solver_result(x.get("ty")):
                    continue
                if x.get("k") == "ctor":
                    continue
                cal = (callee(x) or show(x.get("f", {}))).split("::")[-1]
                n += 1
                per[cal] = per.get(cal, 0) + 1
                how, ok = consumption(x, parents, f)
                key = "%s:%s:%s" % (path.split("::")[-1], cal, how)
                if not ok and key in RESULT_ALLOW:
                    ok = True
                ctx.inst("R15.2", "%s#%d" % (key, per[cal]), ok, x["sp"],
                         "%s: the Result of `%s` is %s: a solver/IO fault at this point is swallowed and the run continues as if the command had succeeded" % (path, show(x)[:80], how),
                         sample={"fn": path, "call": show(x)[:60], "consumed_by": how}, nontrivial=True)
    ctx.floor("R15.2", "Result-typed solver calls", n, 60)
    ctx.extra["result_call_sites"] = n


def consumption(x, parents, f):
    """how the Result value of call x is consumed -> (description, acceptable)"""
    cur = x
    for p in reversed(parents):
        k = p.get("k")
        if k == "try" and p["e"] is cur:
            return "?", True
        if k == "blockexpr" and p["b"] is cur:
            cur = p
            continue
        if k in ("blockexpr", "block"):
            b = p["b"] if k == "blockexpr" else p
            if b.get("tail") is cur:
                cur = p
                continue
            return "dropped (statement)", False
        if k == "semi":
            return "dropped (statement)", False
        if k == "let":
            pat = p["pat"]
            if pat.get("k") == "pwild":
                return "dropped (let _)", False
            b = binding_of_pat(pat)
            if b:
                uses = [y for y in walk(f["body"]) if y.get("k") == "local" and y["id"] == b[1]]
                return ("bound to `%s` (%d uses)" % (b[0], len(uses)), len(uses) > 0)
            return "destructured", True
        if k == "match" and p["scrut"] is cur:
            return "match", True
        if k == "letexpr" and p["init"] is cur:
            return "if-let", True
        if k == "mcall" and p["recv"] is cur:
            if p["name"] in ("ok", "unwrap_or", "unwrap_or_default", "unwrap_or_else", "is_ok", "is_err", "unwrap", "expect", "err", "is_ok_and", "iter"):
                return p["name"], False
            if p["name"] in ("map", "map_err", "and_then", "or_else", "context"):
                cur = p
                continue
            return "method " + p["name"], True
        if k == "return":
            return "returned", True
        if k in ("if",) and (p.get("then") is cur or p.get("else") is cur):
            cur = p
            continue
        if k == "match":
            cur = p
            continue
        if k == "closure":
            return "closure result", True
        if k in ("call", "mcall", "callv", "ctor"):
            if k == "call" and (callee(p) or "").endswith("mem::drop"):
                return "drop()", False
            return "argument", True
        if k in ("ref", "cast", "tuple", "struct", "unary"):
            cur = p
            continue
        return k, True
    return "function result", True


def unknown(ctx, c):
    f = ctx.fn("patronus", CTXT + "read_sat_response")
    # the dispatch on the trimmed reply: a match over string literals or a chain of `if answer == ".." { return .. }`
    fdefs = local_defs(f)
    subj = [i_ for i_, d in fdefs.items() if d[0] == "let" and "init" in d[1] and d[2].get("k") == "pbind"
            and [m_[0] for m_ in chain(d[1]["init"])[1]] == ["trim"] and field_path(chain(d[1]["init"])[0]) and field_path(chain(d[1]["init"])[0])[2] == ["response"]]

    def res_of(branch):
        b = psanorm.result_value(branch)
        if b.get("k") == "def" and "::CheckSatResponse::" in (b.get("path") or ""):
            # result_value looks through Ok(..): only accept when the branch really yields Ok(<variant>)
            return "Ok(%s)" % b["path"].split("::")[-1]
        if b.get("k") == "ctor" and callee(b).endswith("Result::Err"):
            return "Err"
        return None
    table = {}
    m = None
    for n in walk(f["body"]):
        if n.get("k") == "match" and any(alt.get("k") == "plit" and alt.get("lk") == "str" for a in n["arms"] for alt in pat_alts(a["pat"])):
            m = n
    if m is not None:
        for a in m["arms"]:
            for alt in pat_alts(a["pat"]):
                table[alt.get("v") if alt.get("k") == "plit" else "_"] = res_of(a["body"]) if "guard" not in a else None
    elif len(subj) == 1:
        for lit, branch in psanorm.literal_dispatch(f["body"], subj[0]).items():
            table[lit] = res_of(branch)
        table["_"] = res_of(f["body"])
        if table["_"] is None:
            # an if / else-if chain: the leaf reached when every comparison with a literal failed
            from ..flow import Index as _Ix
            dflt = []
            for cs_, leaf in psanorm.result_table(_Ix(f["body"]), f["body"], unwrap=()):
                lits_ok = True
                for c_, pol in cs_:
                    c_ = resolve(c_) if c_.get("k") not in ("armpat", "letexpr") else c_
                    is_cmp = c_.get("k") == "binary" and c_["op"] == "==" and any(is_local(a_, subj[0]) and peel(b_).get("k") == "lit" for a_, b_ in ((c_["l"], c_["r"]), (c_["r"], c_["l"])))
                    if not is_cmp or pol:
                        lits_ok = False
                if lits_ok and cs_:
                    dflt.append(res_of(leaf))
            if dflt and all(d_ == dflt[0] for d_ in dflt):
                table["_"] = dflt[0]
    ctx.inst("R15.3", "read_sat_response:table", table == {"sat": "Ok(Sat)", "unsat": "Ok(Unsat)", "_": "Err"}, f["span"],
             "read_sat_response must map exactly \"sat\"->Sat, \"unsat\"->Unsat and everything else (unknown, garbage, empty) to an error: %s" % table, sample=table)
    # (A) nobody fabricates Unknown
    fabricated = []
    for cr, g in ctx.facts.all_fns(include_tests=False):
        if g["path"].startswith("<patronus::smt::solver::CheckSatResponse as "):
            continue  # derived Clone/Debug/PartialEq
        for n, parents in walk_parents(g["body"]):
            if n.get("k") == "def" and n.get("path") == RESP + "Unknown":
                par = [q for q in parents if q.get("k") not in ("ref", "unary", "blockexpr")]
                if par and par[-1].get("k") == "binary" and par[-1]["op"] in ("==", "!="):
                    continue  # a comparison against Unknown discriminates, it does not produce
                fabricated.append((g["path"], n["sp"]))
    A = (not fabricated) and table.get("_") == "Err" and "unknown" not in table
    ctx.extra["unknown_fabricated_at"] = fabricated
    # (B) per function
    for path, required in ((BMC, False), ("pdr", True)):
        fns_ = [(p, fl[0]) for p, fl in c.fns.items() if (p == path if path == BMC else p.startswith(PDR))]
        for p, g in fns_:
            lumps = lumping_sites(g)
            for i, (n, why) in enumerate(lumps):
                ok = (A and not required)
                ctx.inst("R15.3", "%s:branch#%d" % (p.split("::")[-1], i + 1), ok, n["sp"],
                         "%s: `%s` %s%s" % (p, show(n)[:80], why, "" if required else "; and CheckSatResponse::Unknown can be produced (%s)" % ("read_sat_response" if "unknown" in table or table.get("_") != "Err" else fabricated[:2])),
                         sample={"fn": p, "test": show(n)[:60]})
    if A:
        ctx.note("R15.3 holds through clause (A): no code in the workspace produces CheckSatResponse::Unknown; bmc's `== Sat` tests would lump Unknown with Unsat if it could occur")
    ctx.inst("R15.3", "unknown-not-fabricated-or-discriminated", True, None, "", sample={"clause_A": A, "fabrication_sites": fabricated}, nontrivial=False)


def resp_test(n):
    """`X == CheckSatResponse::V` -> (lhs node, op, V)"""
    if n.get("k") == "binary" and n["op"] in ("==", "!="):
        l, r = peel(n["l"]), peel(n["r"])
        for a, b in ((l, r), (r, l)):
            if b.get("k") == "def" and (b.get("path") or "").startswith(RESP):
                return a, n["op"], b["path"].split("::")[-1]
    return None


def lumping_sites(g):
    """tests / matches that put Unknown on the same side as Unsat without an earlier exclusion of Unknown on the same value"""
    ix = Index(g["body"])
    out = []
    for n in ix.nodes:
        t = resp_test(n)
        if t is not None:
            lhs, op, v = t
            # {==Sat: else has Unsat+Unknown}; {!=Sat: then has both}; {==Unsat: fine}; {!=Unsat: fine}; {==Unknown / !=Unknown: discriminates}
            if v == "Sat":
                if not excluded_before(n, lhs, ix) and not else_discriminates(n, lhs, op, ix):
                    out.append((n, "treats every answer other than Sat alike: Unknown is lumped with Unsat"))
        if n.get("k") == "match" and n.get("src") == "match":
            # match over a CheckSatResponse (possibly first tuple element)
            kinds = []
            for arm in n["arms"]:
                for alt in pat_alts(arm["pat"]):
                    p = alt
                    if p.get("k") == "ptuple" and p["subs"]:
                        p = p["subs"][0]
                    if p.get("k") == "pvariant" and (p.get("path") or "").startswith(RESP):
                        kinds.append((p["path"].split("::")[-1], arm))
                    elif p.get("k") in ("pwild", "pbind") and any(k for k, _ in kinds):
                        kinds.append(("_", arm))
            names = [k for k, _ in kinds]
            if names and "Unknown" not in names and "_" in names and "Unsat" not in names:
                out.append((n, "has a catch-all arm that handles Unsat and Unknown alike"))
    return out


def else_discriminates(n, lhs, op, ix):
    """`if x == Sat {..} else if x == Unsat .. {..} else {..}`: the non-Sat side tests the same value again"""
    if op != "==":
        return False
    the_if = None
    for a in ix.ancestors(n):
        if a.get("k") == "if" and peel(a["cond"]) is n:
            the_if = a
            break
        if a.get("k") not in ("blockexpr", "ref", "unary"):
            break
    if the_if is None or "else" not in the_if:
        return False
    s_ = show(lhs)
    for y in walk(the_if["else"]):
        t = resp_test(y)
        if t and show(t[0]) == s_ and t[2] in ("Unsat", "Unknown"):
            return True
    return False


def excluded_before(n, lhs, ix):
    """is n inside the else-branch of (or after a diverging) `lhs == Unknown` test on the same place?"""
    s_ = show(lhs)
    for a in ix.ancestors(n):
        if a.get("k") == "if":
            t = resp_test(peel(a["cond"]))
            if t and show(t[0]) == s_ and t[2] == "Unknown":
                if (t[1] == "==" and "else" in a and contains(a["else"], n)) or (t[1] == "!=" and contains(a["then"], n)):
                    return True
        if a.get("k") == "match":
            sc = show(peel(a["scrut"]))
            if not (s_ == sc or s_ == sc + ".0" or s_.startswith(sc + ".")):
                continue  # the match pins a different value
            for arm in a["arms"]:
                if contains(arm["body"], n):
                    # inside an arm whose pattern pins the response to a specific variant
                    for alt in pat_alts(arm["pat"]):
                        p = alt["subs"][0] if alt.get("k") == "ptuple" and alt["subs"] else alt
                        if p.get("k") == "pvariant" and (p.get("path") or "").startswith(RESP):
                            return True
    return False


def pdr_verdicts(ctx):
    f = ctx.fn("patronus", PDR + "pdr")
    ix = Index(f["body"])
    succ = [n for n in ix.nodes if n.get("k") == "def" and n.get("path") == SUCCESS]
    for i, s_ in enumerate(succ):
        ok = False
        for a in ix.ancestors(s_):
            if a.get("k") == "if" and contains(a["then"], s_):
                c = strip_try(a["cond"])
                ok = c.get("k") == "mcall" and c["name"] == "propagate_blocked_cubes" and peel(a["cond"]).get("k") == "try"
                break
        ctx.inst("R15.4", "pdr:Success#%d" % (i + 1), ok, s_["sp"], "pdr must return Success only under `state.propagate_blocked_cubes(..)?` being true (errors propagated by ?)")
    ctx.inst("R15.4", "pdr:Success:count", len(succ) == 1, f["span"], "expected one Success site in pdr, found %d" % len(succ))
    unk = [n for n in ix.nodes if n.get("k") == "def" and n.get("path") == "patronus::mc::types::ModelCheckResult::Unknown"]
    ok = len(unk) == 1 and not [k for k in ix.region_kinds(unk[0]) if k in ("loop", "then", "else", "arm")]
    if not ok and len(unk) == 1:
        # inside the frame loop: only under a comparison of the frontier with the limit (`if state.frontier() > limit { return Ok(Unknown) }`)
        for cnd, pol in psanorm.path_conditions(ix, unk[0]):
            if cnd.get("k") == "binary" and cnd["op"] in ("<", "<=", ">", ">="):
                sides = [resolve(peel(cnd["l"])), resolve(peel(cnd["r"]))]
                if any(x.get("k") == "mcall" and x["name"] == "frontier" for s_ in sides for x in walk(s_)):
                    ok = True
    ctx.inst("R15.4", "pdr:Unknown-only-after-frame-limit", ok, f["span"], "pdr may answer Unknown only after the frame limit loop has ended")
    # documented Unknown -> Err sites
    c = ctx.facts.lib("patronus")
    n_err = 0
    for p, fl in c.fns.items():
        if not p.startswith(PDR):
            continue
        g = fl[0]
        gx = Index(g["body"])
        for n in gx.nodes:
            if n.get("k") == "match":
                for arm in n["arms"]:
                    alts_ = pat_alts(arm["pat"])
                    qs = [(alt["subs"][0] if alt.get("k") == "ptuple" and alt["subs"] else alt) for alt in alts_]
                    if not any(q.get("k") == "pvariant" and q.get("path") == RESP + "Unknown" for q in qs):
                        continue
                    if not all(q.get("k") == "pvariant" and q.get("path") == RESP + "Unknown" for q in qs):
                        # an arm that takes Unknown together with other answers: harmless only when the answer itself is handed on to the caller
                        # (who discriminates it), e.g. `query` computing the cube to return next to the response
                        sc = peel(n["scrut"])
                        sc = peel(sc["es"][0]) if sc.get("k") == "tuple" and sc["es"] else sc
                        handed_on = False
                        if sc.get("k") == "local":
                            for cs_, leaf in psanorm.function_results(g, gx):
                                if any(x.get("k") == "local" and canon(x["id"]) == canon(sc["id"]) for x in walk(leaf)):
                                    handed_on = True
                        if handed_on:
                            continue
                        alts_ = [a_ for a_, q in zip(alts_, qs) if q.get("k") == "pvariant" and q.get("path") == RESP + "Unknown"]
                    for alt in alts_[:1]:
                        q = alt["subs"][0] if alt.get("k") == "ptuple" and alt["subs"] else alt
                        if q.get("k") == "pvariant" and q.get("path") == RESP + "Unknown":
                            b = peel(peel_block(arm["body"]))
                            is_err = any(y.get("k") == "ctor" and callee(y).endswith("Result::Err") for y in walk(arm["body"]))
                            n_err += 1
                            ctx.inst("R15.4", "%s:Unknown-arm#%d" % (p.split("::")[-1], n_err), is_err, arm["sp"], "%s: an Unknown answer must be turned into an error: %s" % (p, show(arm["body"])[:100]))
            if n.get("k") == "if":
                t = resp_test(peel(n["cond"]))
                if t and t[2] == "Unknown" and t[1] == "==":
                    is_err = any(y.get("k") == "ctor" and callee(y).endswith("Result::Err") for y in walk(n["then"]))
                    n_err += 1
                    ctx.inst("R15.4", "%s:Unknown-test#%d" % (p.split("::")[-1], n_err), is_err, n["sp"], "%s: an Unknown answer must be turned into an error" % p)
    ctx.floor("R15.4", "Unknown -> Err sites in pdr", n_err, 3)


def balanced_before_read(ctx):
    """R15.7: a reply is interpreted only once it is complete: whether the balancing loop of read_response goes on may depend on the parenthesis
    count and on the byte count of the last read, never on what the text says so far (a multi-line `(error ..)` would be cut after its first line
    and the rest would be taken for the answer to the next command)"""
    ctx.rule("R15.7", "the loop of read_response that reads until the parentheses balance is controlled only by count_parens / the byte count of read_line, not by the content of the partial reply")
    f = ctx.fn("patronus", CTXT + "read_response")
    ix = Index(f["body"])
    TEXT_TESTS = ("starts_with", "ends_with", "contains", "strip_prefix", "strip_suffix", "find", "rfind", "eq", "eq_ignore_ascii_case", "matches")
    n = 0
    for lp in [x for x in ix.nodes if x.get("k") in ("while", "loop")]:
        if not any(y.get("k") == "call" and (callee(y) or "").endswith("count_parens") for y in walk(lp.get("cond", lp["body"]) if lp["k"] == "while" else lp["body"])):
            continue
        conds = [lp["cond"]] if lp["k"] == "while" else []
        for y in walk(lp["body"]):
            if y.get("k") == "if" and any(z.get("k") == "break" for z in walk(y["then"])) and ix.enclosing(y, ("while", "loop", "for")) is lp:
                conds.append(y["cond"])
        n += 1
        bad = []
        for c0 in conds:
            seen, work = set(), [c0]
            while work:
                e = work.pop()
                for z in walk(e):
                    if z.get("k") == "local" and z["id"] not in seen and z["id"] in LET_INITS:
                        seen.add(z["id"])
                        work.append(LET_INITS[z["id"]])
                    if z.get("k") == "mcall" and z["name"] in TEXT_TESTS:
                        b_, _ = chain(z["recv"])
                        fp = field_path(b_)
                        if fp and fp[0] == "self" and fp[2] == ["response"]:
                            bad.append(z)
        ctx.inst("R15.7", "read_response:balancing-loop#%d" % n, not bad, lp["sp"],
                 "the loop that completes the reply is also controlled by `%s`, a test of what the partial reply says: a reply that spans several lines is cut short and its remainder is left in the pipe for the next command" % (show(bad[0])[:80] if bad else ""),
                 sample={"conditions": [show(c_)[:80] for c_ in conds]})
    ctx.floor("R15.7", "balancing loops in read_response", n, 1)


def error_text(ctx):
    f = ctx.fn("patronus", CTXT + "read_response")
    ix = Index(f["body"])
    # any range indexing of a str
    n_idx = 0
    for n in ix.nodes:
        if n.get("k") == "index" and (n["e"].get("ty") or n["e"].get("aty") or "").replace("&", "").strip() in ("str", "alloc::string::String"):
            n_idx += 1
            ctx.inst("R15.5", "read_response:str-index#%d" % n_idx, False, n["sp"],
                     "read_response slices the solver's reply by computed byte positions `%s`: the bounds are not related to the reply's length by any dominating guard - short messages abort, every message is mangled" % show(n)[:100])
        if n.get("k") == "mcall" and n["name"] in ("split_at", "split_at_mut", "split_off", "truncate", "drain", "remove") and "str" in (n["recv"].get("aty") or n["recv"].get("ty") or "").lower():
            n_idx += 1
            ctx.inst("R15.5", "read_response:%s#%d" % (n["name"], n_idx), False, n["sp"], "read_response cuts the reply with `%s` at an unchecked position" % n["name"])
    # the error branch: tested literal and stripped literal agree
    tests = [n for n in ix.nodes if n.get("k") == "mcall" and n["name"] in ("starts_with", "strip_prefix") and n["args"] and peel(n["args"][0]).get("lk") == "str" and peel(n["args"][0])["v"].startswith("(error")]
    errs = [n for n in ix.nodes if n.get("k") == "ctor" and callee(n) == SOLVER + "Error::FromSolver"]
    ok = len(tests) >= 1 and len(errs) >= 1
    why = "no `(error` prefix test / no FromSolver construction"
    if ok:
        lits = {peel(n["args"][0])["v"] for n in tests}
        strips = [n for n in ix.nodes if n.get("k") == "mcall" and n["name"] == "strip_prefix"]
        ok = len(lits) == 1 or all(l.strip() == "(error" for l in lits)
        why = "the tested and the stripped prefix differ: %s" % sorted(lits)
        # message provenance: first FromSolver in the error branch takes a string derived from the response via strip_* / trim
        e0 = errs[0]
        defs = local_defs(f)
        names = []
        sources = []

        def prov(e, depth=0):
            """collect the methods applied on the way from the reply to e, and the sources reached"""
            if depth > 12:
                sources.append("?")
                return
            oe = psanorm.opt_elim(e)
            if oe is not None and oe["none"] is not None:
                # unwrap_or / match { Some(x) => x, None => d }: both alternatives
                prov(oe["scrut"], depth + 1)
                names.append("unwrap_or")
                prov(oe["none"], depth + 1)
                if oe["some"] is not None and not (oe["bind"] is not None and is_local(psanorm.tail_value(oe["some"]), oe["bind"])):
                    prov(oe["some"], depth + 1)      # `Some(inner) => inner.trim()`: what is done to the payload counts as well
                return
            e = psanorm.tail_value(e)
            if peel(e).get("k") == "blockexpr":
                blk = peel(e)["b"]
                if "tail" in blk:
                    prov(blk["tail"], depth + 1)
                    return
            b, ms = chain(e)
            for m_ in ms:
                cl = resolve(m_[1][0]) if len(m_[1]) == 1 else {}
                if m_[0] in ("map", "and_then") and cl.get("k") == "closure" and len(cl.get("params", [])) == 1:
                    # `reply.strip_prefix(..).map(|rest| ..)`: the value is the closure's, whose parameter stands for the receiver
                    prov(cl["body"], depth + 1)
                    continue
                names.append(m_[0])
                for a_ in m_[1]:
                    if peel(a_).get("k") not in ("lit",):
                        prov(a_, depth + 1)
            b = peel(b)
            if b.get("k") == "local":
                d = defs.get(b["id"]) or defs.get(canon(b["id"]))
                if d and d[0] in ("let", "letexpr") and "init" in d[1]:
                    prov(d[1]["init"], depth + 1)
                elif d and d[0] == "arm":
                    prov(d[1]["scrut"], depth + 1)
                elif d and d[0] == "closure":
                    par = ix.parent.get(id(d[1]))
                    while par is not None and par.get("k") == "ref":
                        par = ix.parent.get(id(par))
                    if par is not None and par.get("k") == "mcall":
                        prov(par["recv"], depth + 1)
                    else:
                        sources.append("?" + b["name"])
                else:
                    sources.append("?" + b["name"])
            elif b.get("k") == "field":
                fp = field_path(b)
                sources.append(".".join(fp[2]) if fp and fp[0] == "self" else "?")
            elif b.get("k") == "lit":
                pass
            else:
                sources.append("?" + str(b.get("k")))
        prov(e0["args"][1])
        derived = bool(sources) and all(s_ == "response" for s_ in sources)
        okm = derived and all(nm in ("trim", "trim_start", "trim_end", "strip_prefix", "strip_suffix", "unwrap_or", "to_string", "to_owned", "trim_matches", "trim_start_matches", "trim_end_matches", "into") for nm in names)
        ok = ok and okm and n_idx == 0
        why = why if not okm else why
        if not okm:
            why = "the message is derived from the reply through %s" % names
    ctx.inst("R15.5", "read_response:error-message", ok, f["span"], "the solver's error message must be carried in Error::FromSolver, cut out with strip_prefix(\"(error\")/strip_suffix/trim only: %s" % why, sample={"idioms": why})


ALLOW = {
    "declare_const:unwrap:unwrap#1": "representation invariant symbols.len() > 0 (initialised with one table, push/pop balanced by stack_depth guard)",
    "declare_const:unwrap:unwrap#2": "symbols handed to declare_const are symbols (get_symbol_name is Some): API precondition, not solver input",
    "define_const:unwrap:unwrap#1": "representation invariant symbols.len() > 0",
    "define_const:unwrap:unwrap#2": "API precondition: first argument is a symbol",
    "restart:unwrap:unwrap#1": "stdin was requested as piped on the Command just spawned",
    "restart:unwrap:unwrap#2": "stdout was requested as piped",
    "restart:unwrap:unwrap#3": "stderr was requested as piped",
    "shut_down_solver:unwrap:expect#1": "wait() on our own child after a successful exit command; failure is an OS-level invariant violation",
}


# the allow-listed sites by what they unwrap (function- and ordinal-independent)
ALLOW_SIG = {
    "self.symbols.last_mut": "representation invariant symbols.len() > 0",
    "param.get_symbol_name(param)": "API precondition: the argument is a symbol",
}


def aborts(ctx):
    g, fns = callgraph.build(ctx.facts, {"patronus"})
    roots = [p for p in fns if p.startswith("<patronus::smt::solver::SmtLibSolverCtx as patronus::smt::solver::SolverContext>::")] + [CTXT + "read_response", CTXT + "read_sat_response", CTXT + "write_cmd"]
    reach = sorted(p for p in callgraph.reachable(g, roots) if p in fns and "smt::solver" in p and "::tests::" not in p)
    ctx.floor("R15.6", "solver functions on the response path", len(reach), 12)
    armed = 0
    for p in reach:
        for s_ in panics.keyed(p, panics.sites(fns[p])):
            if s_["kind"] in ("index", "unwrap-in-debug_assert") or (s_["kind"] == "macro" and s_["what"].startswith("debug_assert")):
                continue
            if s_["kind"] == "decrement":
                ok = c14.guarded_decrement(fns[p], s_["node"]) or guarded_by_gt(fns[p], s_["node"])
            else:
                ok = s_["key"] in ALLOW
                if not ok and s_["kind"] == "unwrap":
                    # the same reviewed site may have moved (into a helper, to another ordinal): match by what is unwrapped
                    sig = panics.signature(s_["node"], param_ids(fns[p]) + [i_ for n_ in walk(fns[p]["body"]) if n_.get("k") == "let" and n_.get("inl_param") for _, i_ in pat_bindings(n_["pat"])])
                    ok = sig in ALLOW_SIG
            armed += 1
            ctx.inst("R15.6", s_["key"], ok, s_["node"].get("sp"), "%s: `%s` can abort the process during a solver conversation and is not on the reviewed allow-list" % (p, show(s_["node"])[:80]),
                     sample={"site": s_["key"], "reason": ALLOW.get(s_["key"], "guarded")})
    ctx.floor("R15.6", "armed abort sites in smt::solver", armed, 5)


def guarded_by_gt(f, n):
    return c14.guarded_decrement(f, n)
