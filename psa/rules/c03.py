"""C03 - witness extraction shell: step provenance, failed-property polarity, one value per state / input / step,
model values come only from the solver reply, PDR takes its witness from BMC."""
from ..tree import *  # noqa
from ..flow import Index
from .. import norm
from .c02 import (BMC, GET_WITNESS, FAIL, is_get_signal_at, range_of, inclusive_upto, is_lit, sys_list, binding_of_pat, mname)

GET_SMT_VALUE = "patronus::mc::utils::get_smt_value"
PDR = "patronus::mc::pdr::pdr"
EVAL_EXPR = "patronus::expr::eval::eval_expr"

EXPLANATION = ("Static provenance analysis of mc::bmc::get_witness, mc::utils::get_smt_value and the Fail constructions of bmc/pdr "
               "(rustc HIR facts): which expression is evaluated at which step for bad states, states and inputs, polarity of the failed-property test, "
               "unconditional pushes (one value per state, one per input per step, names in the same order), model values evaluated against an empty symbol store, "
               "PDR's only Fail comes from bmc. That the solver model satisfies the query is assumed.")
ASSUMPTIONS = ["the solver's model satisfies the query it answered sat to", "model-value parsing is correct (C14, partially decided)"]
LEVEL_TEXT = ("Static value-provenance and ordering analysis of the witness extraction code on all paths; decides the structural clauses "
              "(right signal, right step, right polarity, complete and ordered lists) that a real counterexample rests on. No test executes this code offline. "
              "Replay semantics of the produced witness are not decided."
              " The per-step loop must be unconditional (the number of vectors is the trace length), and an edited copy of the bad-state list is not the system's list (positions).")
LEVEL_NOTE = "Assumes solver models are correct and get_signal_at/get_value do what their names say; decides shape, not values."
TECHNIQUE = "value-provenance (def-use) and region/dominance rules on rustc HIR facts; the BMC loop-shell rules of C02 (constraints asserted before every query, queried bad states, pairing) are evaluated as prerequisites"


def run(ctx):
    ctx.rule("R03.1", "get_witness evaluates bad states at k_max, each state's symbol at step 0, each input at every step of 0..=k_max; callers pass the current loop step and the system's bad-state list")
    ctx.rule("R03.2", "failed_safety receives the enumerate index of a bad state exactly under !value.is_zero() of that bad state's model value")
    ctx.rule("R03.3", "one init value and one name per state, one value per input per step (Some(value)), pushed unconditionally and in system order")
    ctx.rule("R03.4", "get_smt_value evaluates the solver's reply against an empty symbol store")
    ctx.rule("R03.5", "the only Fail constructed by pdr carries the witness returned by bmc")
    f = ctx.fn("patronus", GET_WITNESS)
    ix = Index(f["body"])
    defs = local_defs(f)
    P = {}
    for p in f["params"]:
        for name, i in pat_bindings(p):
            P[name] = i
    for need in ("sys", "k_max", "bad_states", "enc"):
        if need not in P:
            ctx.violation("R03.1", "get_witness:params", f["span"], "UNRECOGNISED: get_witness has no parameter named %s" % need)
            return
    gsa = [n for n in ix.nodes if is_get_signal_at(n)]
    ctx.floor("R03.1", "get_signal_at calls in get_witness", len(gsa), 3)
    # where the witness fields are filled: directly (`wit.<field>.push(..)`) or through locals that end up in a `Witness { .. }` literal
    sink_locals = {}
    sink_exprs = {}
    for n_ in ix.nodes:
        if n_.get("k") == "struct" and n_["path"].endswith("::Witness"):
            for fl_ in n_["fields"]:
                sink_exprs[fl_["name"]] = fl_["e"]
                ids = set()
                todo_ = [fl_["e"]]
                for _ in range(12):
                    if not todo_:
                        break
                    e_ = strip_try(todo_.pop())
                    e_ = norm.tail_value(e_)
                    if e_.get("k") == "local":
                        ids.add(canon(e_["id"]))
                        init_ = simple_let_init(defs, e_["id"])
                        if init_ is not None:
                            todo_.append(init_)
                    elif e_.get("k") == "blockexpr":
                        todo_.append(norm.result_value(e_))
                    elif e_.get("k") == "ctor" and callee(e_).endswith(("Result::Ok", "Option::Some")) and e_.get("args"):
                        todo_.append(e_["args"][0])
                sink_locals[fl_["name"]] = ids

    def fills(x, field, names=("push",)):
        """x is a call of one of `names` on the witness field `field` (or on a local that becomes that field)"""
        if not (x.get("k") == "mcall" and x["name"] in names):
            return False
        fp_ = field_path(x["recv"])
        if fp_ and fp_[2] == [field]:
            return True
        lid_ = local_id(x["recv"])
        return lid_ is not None and canon(lid_) in sink_locals.get(field, set())
    seen = {"bad": 0, "state": 0, "input": 0}

    def smt_call_of(sym_call):
        """the get_smt_value(.., X) call whose X is this get_signal_at call (directly or through a let)"""
        for n in ix.nodes:
            if n.get("k") == "call" and callee(n) == GET_SMT_VALUE and n["args"]:
                a = n["args"][-1]
                if strip_try(a) is sym_call or (peel(a).get("k") == "local" and simple_let_init(defs, peel(a)["id"]) is not None and strip_try(simple_let_init(defs, peel(a)["id"])) is sym_call):
                    return n
        return None

    def elem_binding(pat):
        b = pat_bindings(pat)
        return b[0] if len(b) == 1 else None

    for n in gsa:
        it = norm.iter_context(ix, n)
        if it is None or it["kind"] not in ("for", "closure") or not is_local(n["recv"], P["enc"]):
            ctx.violation("R03.1", "get_witness:get_signal_at:shape", n["sp"], "UNRECOGNISED: get_signal_at outside a per-element loop / iterator closure or not on `enc`: %s" % show(n))
            continue
        base, ms = chain(it["src"])
        names = [m[0] for m in ms]
        e_arg, step = n["args"][1], n["args"][2]
        pat = it["pat"]
        while pat.get("k") in ("pref", "pderef"):
            pat = pat["pat"]
        plain_names = [x for x in names if x not in ("copied", "cloned")]
        skips = any(x.get("k") in ("continue", "break") for x in walk(it["body"]))
        if is_local(base, P["bad_states"]):
            seen["bad"] += 1
            ok = plain_names == ["iter", "enumerate"] and pat.get("k") == "ptuple" and len(pat["subs"]) == 2
            eb = elem_binding(pat["subs"][1]) if ok else None
            ib = elem_binding(pat["subs"][0]) if ok else None
            ok = ok and eb and is_local(e_arg, eb[1]) and is_local(step, P["k_max"])
            ctx.inst("R03.1", "get_witness:bad-states", ok, n["sp"], "bad states must be evaluated as get_signal_at(bad, k_max) for every element of bad_states (found `%s` over `%s`)" % (show(n), show(it["src"])), sample=show(n))
            # R03.2
            sv = smt_call_of(n)
            pushes = [x for x in walk(it["body"]) if fills(x, "failed_safety")]
            ctx.inst("R03.2", "get_witness:failed_safety:count", len(pushes) == 1, it["node"]["sp"], "expected exactly one failed_safety.push in the bad-state loop, found %d" % len(pushes))
            for pu in pushes:
                a = peel(pu["args"][0])
                while a.get("k") == "cast":
                    a = peel(a["e"])
                okp = ib is not None and is_local(a, ib[1])
                conds = norm.path_conditions(ix, pu, upto=it["node"])
                pol = False
                extra = []
                for c, positive in conds:
                    if c.get("k") == "mcall" and sv is not None and flows_from_call(c["recv"], sv, defs):
                        if (c["name"] == "is_zero" and not positive) or (c["name"] in ("is_true", "is_one") and positive):
                            pol = True
                            continue
                    extra.append("%s%s" % ("" if positive else "!", show(c)))
                ctx.inst("R03.2", "get_witness:failed_safety:index", okp, pu["sp"], "failed_safety.push(%s) does not push the enumerate index of the bad state being tested" % show(pu["args"][0]))
                ctx.inst("R03.2", "get_witness:failed_safety:polarity", pol and not extra, pu["sp"],
                         "failed_safety.push must run exactly when the model value of this bad state is non-zero (conditions found: %s)" % ([("" if p_ else "!") + show(c) for c, p_ in conds] or "none"),
                         sample=[("" if p_ else "!") + show(c) for c, p_ in conds])
        elif sys_list(it["src"] if not ms or names[-1] != "enumerate" else ms[-1][2]["recv"], defs, P["sys"], "states"):
            seen["state"] += 1
            sb = None
            if pat.get("k") == "ptuple" and len(pat["subs"]) == 2:
                sb = elem_binding(pat["subs"][1])
            else:
                sb = elem_binding(pat)
            fp = field_path(resolve(e_arg))
            ok = sb is not None and fp is not None and (fp[1] == sb[1] or canon(fp[1]) == canon(sb[1])) and fp[2] == ["symbol"] and is_lit(resolve(step), 0)
            ctx.inst("R03.1", "get_witness:states", ok, n["sp"], "initial state values must be get_signal_at(state.symbol, 0) (found `%s`)" % show(n), sample=show(n))
            # R03.3: unconditional pushes to wit.init and wit.init_names in this loop
            for fld in ("init", "init_names"):
                pushes = [x for x in walk(it["body"]) if fills(x, fld)]
                okp = it["kind"] == "for" and len(pushes) == 1 and len(ix.regions[id(pushes[0])]) == len(ix.regions[id(it["node"])]) + 1 and not skips
                ctx.inst("R03.3", "get_witness:%s:push" % fld, okp, it["node"]["sp"], "wit.%s must receive exactly one entry per state, unconditionally (found %d pushes)" % (fld, len(pushes)))
            no_skip = not skips and plain_names in (["iter", "enumerate"], ["iter"])
            ctx.inst("R03.3", "get_witness:states:all", no_skip, it["node"]["sp"], "the state loop skips or filters states: %s" % show(it["src"]))
        elif sys_list(it["src"], defs, P["sys"], "inputs"):
            seen["input"] += 1
            ib = elem_binding(pat)
            outer = norm.iter_context(ix, it["node"])
            kb = elem_binding(outer["pat"]) if outer and outer.get("pat") else None
            ok = ib is not None and is_local(e_arg, ib[1]) and outer is not None and outer["kind"] in ("for", "closure") and kb and is_local(step, kb[1]) and inclusive_upto(range_of(outer["src"], defs), P["k_max"])
            ctx.inst("R03.1", "get_witness:inputs", ok, n["sp"],
                     "input values must be get_signal_at(input, k) for every input and every k in 0..=k_max (found `%s` inside `%s`)" % (show(n), show(outer["src"]) if outer and outer.get("src") else "?"), sample=show(n))
            # R03.3: the per-step vector is built element-wise from sys.inputs, each element Some(model value), and there is one such vector per step
            sv = smt_call_of(n)
            okp = okq = False
            step_vec = None          # the expression that is the vector of one step
            if outer is not None and outer["kind"] == "for":
                op = [x for x in walk(outer["body"]) if fills(x, "inputs")]
                if len(op) == 1 and len(ix.regions[id(op[0])]) == len(ix.regions[id(outer["node"])]) + 1:
                    step_vec = op[0]["args"][0]
                    okq = ix.precedes(it["node"], op[0]) or contains(op[0], it["node"])
            elif outer is not None and outer["kind"] == "closure" and outer["via"] == "map" and "inputs" in sink_exprs:
                # `inputs: (0..=k_max).map(|k| <vector of step k>).collect()`
                elo = norm.elementwise(ix, defs, sink_exprs["inputs"])
                if elo is not None and elo["scope"] is outer["node"] and not elo.get("pre"):
                    step_vec = norm.result_value(elo["elem"])
                    okq = True
            if step_vec is not None:
                el = norm.elementwise(ix, defs, step_vec)
                if el is not None and (el["scope"] is it["node"]) and not el.get("pre", ["iter"])[1:]:
                    if el["form"] == "loop":
                        vec = defs.get(local_id(step_vec))
                        okq = okq and vec is not None and contains(outer["body"], vec[1])      # a fresh vector per step
                    okp = sv is not None and is_some_of(el["elem"], sv, defs)
                else:
                    okq = False
            ctx.inst("R03.3", "get_witness:inputs:value-push", okp, it["node"]["sp"], "each input must contribute exactly one Some(model value) per step, unconditionally")
            if outer is not None and okq:
                # one vector per step of *every* witness: the number of vectors is the only record of the trace length, so the step loop may not
                # sit under a condition (`if !sys.inputs.is_empty() { for k in .. }` yields a zero-step witness for a system without inputs)
                guards = norm.path_conditions(ix, outer["node"])
                if guards:
                    okq = False
            ctx.inst("R03.3", "get_witness:inputs:step-push", okq, (outer or it)["node"]["sp"], "wit.inputs must receive one fresh vector per step, built from all inputs, whatever the system looks like (the step loop may not be conditional)")
            no_skip = plain_names == ["iter"] and not skips
            ctx.inst("R03.3", "get_witness:inputs:all", no_skip, it["node"]["sp"], "the input loop skips or filters inputs: %s" % show(it["src"]))
        else:
            ctx.violation("R03.1", "get_witness:get_signal_at:unknown", n["sp"], "UNRECOGNISED: get_signal_at iterating over `%s`" % show(it["src"]))
    for kind in seen:
        ctx.inst("R03.1", "get_witness:%s:present" % kind, seen[kind] == 1, f["span"], "expected exactly one get_signal_at site for %s values, found %d" % (kind, seen[kind]))
    # input names: one per input, in order: a push in a loop over sys.inputs or extend(sys.inputs.iter().map(..))
    nm = [x for x in ix.nodes if fills(x, "input_names", ("push", "extend", "insert", "resize", "extend_from_slice"))]
    ok = len(nm) == 1
    if not nm and "input_names" in sink_exprs:
        # `input_names: sys.inputs.iter().map(|i| Some(name of i)).collect()`
        eln = norm.elementwise(ix, defs, sink_exprs["input_names"])
        okn = eln is not None and eln["form"] == "map" and sys_list(eln["src"], defs, P["sys"], "inputs") and not [x_ for x_ in eln.get("pre", []) if x_ not in ("iter", "copied", "cloned")]
        ctx.inst("R03.3", "get_witness:input_names", okn, f["span"], "wit.input_names must receive one name per input of sys.inputs, in order, unconditionally")
        nm = None
    if ok and nm[0]["name"] == "push":
        l = norm.iter_context(ix, nm[0])
        ok = l is not None and l["kind"] == "for" and sys_list(l["src"], defs, P["sys"], "inputs") and [m[0] for m in chain(l["src"])[1] if m[0] not in ("copied", "cloned")] == ["iter"] \
            and len(ix.regions[id(nm[0])]) == len(ix.regions[id(l["node"])]) + 1 and not any(x.get("k") in ("continue", "break") for x in walk(l["body"]))
    elif ok and nm[0]["name"] == "extend":
        b_, ms_ = chain(nm[0]["args"][0])
        nms = [m[0] for m in ms_ if m[0] not in ("copied", "cloned")]
        ok = nms == ["iter", "map"] and sys_list(ms_[0][2]["recv"], defs, P["sys"], "inputs") and len(ix.regions[id(nm[0])]) == 0
    else:
        ok = False
    if nm is not None:
        ctx.inst("R03.3", "get_witness:input_names", ok, f["span"], "wit.input_names must receive one name per input of sys.inputs, in order, unconditionally")
    # callers
    c = ctx.facts.lib("patronus")
    ncall = 0
    for path, fl in c.fns.items():
        for g in fl:
            for n in walk(g["body"]):
                if n.get("k") == "call" and callee(n) == GET_WITNESS:
                    ncall += 1
                    gdefs = local_defs(g)
                    gp = {}
                    for p in g["params"]:
                        for name, i in pat_bindings(p):
                            gp[name] = i
                    gix = Index(g["body"])
                    lp = None
                    for a in gix.ancestors(n):
                        if a.get("k") == "for" and range_of(a["iter"], gdefs):
                            lp = a
                    kb = binding_of_pat(lp["pat"]) if lp else None
                    # positional: parameter index of k_max and bad_states
                    pn = [binding_of_pat(p)[0] if binding_of_pat(p) else None for p in f["params"]]
                    ok = kb is not None and is_local(n["args"][pn.index("k_max")], kb[1])
                    ctx.inst("R03.1", "%s:get_witness-call#%d:step" % (path.split("::")[-1], ncall), ok, n["sp"], "get_witness is not called with the current step of the enclosing loop: %s" % show(n)[:160])
                    okb = "sys" in gp and sys_list(n["args"][pn.index("bad_states")], gdefs, gp["sys"], "bad_states") and is_local(n["args"][pn.index("sys")], gp["sys"])
                    ctx.inst("R03.1", "%s:get_witness-call#%d:bads" % (path.split("::")[-1], ncall), okb, n["sp"], "get_witness is not called with the system and its bad-state list: %s" % show(n)[:160])
    ctx.floor("R03.1", "get_witness call sites", ncall, 2)
    r034(ctx)
    r035(ctx)
    # a witness is real only if the query that produced it was asked under the constraints of every step up to k and about the system's
    # bad states at step k: the loop-shell rules of C02 are prerequisites and are re-evaluated here under their own rule ids
    from . import c02
    c02.loop_shell(ctx)


def _value_of_block(e):
    """the value expression of a block with statements (an inlined helper: `{ let sym = ..; get_smt_value(.., sym) }`), through `?`"""
    e = strip_try(e)
    while e.get("k") == "blockexpr" and "tail" in e["b"]:
        e = strip_try(e["b"]["tail"])
    return e


def flows_from_call(n, call, defs, depth=0):
    """n is the call (through `?`), or a local that only renames / destructures its value (let, let-else, match arms returning their own binding)"""
    n0 = _value_of_block(strip_try(n))
    if n0 is call:
        return True
    if n0.get("k") != "local" or depth > 5:
        return False
    d = defs.get(n0["id"]) or defs.get(canon(n0["id"]))
    if not d:
        return False
    if d[0] == "let" and "init" in d[1]:
        init = _value_of_block(strip_try(d[1]["init"]))
        if init is call or init.get("k") == "local":
            return flows_from_call(init, call, defs, depth + 1)
        if init.get("k") == "match":
            if not flows_from_call(init["scrut"], call, defs, depth + 1):
                return False
            for arm in init["arms"]:
                b = peel(arm["body"])
                if arm["body"].get("ty") == "!" or b.get("ty") == "!":
                    continue
                ids = {i for _, i in pat_bindings(arm["pat"])}
                if not (b.get("k") == "local" and b["id"] in ids):
                    return False
            return True
    if d[0] in ("arm", "letexpr"):
        return flows_from_call(d[1]["scrut"] if d[0] == "arm" else d[1]["init"], call, defs, depth + 1)
    return False


def is_some_of(e, call, defs):
    """e evaluates to Some(value of call): `Some(v)` with v flowing from the call, or `call.map(Some)` (Result<Option<_>>) in a closure tail"""
    e = norm.tail_value(e)
    # a closure / block body: look at its tail, resolving the statements' lets through defs
    while e.get("k") in ("blockexpr", "block"):
        b = e["b"] if e.get("k") == "blockexpr" else e
        if "tail" not in b:
            return False
        e = norm.tail_value(b["tail"])
    if e.get("k") == "ctor" and callee(e).endswith("Option::Some") and len(e["args"]) == 1:
        return flows_from_call(e["args"][0], call, defs)
    if e.get("k") == "ctor" and callee(e).endswith("Result::Ok") and len(e["args"]) == 1:
        return is_some_of(e["args"][0], call, defs)
    if e.get("k") == "mcall" and e["name"] == "map" and len(e["args"]) == 1 and (e["recv"] is call or strip_try(e["recv"]) is call or _value_of_block(e["recv"]) is call):
        f_ = peel(e["args"][0])
        return (f_.get("k") == "def" and (f_.get("path") or "").endswith("Option::Some"))
    return False


def stmts_nodes(body):
    return [unsemi(strip_stmt(s_)) for s_ in stmts_of(body)]


def strip_stmt(s_):
    s_ = unsemi(s_)
    return strip_try(s_) if s_.get("k") in ("try",) else s_


def value_flows_from(n, src_id, defs, depth=0):
    """n is the local src, or a local bound by a match/let that only destructures src (e.g. `match value {BitVec(v) => v}`)"""
    n = peel(n)
    if n.get("k") != "local":
        return False
    if n["id"] == src_id:
        return True
    if depth > 4:
        return False
    d = defs.get(n["id"])
    if not d:
        return False
    if d[0] == "let" and "init" in d[1]:
        init = strip_try(d[1]["init"])
        if init.get("k") == "local":
            return value_flows_from(init, src_id, defs, depth + 1)
        if init.get("k") == "match" and is_local(init["scrut"]):
            if not value_flows_from(init["scrut"], src_id, defs, depth + 1):
                return False
            # every non-diverging arm returns a binding of its own pattern
            for arm in init["arms"]:
                b = peel(arm["body"])
                if arm["body"].get("ty") == "!" or b.get("ty") == "!":
                    continue
                ids = {i for _, i in pat_bindings(arm["pat"])}
                if not (b.get("k") == "local" and b["id"] in ids):
                    return False
            return True
    if d[0] == "arm":
        return value_flows_from(d[1]["scrut"], src_id, defs, depth + 1)
    return False


def r034(ctx):
    f = ctx.fn("patronus", GET_SMT_VALUE)
    defs = local_defs(f)
    P = {}
    for p in f["params"]:
        for name, i in pat_bindings(p):
            P[name] = i
    ev = [n for n in walk(f["body"]) if n.get("k") == "call" and callee(n) == EVAL_EXPR]
    ok = len(ev) == 1
    why = "expected one eval_expr call"
    ix = Index(f["body"])
    if ok:
        store = resolve(ev[0]["args"][1])
        stid = local_id(ev[0]["args"][1])
        if stid is not None and [n for n in ix.nodes if n.get("k") == "mcall" and is_local(n["recv"], stid) and n["name"] in ("insert", "extend", "entry")]:
            store = {}
        ok = store.get("k") == "call" and callee(store).endswith("default::Default::default") or (store.get("k") == "call" and callee(store).split("::")[-1] in ("new", "default"))
        why = "the symbol store passed to eval_expr is `%s`, not an empty store: symbols in the solver reply would be given values from elsewhere" % show(ev[0]["args"][1])
        if ok:
            g = norm.value_source(ix, defs, ev[0]["args"][2])
            ok = g.get("k") == "mcall" and g["name"] == "get_value" and "SolverContext" in (g.get("path") or "") and "expr" in P and is_local(g["args"][-1], P["expr"])
            why = "the evaluated term is not the solver's get_value reply for the requested expression"
    ctx.inst("R03.4", "get_smt_value", ok, f["span"], why, sample=show(ev[0]) if ev else None)


def r035(ctx):
    f = ctx.fn("patronus", PDR)
    defs = local_defs(f)
    fails = [n for n in walk(f["body"]) if n.get("k") == "ctor" and callee(n) == FAIL]
    ctx.inst("R03.5", "pdr:Fail:count", len(fails) == 1, f["span"], "expected exactly one Fail construction in pdr, found %d" % len(fails))
    for i, fl in enumerate(fails):
        a = peel(fl["args"][0])
        ok = False
        if a.get("k") == "local":
            d = defs.get(a["id"]) or defs.get(canon(a["id"]))
            # bound by `let Fail(wit) = bmc(..)? else ..`, `if let Fail(wit) = bmc(..)?` or an arm `Fail(wit) =>` of `match bmc(..)?`
            if d and d[0] in ("let", "letexpr", "arm"):
                src = d[1].get("init") if d[0] != "arm" else d[1]["scrut"]
                init = strip_try(src) if src is not None else {}
                pats = [d[2]] if d[0] != "arm" else [arm["pat"] for arm in d[1]["arms"] if any(i_ == a["id"] or canon(i_) == canon(a["id"]) for _, i_ in pat_bindings(arm["pat"]))]
                pat = pats[0] if pats else {}
                ok = init.get("k") == "call" and callee(init) == BMC and pat.get("k") == "pvariant" and pat["path"] == FAIL
        ctx.inst("R03.5", "pdr:Fail#%d" % (i + 1), ok, fl["sp"], "the witness of pdr's Fail is not the witness destructured from a bmc(..) result: %s" % show(fl), sample=show(fl))
