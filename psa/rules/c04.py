"""C04 - exactly-once definition of every signal class per step (finite truth-table model of the five
define_signals filters), exactly-once define/declare of states, one naming function, id width."""
import itertools
from ..tree import *  # noqa
from ..flow import Index
from .. import boolpred as bp
from .. import norm as norm_
from .. import intcast
from .c02 import binding_of_pat, is_lit, mname

ENC = "patronus::mc::encoding::UnrollSmtEncoding"
TRAIT_IMPL = "<patronus::mc::encoding::UnrollSmtEncoding as patronus::mc::encoding::TransitionSystemEncoding>"
INIT_AT = TRAIT_IMPL + "::init_at"
UNROLL = TRAIT_IMPL + "::unroll"
DEFINE_SIGNALS = ENC + "::define_signals"
CREATE_SYMS = ENC + "::create_signal_symbols_in_step"
NAME_AT = "patronus::mc::encoding::name_at"
IS_CONST = "patronus::system::transition_system::State::is_const"
DET_USES = "patronus::system::analysis::determine_simples_uses"

EXPLANATION = ("Finite-model static analysis of the SMT unroller (mc::encoding): the five define_signals call sites are extracted from the type-checked "
               "program with their step role and their filter closure as a boolean formula over {init>0, next>0, other>0, is_input} (+ step==0); for the three "
               "protocol flows (step 0 after init_at(0); entry step s0>0; later steps) all 16 use-classes are enumerated: filters applying to the same step must be "
               "pairwise disjoint and every needed class covered (exactly-once definition). Plus: exactly one define/declare per state per step on every path, "
               "State::is_const implies next == symbol, the use-class fields are filled from the matching expression lists, every stepped symbol is named by name_at, "
               "no truncating cast of signal ids. Sort-correctness (C05) and value faithfulness are not decided.")
ASSUMPTIONS = ["protocol model: a run is init_at(s0) followed by unroll*; step t is defined by init_at iff t == s0, by unroll as next step iff t > s0, and by the following unroll as previous step",
               "define-before-use ordering across blocks is not decided"]
EXHAUSTIVE = True
LEVEL_TEXT = ("Exhaustive finite-domain evaluation (3 flows x 16 use-classes x {disjoint, covered}) of filter predicates extracted from the compiler's type-checked program, "
              "plus path-counting and provenance rules: decides that every non-state signal class is defined exactly once per step and every state exactly once, for all systems at once. "
              "This is the clause behind 'declared or defined exactly once'; tests never run this code offline."
              " The expression-writer clauses of C05 (operator and sort of every written term) are re-evaluated here: 'every term is well-sorted' is part of this property.")
LEVEL_NOTE = "Trusts the three-flow protocol model (DESIGN appendix A); does not decide define-before-use order, term sorts (C05) or semantic faithfulness of expr_in_step."
TECHNIQUE = "boolean-predicate extraction + exhaustive truth-table partition check; path-count (exactly-once) analysis; narrowing-cast rule"


def params_of(f):
    P = {}
    for p in f["params"]:
        for name, i in pat_bindings(p):
            P[name] = i
    return P


def define_sites(ctx, f, role_of_step):
    """[(site node, role, guard formula, filter formula, text)]"""
    ix = Index(f["body"])
    defs = local_defs(f)
    out = []
    P = params_of(f)
    for n in ix.nodes:
        if n.get("k") == "mcall" and callee(n) == DEFINE_SIGNALS:
            step_arg = peel(n["args"][2])
            role, step_atoms = role_of_step(step_arg, defs, P, ix, n)
            # the filter: a closure literal, a named predicate function, or one of several selected by the step (`if step == 0 { f } else { g }`)
            alts_ = norm_.result_table(ix, n["args"][3], unwrap=())
            multi = len(alts_) > 1
            sel_guard = None
            cl = None
            if multi:
                ctx.violation("R04.1", "%s:define_signals:filter-shape" % f["path"].split("::")[-1], n["sp"], "UNRECOGNISED: the filter is selected among %d alternatives: %s" % (len(alts_), show(n["args"][3]))) if False else None
            flts = []
            bad_alt = False
            for conds_, leaf in alts_:
                leaf = resolve(peel(leaf))
                gpath = None
                fdefs, latoms = defs, dict(step_atoms or {})
                if leaf.get("k") == "closure" and len(leaf["params"]) == 1:
                    cl = leaf
                    pb = binding_of_pat(cl["params"][0])
                    pbody = peel_block(cl["body"])
                elif leaf.get("k") == "def" and leaf.get("path") in ctx.facts.lib("patronus").fns:
                    g_ = ctx.facts.lib("patronus").fns[leaf["path"]][0]
                    gp = [binding_of_pat(p_) for p_ in g_["params"]]
                    if len(gp) != 1 or gp[0] is None:
                        bad_alt = True
                        break
                    cl = {"k": "closure", "params": g_["params"], "body": g_["body"], "sp": g_.get("span")}
                    pb = gp[0]
                    pbody = peel_block(g_["body"])
                    fdefs = local_defs(g_)
                    # `let Uses { next, other, .. } = info.uses;`: the bindings are the fields
                    for x_ in walk(g_["body"]):
                        if x_.get("k") == "let" and x_["pat"].get("k") == "pstruct" and "init" in x_:
                            fp_ = field_path(x_["init"])
                            if fp_ and fp_[1] is not None and canon(fp_[1]) == canon(pb[1]):
                                for fl_ in x_["pat"]["fields"]:
                                    b_ = binding_of_pat(fl_["pat"])
                                    if b_:
                                        latoms[b_[1]] = ".".join(["info"] + fp_[2] + [fl_["name"]])
                else:
                    bad_alt = True
                    break
                body_, idiom = strip_membership_idiom(pbody, pb)
                try:
                    flt1 = bp.extract(body_, {pb[1]: "info"}, fdefs, latoms) if body_ is not None else ("const", True)
                    sel = ("const", True)
                    for c_, pol in conds_:
                        if c_.get("k") == "armpat":
                            pp = c_["pat"]
                            while pp.get("k") in ("pref", "pderef"):
                                pp = pp["pat"]
                            if pp.get("k") in ("pwild", "pbind"):
                                continue
                            if pp.get("k") == "plit" and isinstance(pp.get("v"), int):
                                c_ = {"k": "binary", "op": "==", "l": c_["scrut"], "r": {"k": "lit", "v": pp["v"], "ty": "u64"}, "ty": "bool"}
                            else:
                                raise bp.Opaque(c_.get("scrut", {}), "selection of the filter by a pattern")
                        x_ = bp.extract(c_, {}, defs, step_atoms)
                        sel = ("and", sel, x_ if pol else ("not", x_))
                except bp.Opaque as e:
                    ctx.violation("R04.1", "%s:define_signals:filter-opaque" % f["path"].split("::")[-1], n["sp"], "UNRECOGNISED (fail closed): filter `%s` contains `%s` (%s)" % (show(cl["body"])[:200], show(e.node), e.why))
                    bad_alt = True
                    break
                flts.append((sel, flt1, idiom))
            if bad_alt or not flts:
                if not [v_ for v_ in ctx.violations if v_.get("key", "").endswith("filter-opaque")] or not flts:
                    ctx.violation("R04.1", "%s:define_signals:filter-shape" % f["path"].split("::")[-1], n["sp"], "UNRECOGNISED: the filter is not a closure literal or a predicate function: %s" % show(n["args"][3])[:200])
                continue
            # one formula: OR over the alternatives of (selected AND filter)
            flt = None
            idiom = flts[0][2]
            for sel, flt1, idi in flts:
                term = flt1 if (sel == ("const", True)) else ("and", sel, flt1)
                flt = term if flt is None else ("or", flt, term)
                if (idi is None) != (idiom is None):
                    idiom = None
            # guard: enclosing if conditions
            guard = ("const", True)
            bad = False
            state_loop = None
            for a in reversed(ix.ancestors(n)):
                if a.get("k") == "if":
                    in_then = contains(a["then"], n)
                    cond_ = a["cond"]
                    if idiom is not None:
                        cond_, init_let = strip_state_init_let(a["cond"])
                        if init_let is not None:
                            idiom["init_let"] = init_let
                    try:
                        c = bp.extract(cond_, {}, defs, step_atoms) if cond_ is not None else ("const", True)
                    except bp.Opaque as e:
                        ctx.violation("R04.1", "%s:define_signals:guard-opaque" % f["path"].split("::")[-1], a["sp"], "UNRECOGNISED (fail closed): condition `%s` guarding a define_signals call" % show(a["cond"]))
                        bad = True
                        break
                    guard = ("and", guard, c if in_then else ("not", c))
                elif a.get("k") == "for" and idiom is not None and state_loop is None and is_states_loop(a):
                    state_loop = a
                elif a.get("k") in ("match", "for", "while", "loop", "closure"):
                    ctx.violation("R04.1", "%s:define_signals:guard-shape" % f["path"].split("::")[-1], a["sp"], "UNRECOGNISED: define_signals inside a %s" % a["k"])
                    bad = True
                    break
            if idiom is not None and not bad:
                why = check_once_idiom(n, idiom, state_loop, ix, defs)
                if why:
                    ctx.violation("R04.1", "%s:define_signals:once-per-signal-idiom" % f["path"].split("::")[-1], n["sp"],
                                  "UNRECOGNISED (fail closed): the filter restricts the signals by set membership but the exactly-once idiom is not established: %s" % why)
                    bad = True
            if bad or role is None:
                if role is None:
                    ctx.violation("R04.1", "%s:define_signals:step-role" % f["path"].split("::")[-1], n["sp"], "UNRECOGNISED: cannot resolve which step `%s` denotes" % show(step_arg))
                continue
            out.append({"node": n, "role": role, "guard": guard, "filter": flt, "fn": f["path"].split("::")[-1], "interleaved_with_states": idiom is not None,
                        "text": "%s(step=%s) when %s: %s" % (f["path"].split("::")[-1], role, bp.fshow(guard), bp.fshow(flt))})
    return out


def conj_list(n):
    n = peel(n)
    if n.get("k") == "binary" and n["op"] == "&&":
        return conj_list(n["l"]) + conj_list(n["r"])
    return [n]


def and_all(cs):
    """rebuild a right-nested && tree from conjunct nodes (None when empty)"""
    if not cs:
        return None
    cur = cs[0]
    for c in cs[1:]:
        cur = {"k": "binary", "op": "&&", "l": cur, "r": c, "ty": "bool"}
    return cur


def strip_membership_idiom(body, pb):
    """filter = base && needed.contains(&info.id) && !done.contains(&info.id)  ->  (base, {needed, done})"""
    keep, needed, done = [], None, None
    for c in conj_list(body):
        neg = False
        c2 = c
        if c2.get("k") == "unary" and c2["op"] == "!":
            neg, c2 = True, peel(c2["e"])
        a0 = field_path(c2["args"][0]) if c2.get("k") == "mcall" and c2.get("args") else None
        if c2.get("k") == "mcall" and c2["name"] == "contains" and peel(c2["recv"]).get("k") == "local" and a0 and a0[1] is not None and canon(a0[1]) == canon(pb[1]) and a0[2] == ["id"]:
            if neg:
                done = peel(c2["recv"])["id"]
            else:
                needed = peel(c2["recv"])["id"]
            continue
        keep.append(c)
    if needed is None and done is None:
        return body, None
    return and_all(keep), {"needed": needed, "done": done}


def strip_state_init_let(cond):
    """`step == 0 && let Some(init) = state.init` -> (step == 0, the let)"""
    keep, let = [], None
    for c in conj_list(cond):
        if c.get("k") == "letexpr" and c["pat"].get("k") == "pvariant" and c["pat"]["path"].endswith("Option::Some"):
            fp = field_path(c["init"])
            if fp and fp[2] == ["init"]:
                let = c
                continue
            # `let init_expr = if step == 0 { state.init } else { None }; if let Some(init) = init_expr`:
            # the let holds exactly when one of the alternatives that can be Some is selected
            if peel(c["init"]).get("k") == "local":
                from .. import norm as norm_
                alts = norm_.value_alternatives(c["init"])
                some_alts = [(cs, x) for cs, x in alts if not (peel(x).get("k") == "def" and (peel(x).get("path") or "").endswith("Option::None"))]
                if len(some_alts) == 1 and field_path(some_alts[0][1]) and field_path(some_alts[0][1])[2] == ["init"] and all(pol for _, pol in some_alts[0][0]):
                    let = c
                    keep += [resolve(c_) for c_, _ in some_alts[0][0]]
                    continue
        keep.append(c)
    return and_all(keep), let


def is_states_loop(a):
    b, ms = chain(a["iter"])
    fp = field_path(b)
    return bool(fp and fp[0] == "self" and fp[2] == ["states"] and [m[0] for m in ms] == ["iter"])


def check_once_idiom(call, idiom, state_loop, ix, defs):
    """the per-state 'define what this init needs, once' idiom:
       - inside `for state in self.states.iter()` under `let Some(init) = state.init`
       - `needed` collects info.id of every signal sub-expression of `init` with uses.init > 0 (complete worklist over for_each_child)
       - `done` is declared before the loop, only extended by `needed` right after the call"""
    if state_loop is None:
        return "the call is not inside the loop over self.states"
    if idiom.get("needed") is None or idiom.get("done") is None:
        return "both a `needed` set and a `done` set are required"
    let = idiom.get("init_let")
    if let is None:
        return "no `let Some(init) = state.init` guard"
    init_b = binding_of_pat(let["pat"]["subs"][0])
    nd, dd = defs.get(idiom["needed"]), defs.get(idiom["done"])
    if not nd or not dd or nd[0] != "let" or dd[0] != "let":
        return "needed/done are not let-bound sets"
    if not contains(state_loop["body"], nd[1]) or contains(state_loop["body"], dd[1]) or not ix.precedes(dd[1], state_loop):
        return "`needed` must be fresh per state and `done` declared once before the loop"
    # done: only `extend(needed)` / inserts after the call
    muts = [n for n in ix.nodes if n.get("k") == "mcall" and is_local(n["recv"], idiom["done"]) and n["name"] not in ("contains", "len", "is_empty")]
    if len(muts) != 1 or muts[0]["name"] != "extend" or not is_local(muts[0]["args"][0], idiom["needed"]) or not ix.precedes(call, muts[0]) or ix.regions[id(muts[0])] != ix.regions[id(call)]:
        return "`done` must be extended by `needed` exactly once, right after the call: %s" % [show(m)[:60] for m in muts]
    # needed: inserts of info.id under {signals.get(e) is Some(Some(info)), !info.is_state, info.uses.init > 0}
    ins = [n for n in ix.nodes if n.get("k") == "mcall" and is_local(n["recv"], idiom["needed"]) and n["name"] not in ("contains", "len", "is_empty")]
    if len(ins) != 1 or ins[0]["name"] != "insert" or not ix.precedes(ins[0], call):
        return "`needed` must be filled by a single insert before the call"
    wl = ix.enclosing(ins[0], ("while",))
    if wl is None:
        return "the insert into `needed` is not inside a worklist loop"
    # the conditions under which the insert runs inside the loop body: enclosing `if` / match arm (+ guard), earlier `if .. { continue }`
    cj = []
    wlc = peel(wl["cond"])
    popped = binding_of_pat(wlc["pat"]["subs"][0]) if wlc.get("k") == "letexpr" and wlc["pat"].get("subs") else None
    for c_, pol in norm_.path_conditions(ix, ins[0], upto=wl, arms=True):
        if c_.get("k") == "armpat":
            if not pol:
                return "the insert into `needed` sits in a match arm that is only reached when an earlier arm did not match"
            pp_ = c_["pat"]
            if pp_.get("k") in ("pwild",) or (pp_.get("k") == "pbind" and "sub" not in pp_):
                continue
            cj.append({"k": "letexpr", "pat": pp_, "init": c_["scrut"], "ty": "bool"})
            continue
        if c_.get("k") == "mcall" and c_["name"] in ("insert", "contains") and popped is not None and len(c_["args"]) == 1 and is_local(c_["args"][0], popped[1]):
            continue        # the visited test of the worklist (checked with the skips below)
        cj.append(c_ if pol else {"k": "unary", "op": "!", "e": c_, "ty": "bool"})
    if not cj:
        return "the insert into `needed` must sit under a condition"
    info_b = None
    filter_conds = []          # (condition, id of the closure parameter that stands for the signal) from `.filter(|info| ..)` on the lookup
    for c in cj:
        if c.get("k") == "letexpr":
            sb_, sms_ = norm_.deep_chain(ix, defs, c["init"])
            fps = field_path(sb_)
            if fps and fps[0] == "self" and fps[2] == ["signals"] and [m_[0] for m_ in sms_][:1] == ["get"]:
                bs = pat_bindings(c["pat"])
                info_b = bs[0] if len(bs) == 1 else None
                for m_ in sms_[1:]:
                    cl_ = resolve(m_[1][0]) if len(m_[1]) == 1 else {}
                    if m_[0] == "filter" and cl_.get("k") == "closure" and len(cl_.get("params", [])) == 1:
                        pbs_ = pat_bindings(cl_["params"][0])
                        if len(pbs_) != 1:
                            return "the lookup in self.signals is filtered by a closure that destructures its argument"
                        for fc in conj_list(norm_.tail_value(cl_["body"])):
                            filter_conds.append((fc, pbs_[0][1]))
                    elif m_[0] in ("and_then", "map", "as_ref", "flatten", "copied", "cloned", "as_deref"):
                        # `.and_then(|entry| entry.as_ref())`: unwrapping the slot only
                        if cl_.get("k") == "closure":
                            tb_, tms_ = chain(norm_.tail_value(cl_["body"]))
                            if [x_[0] for x_ in tms_] not in ([], ["as_ref"], ["as_ref", "copied"], ["clone"]) or peel(tb_).get("k") != "local":
                                return "the lookup in self.signals is transformed by `%s`" % show(cl_)[:60]
                    else:
                        return "the lookup in self.signals goes through `%s`" % m_[0]
    key = field_path(ins[0]["args"][0])
    if info_b is None or not (key and key[1] is not None and canon(key[1]) == canon(info_b[1]) and key[2] == ["id"]):
        return "the inserted key must be the id of the signal looked up in self.signals"

    def allowed(c, who=None):
        """`!info.is_state` or `info.uses.init > 0`"""
        who = who if who is not None else info_b[1]
        c = resolve(c)
        if c.get("k") == "unary" and c["op"] == "!":
            fp_ = field_path(c["e"])
            return bool(fp_) and fp_[1] is not None and canon(fp_[1]) == canon(who) and fp_[2] == ["is_state"]
        if c.get("k") == "binary" and c["op"] in (">", "!=", ">="):
            fp_ = field_path(c["l"])
            v = peel(c["r"]).get("v")
            return bool(fp_) and fp_[1] is not None and canon(fp_[1]) == canon(who) and fp_[2] == ["uses", "init"] and ((c["op"] in (">", "!=") and v == 0) or (c["op"] == ">=" and v == 1))
        return False
    for c in cj:
        if c.get("k") == "letexpr":
            continue
        if not allowed(c):
            return "extra condition `%s` on membership in `needed`: some init-use signal of this init expression might never be defined" % show(c)[:60]
    for fc, who in filter_conds:
        if not allowed(fc, who):
            return "extra condition `%s` on membership in `needed`: some init-use signal of this init expression might never be defined" % show(fc)[:60]
    # complete worklist from `init`
    loop = ix.enclosing(ins[0], ("while",))
    if loop is None or not contains(state_loop["body"], loop):
        return "no worklist loop collecting the sub-expressions"
    lc = peel(loop["cond"])
    if not (lc.get("k") == "letexpr" and [m_[0] for m_ in chain(lc["init"])[1]] == ["pop"]):
        return "worklist loop is not `while let Some(e) = todo.pop()`"
    todo_id = local_id(chain(lc["init"])[0])
    tinit = simple_let_init(defs, todo_id)
    if tinit is None or [canon(x["id"]) for x in walk(tinit) if x.get("k") == "local"] != [canon(init_b[1])]:
        return "the worklist must start from the state's init expression"
    e_b = binding_of_pat(lc["pat"]["subs"][0])
    fec = [n for n in walk(loop["body"]) if n.get("k") == "mcall" and n["name"] == "for_each_child"]
    def pushes_every_child(call):
        cl_ = resolve(call["args"][0])
        cb_ = pat_bindings(cl_["params"][0]) if cl_.get("k") == "closure" and cl_.get("params") else []
        pu_ = [x for x in walk(cl_.get("body", {})) if x.get("k") == "mcall" and x["name"] == "push" and is_local(x["recv"], todo_id)]
        return len(cb_) == 1 and len(pu_) == 1 and is_local(pu_[0]["args"][0], cb_[0][1]) and not any(x.get("k") == "if" for x in walk(cl_["body"]))
    if len(fec) != 1 or not pushes_every_child(fec[0]) or len(ix.regions[id(fec[0])]) != len(ix.regions[id(loop)]) + 1:
        return "every child of a visited node must be pushed onto the worklist unconditionally"
    r = peel(fec[0]["recv"])
    if not (r.get("k") == "index" and is_local(r["i"], e_b[1])):
        return "children must be those of the popped expression"
    skips = [n for n in walk(loop["body"]) if n.get("k") in ("continue", "break", "return")]
    for sk in skips:
        a = [x for x in ix.ancestors(sk) if x.get("k") == "if" and contains(loop["body"], x)]
        cond_nodes = list(walk(a[0]["cond"])) if len(a) == 1 else []
        for x in list(cond_nodes):
            if x.get("k") == "local":          # `let is_new = visited.insert(e); if !is_new { continue }`
                ini_ = simple_let_init(defs, x["id"])
                if ini_ is not None:
                    cond_nodes += list(walk(ini_))
        if len(a) != 1 or not any(x.get("k") == "mcall" and x["name"] in ("insert", "contains") and is_local(e_b and x["args"][0] or {}, e_b[1]) for x in cond_nodes):
            return "a node may only be skipped when it was already visited"
    return None


def run(ctx):
    ctx.rule("R04.1", "for each protocol flow and each of the 16 use-classes (init>0,next>0,other>0,is_input): define_signals filters applying to the same step are pairwise disjoint, and every needed class is covered")
    ctx.rule("R04.2", "init_at emits exactly one define_const/declare_const per state on every path; unroll exactly one unless the state is_const; State::is_const holds only if next == symbol")
    ctx.rule("R04.3", "every stepped symbol name in mc::encoding is produced by name_at(base, step); constant states use their un-stepped symbol consistently in create_signal_symbols_in_step and init_at")
    ctx.rule("R04.4", "no unguarded narrowing integer cast in mc::encoding (signal ids)")
    ctx.rule("R04.5", "Uses{next,init,other} are filled from the use counts of get_next_exprs / get_init_exprs / assert-assume(-output) expressions respectively, and those getters read state.next / state.init")
    fi = ctx.fn("patronus", INIT_AT)
    fu = ctx.fn("patronus", UNROLL)

    def role_init(step_arg, defs, P, ix, n):
        sid = P.get("step")
        atoms = {sid: "step"} if sid is not None else {}
        if step_arg.get("k") == "local" and step_arg["id"] == sid:
            return "step", atoms
        if step_arg.get("k") == "lit" and step_arg.get("v") == 0:
            # literal 0 only denotes the init step under a guard step == 0 (checked by the flow evaluation: role step0)
            return "zero", atoms
        return None, atoms

    def role_unroll(step_arg, defs, P, ix, n):
        prev_id = next_id = None
        for i, d in defs.items():
            if d[0] == "let" and d[2].get("k") == "pbind" and "init" in d[1]:
                init = strip_try(d[1]["init"])
                b, ms = chain(init)
                fp = field_path(b)
                if fp and fp[0] == "self" and fp[2] == ["current_step"] and [m[0] for m in ms] in (["unwrap"], ["expect"]):
                    prev_id = i
        for i, d in defs.items():
            if d[0] == "let" and d[2].get("k") == "pbind" and "init" in d[1] and prev_id is not None:
                init = peel(d[1]["init"])
                if init.get("k") == "binary" and init["op"] == "+" and ((is_local(init["l"], prev_id) and is_lit(init["r"], 1)) or (is_local(init["r"], prev_id) and is_lit(init["l"], 1))):
                    next_id = i
        atoms = {}
        if prev_id is not None:
            atoms[prev_id] = "prev_step"
        if step_arg.get("k") == "local" and step_arg["id"] == prev_id:
            return "prev", atoms
        if step_arg.get("k") == "local" and step_arg["id"] == next_id:
            return "next", atoms
        return None, atoms

    sites = define_sites(ctx, fi, role_init) + define_sites(ctx, fu, role_unroll)
    ctx.floor("R04.1", "define_signals call sites", len(sites), 5)
    ctx.extra["define_signals_sites"] = [s_["text"] for s_ in sites]
    # also: current_step is advanced to next_step at the end of unroll, and set to step in init_at
    r041(ctx, sites)
    r042(ctx, fi, fu)
    r043(ctx)
    r044(ctx)
    r045(ctx)
    r046(ctx, fi, fu, sites)
    # expr_in_step re-creates every node whose children were renamed to step symbols through the expression-level
    # rebuild step (expr/transform.rs, an anchor of this property): its table is a prerequisite of faithfulness
    from . import c01
    from ..tables import T0, T1
    ctx.rule("R01.1", "update_expr_children rebuilds the same operator with the same attributes over the rewritten children in the same positions (shared with C01)")
    t0 = T0(ctx)
    c01.r011(ctx, t0, T1(ctx, t0))
    # "every term is well-sorted .. and it describes the system exactly": the SMT-LIB text of every operator (smt/serialize.rs, an anchor of this
    # property) - the expression-writer clauses of C05, reported under their own rule ids (C02 gets them through this function)
    from . import c05
    c05.run_expr(ctx)


CLASS_ATOMS = ["info.uses.init>0", "info.uses.next>0", "info.uses.other>0", "info.is_input"]


def r041(ctx, sites):
    known = set(CLASS_ATOMS) | {"step>0", "prev_step>0"}
    for s_ in sites:
        extra = (bp.atoms(s_["filter"]) | bp.atoms(s_["guard"])) - known
        if extra:
            ctx.violation("R04.1", "define_signals:unknown-atom", s_["node"]["sp"], "UNRECOGNISED (fail closed): filter/guard uses atoms %s outside the use-class model" % sorted(extra))
            return
    flows = {
        # flow name: (roles taking part, valuation of the step atoms per role, init classes needed?)
        "A(step 0 = entry step)": ({"step": {"step>0": False}, "zero": {"step>0": False}, "prev": {"prev_step>0": False}}, True),
        "B(entry step s0>0)": ({"step": {"step>0": True}, "zero": None, "prev": {"prev_step>0": True}}, False),
        "C(step t>s0)": ({"next": {}, "prev": {"prev_step>0": True}}, False),
    }
    n_ob = 0
    for fname, (roles, need_init) in flows.items():
        for bits in itertools.product([False, True], repeat=4):
            val0 = dict(zip(CLASS_ATOMS, bits))
            hits = []
            for s_ in sites:
                if s_["role"] not in roles:
                    continue
                stepval = roles[s_["role"]]
                if stepval is None:
                    # a literal-0 step in a flow where the entry step is not 0: applies only if its guard holds with step>0
                    stepval = {"step>0": True}
                val = dict(val0)
                val.update({"step>0": False, "prev_step>0": False})
                val.update(stepval)
                if s_["role"] == "zero" and val["step>0"]:
                    # defining step 0 while initialising at a later step would be a wrong-step definition
                    if bp.ev(s_["guard"], val) and bp.ev(s_["filter"], val):
                        hits.append((s_, "WRONG-STEP"))
                    continue
                if bp.ev(s_["guard"], val) and bp.ev(s_["filter"], val):
                    hits.append((s_, ""))
            cls = "init=%d next=%d other=%d input=%d" % tuple(int(b) for b in bits)
            needed = val0["info.uses.other>0"] or val0["info.is_input"] or val0["info.uses.next>0"] or (need_init and val0["info.uses.init>0"])
            n_ob += 2
            ctx.inst("R04.1", "disjoint|%s|%s" % (fname, cls), len(hits) <= 1 and not any(w for _, w in hits), hits[0][0]["node"]["sp"] if hits else None,
                     "in flow %s a signal of use-class [%s] is defined %d times for the same step: by %s - the solver rejects the second define-fun of the same symbol" % (
                         fname, cls, len(hits), " and by ".join(h["text"] for h, _ in hits)),
                     sample={"flow": fname, "class": cls, "defined_by": [h["text"] for h, _ in hits]})
            ctx.inst("R04.1", "covered|%s|%s" % (fname, cls), (not needed) or len(hits) >= 1, None,
                     "in flow %s a signal of use-class [%s] is used but never defined for that step" % (fname, cls), nontrivial=needed)
    ctx.extra["obligations"] = n_ob
    ctx.extra["discharged"] = n_ob - len([v for v in ctx.violations if v["rule"] == "R04.1"])


def count_paths(n, is_call, depth=0):
    """set of (count, tags) over all normal-completion paths of node n; tags: frozenset of condition tags"""
    k = n.get("k") if isinstance(n, dict) else None
    if isinstance(n, list):
        acc = {(0, frozenset())}
        for x in n:
            nxt = count_paths(x, is_call, depth)
            acc = {(a + b, ta | tb) for a, ta in acc for b, tb in nxt}
        return acc
    if not isinstance(n, dict):
        return {(0, frozenset())}
    if k is None:
        return count_paths([v for key, v in n.items() if key != "mac" and isinstance(v, (dict, list))], is_call, depth)
    if k == "block":
        return count_paths(n["stmts"] + ([n["tail"]] if "tail" in n else []), is_call, depth)
    if k == "blockexpr":
        return count_paths(n["b"], is_call, depth)
    if k == "if":
        c = count_paths(n["cond"], is_call, depth)
        tag = cond_tag(n["cond"])
        t = {(a, ta | ({tag[0]} if tag else set())) for a, ta in count_paths(n["then"], is_call, depth)}
        e = count_paths(n["else"], is_call, depth) if "else" in n else {(0, frozenset())}
        e = {(a, ta | ({tag[1]} if tag else set())) for a, ta in e}
        br = t | e
        return {(a + b, frozenset(ta | tb)) for a, ta in c for b, tb in br}
    if k == "match":
        c = count_paths(n["scrut"], is_call, depth)
        br = set()
        sc = peel(n["scrut"])
        comps = sc["es"] if sc.get("k") == "tuple" else [sc]
        cpos = [i for i, x in enumerate(comps) if cond_tag(x) and cond_tag(x)[0] == "is_const"]
        for arm in n["arms"]:
            tags = set()
            if cpos:
                # `match (.., state.is_const()) { (.., true) => .. }`: the arm runs for constant states only
                pt = arm["pat"]
                while pt.get("k") in ("pref", "pderef"):
                    pt = pt["pat"]
                sub = pt["subs"][cpos[0]] if pt.get("k") == "ptuple" and len(pt.get("subs", [])) == len(comps) else (pt if len(comps) == 1 else None)
                if sub is not None and sub.get("k") == "plit" and isinstance(sub.get("v"), bool):
                    tags.add("is_const" if sub["v"] else "not_const")
            if "guard" in arm and cond_tag(arm["guard"]):
                tags.add(cond_tag(arm["guard"])[0])        # `Some(_) if state.is_const() => {}`
            br |= {(a, frozenset(ta | tags)) for a, ta in count_paths(arm["body"], is_call, depth)}
        return {(a + b, frozenset(ta | tb)) for a, ta in c for b, tb in br}
    if k in ("for", "while", "loop", "closure"):
        inner = [x for x in walk(n) if is_call(x)]
        return {(0, frozenset())} if not inner else {(99, frozenset(["loop"]))}
    if k in ("return", "break", "continue"):
        return set()
    acc = count_paths([v for key, v in n.items() if key != "mac" and isinstance(v, (dict, list))], is_call, depth)
    if is_call(n):
        acc = {(a + 1, t) for a, t in acc}
    return acc


def cond_tag(c):
    c = peel(c)
    neg = False
    if c.get("k") == "unary" and c["op"] == "!":
        neg, c = True, peel(c["e"])
    if c.get("k") == "mcall" and c["name"] == "is_const":
        return ("not_const", "is_const") if neg else ("is_const", "not_const")
    return None


def r042(ctx, fi, fu):
    def is_def(n):
        return n.get("k") == "mcall" and n["name"] in ("define_const", "declare_const") and "SolverContext" in (n.get("path") or "")
    for f, tag in ((fi, "init_at"), (fu, "unroll")):
        loops = [n for n in walk(f["body"]) if n.get("k") == "for"]
        sl = None
        for l in loops:
            b, ms = chain(l["iter"])
            fp = field_path(b)
            if fp and fp[0] == "self" and fp[2] == ["states"] and [m[0] for m in ms] == ["iter"]:
                sl = l
        if sl is None:
            ctx.violation("R04.2", "%s:state-loop" % tag, f["span"], "no `for state in self.states.iter()` loop found: states are not declared/defined for this step")
            continue
        paths = count_paths(sl["body"], is_def)
        bad = []
        for cnt, tags in paths:
            if cnt == 1:
                continue
            if cnt == 0 and tag == "unroll" and "is_const" in tags:
                continue
            bad.append((cnt, sorted(tags)))
        ctx.inst("R04.2", "%s:states-exactly-once" % tag, not bad, sl["sp"],
                 "in %s the state loop has paths emitting %s define/declare commands for a state (must be exactly 1%s)" % (tag, bad, ", 0 allowed only for constant states" if tag == "unroll" else ""),
                 sample={"function": tag, "paths": sorted((c, sorted(t)) for c, t in paths)})
        # the symbol being defined: for unroll it is named with next_step; for init_at with step (or un-stepped for const states)
    # init_at: a state is defined from its init expression only when the encoding starts at step 0 (entry at a later step leaves states free)
    fix = Index(fi["body"])
    step_id = {name: i_ for p_ in fi["params"] for name, i_ in pat_bindings(p_)}.get("step")

    def says_step0(c_, pol, depth=0):
        if not pol or depth > 3:
            return False
        if c_.get("k") in ("armpat", "letexpr"):
            scr = resolve(c_["scrut"] if c_["k"] == "armpat" else c_["init"])
            alts = pat_alts(c_["pat"])
            if is_local(scr, step_id) and alts and all(a_.get("k") == "plit" and a_.get("v") == 0 for a_ in alts):
                return True
            # `let init = if step == 0 { state.init } else { None }; if let Some(v) = init`: the alternative that can be Some is selected by step == 0
            raw = c_["scrut"] if c_["k"] == "armpat" else c_["init"]
            if peel(raw).get("k") in ("local", "if", "match", "blockexpr") and all(a_.get("k") == "pvariant" and a_["path"].endswith("Option::Some") for a_ in alts):
                some_alts = [(cs, x) for cs, x in norm_.value_alternatives(raw) if not (peel(x).get("k") == "def" and (peel(x).get("path") or "").endswith("Option::None"))]
                return bool(some_alts) and all(any(says_step0(resolve(c2) if c2.get("k") not in ("armpat", "letexpr") else c2, p2, depth + 1) for c2, p2 in cs) for cs, _ in some_alts)
            return False
        c_ = resolve(c_)
        if c_.get("k") == "binary" and c_["op"] == "==":
            for a_, b_ in ((c_["l"], c_["r"]), (c_["r"], c_["l"])):
                if is_local(a_, step_id) and peel(b_).get("k") == "lit" and peel(b_).get("v") == 0:
                    return True
        return False
    n_def = 0
    for x in fix.nodes:
        if x.get("k") == "mcall" and x["name"] == "define_const" and "SolverContext" in (x.get("path") or ""):
            n_def += 1
            conds = norm_.path_conditions(fix, x, arms=True)
            ok0 = step_id is not None and any(says_step0(c_, pol) for c_, pol in conds)
            ctx.inst("R04.2", "init_at:define-only-at-step0-with-init" + ("" if n_def == 1 else "#%d" % n_def), ok0, x["sp"],
                     "init_at defines a state from its init expression on a path that is not restricted to step 0: entry at a later step must leave states free",
                     sample=[show(c_)[:60] if c_.get("k") not in ("armpat",) else "match %s: %s" % (show(c_["scrut"])[:30], show_pat(c_["pat"])[:30]) for c_, _ in conds][:6])
    # is_const
    f = ctx.fn("patronus", IS_CONST)
    ok, why = is_const_shape(peel_block(f["body"]))
    ctx.inst("R04.2", "State::is_const", ok, f["span"], "State::is_const is `%s`: %s. The unroller represents a constant state by one un-stepped symbol and never updates it, which is only sound when next == symbol" % (show(f["body"]), why), sample=show(f["body"]))


def is_const_shape(b):
    """every way for the body to be true must imply next == Some(symbol)"""
    b = peel(b)
    k = b.get("k")
    if k == "binary" and b["op"] == "&&":
        a1, _ = is_const_shape(b["l"])
        a2, _ = is_const_shape(b["r"])
        return (a1 or a2), "neither conjunct implies next == symbol"
    if k == "binary" and b["op"] == "||":
        a1, w1 = is_const_shape(b["l"])
        a2, w2 = is_const_shape(b["r"])
        return (a1 and a2), "a disjunct does not imply next == symbol"

    def is_self_field(n, name):
        fp = field_path(n)
        return fp is not None and fp[0] == "self" and fp[2] == [name]
    if k == "binary" and b["op"] == "==":
        for x, y in ((b["l"], b["r"]), (b["r"], b["l"])):
            y_ = peel(y)
            if is_self_field(x, "next") and y_.get("k") == "ctor" and callee(y_).endswith("Option::Some") and is_self_field(y_["args"][0], "symbol"):
                return True, ""
        return False, "comparison is not next == Some(symbol)"
    base, ms = chain(b)
    names = [m[0] for m in ms]
    if is_self_field(base, "next") and names in (["map", "unwrap_or"], ["is_some_and"], ["map_or"]):
        if names == ["map", "unwrap_or"]:
            cl, dflt = peel(ms[0][1][0]), peel(ms[1][1][0])
            if not (dflt.get("k") == "lit" and dflt.get("v") is False):
                return False, "default for a missing next is not false"
        elif names == ["map_or"]:
            dflt, cl = peel(ms[0][1][0]), peel(ms[0][1][1])
            if not (dflt.get("k") == "lit" and dflt.get("v") is False):
                return False, "default for a missing next is not false"
        else:
            cl = peel(ms[0][1][0])
        if cl.get("k") == "closure" and len(cl["params"]) == 1:
            pb = binding_of_pat(cl["params"][0])
            body = peel(peel_block(cl["body"]))
            return closure_eq_symbol(body, pb, is_self_field)
    return False, "UNRECOGNISED shape"


def closure_eq_symbol(body, pb, is_self_field):
    if body.get("k") == "binary" and body["op"] == "&&":
        a1, _ = closure_eq_symbol(peel(body["l"]), pb, is_self_field)
        a2, _ = closure_eq_symbol(peel(body["r"]), pb, is_self_field)
        return (a1 or a2), "no conjunct compares next with symbol"
    if body.get("k") == "binary" and body["op"] == "||":
        a1, _ = closure_eq_symbol(peel(body["l"]), pb, is_self_field)
        a2, _ = closure_eq_symbol(peel(body["r"]), pb, is_self_field)
        return (a1 and a2), "a disjunct does not compare next with symbol"
    if body.get("k") == "binary" and body["op"] == "==":
        for x, y in ((body["l"], body["r"]), (body["r"], body["l"])):
            if pb and is_local(x, pb[1]) and is_self_field(y, "symbol"):
                return True, ""
    return False, "closure does not test next == symbol"


def r043(ctx):
    """every Context::symbol / Context::string for stepped names in mc::encoding takes name_at(..)"""
    c = ctx.facts.lib("patronus")
    n_sites = 0
    for path, fl in c.fns.items():
        if not (path.startswith(ENC) or path.startswith(TRAIT_IMPL)):
            continue
        for f in fl:
            defs = local_defs(f)
            for n in walk(f["body"]):
                if n.get("k") == "mcall" and callee(n) == "patronus::expr::context::Context::symbol":
                    n_sites += 1
                    name_arg = peel(n["args"][0])
                    ok, why = name_from_name_at(name_arg, defs, 0)
                    ctx.inst("R04.3", "%s:symbol#%d" % (path.split("::")[-1], n_sites), ok, n["sp"],
                             "symbol created in the unroller with a name that is not name_at(base, step) (or the un-stepped name of a constant state): %s; %s" % (show(n), why),
                             sample=show(n))
    ctx.floor("R04.3", "Context::symbol sites in mc::encoding", n_sites, 4)
    # name_at itself: one format string with both arguments
    f = ctx.fn("patronus", NAME_AT)
    site = None
    for n in walk(f["body"]):
        m = n.get("mac")
        if m and "format" in m.get("names", []):
            site = m["site"]
    snippet = c.macros.get(site, "") if site else ""
    P = [binding_of_pat(p)[0] for p in f["params"] if binding_of_pat(p)]
    ok = site is not None and snippet.count("{") == 2 and all(p in snippet for p in P)
    ctx.inst("R04.3", "name_at:format", ok, f["span"], "name_at does not format both its base name and its step into the symbol name: `%s` (two different steps or two different signals would share a symbol)" % snippet, sample=snippet)
    # const consistency between create_signal_symbols_in_step (info.is_const) and init_at/unroll (state.is_const())
    g = ctx.fn("patronus", ENC + "::new")
    ok = False
    for n in walk(g["body"]):
        if n.get("k") == "struct" and n["path"].endswith("SmtSignalInfo"):
            fs = {x["name"]: x["e"] for x in n["fields"]}
            st = peel(fs.get("is_state", {}))
            if st.get("k") == "lit" and st.get("v") is True:
                ic = peel(fs.get("is_const", {}))
                ok = ic.get("k") == "mcall" and callee(ic) == IS_CONST
    ctx.inst("R04.3", "new:is_const-source", ok, g["span"], "SmtSignalInfo.is_const of a state is not taken from State::is_const(): the symbol table and init_at/unroll would disagree on which states are un-stepped")


def name_from_name_at(n, defs, depth):
    n = strip_try(n)
    if depth > 6:
        return False, "definition chain too long"
    if n.get("k") == "local":
        d = defs.get(n["id"])
        if d and d[0] == "let" and "init" in d[1] and d[2].get("k") == "pbind":
            return name_from_name_at(d[1]["init"], defs, depth + 1)
        return False, "name `%s` is not a simple let binding" % n["name"]
    if n.get("k") == "if":
        c = cond_tag(n["cond"])
        pc = peel(n["cond"])
        fp = field_path(pc)
        is_const_cond = c is not None or (fp is not None and fp[2] == ["is_const"])
        if not is_const_cond:
            return False, "conditional name not governed by is_const"
        a, wa = name_from_name_at(peel_block(n["then"]), defs, depth + 1)
        b, wb = name_from_name_at(peel_block(n["else"]), defs, depth + 1) if "else" in n else (False, "no else")
        # exactly one branch is the un-stepped name
        return (a or wa == "unstepped") and (b or wb == "unstepped") and (a or b), "branches: %s / %s" % (wa, wb)
    if n.get("k") == "blockexpr":
        st = stmts_of(n)
        return name_from_name_at(st[-1], defs, depth + 1)
    if n.get("k") == "mcall" and callee(n) == "patronus::expr::context::Context::string":
        a = strip_try(n["args"][0])
        b, ms = chain(a)
        if b.get("k") == "call" and callee(b) == NAME_AT:
            return True, ""
        if b.get("k") == "local":
            return name_from_name_at(b, defs, depth + 1)
        return False, "string interned from `%s`" % show(a)
    if n.get("k") == "call" and callee(n) == NAME_AT:
        return True, ""
    b, ms = chain(n)
    if b.get("k") == "call" and callee(b) == NAME_AT:
        return True, ""
    fp = field_path(n)
    if fp is not None and fp[2] in (["name"], ["symbol"]):
        return False, "unstepped"
    return False, "`%s`" % show(n)


def r044(ctx):
    c = ctx.facts.lib("patronus")
    cnt = 0
    for path, fl in c.fns.items():
        if not path.startswith("patronus::mc::encoding::") and not path.startswith(TRAIT_IMPL):
            continue
        for f in fl:
            for inst in intcast.narrowing_casts(f):
                cnt += 1
                ok, why = intcast.guarded(f, inst)
                ctx.inst("R04.4", "%s:%s#%d" % (path.split("::")[-1], inst["desc"], inst["ordinal"]), ok, inst["node"]["sp"],
                         "narrowing cast `%s` (%s -> %s) in %s without a range check: beyond %s::MAX signals the ids alias and a use refers to another signal's step symbol (%s)" % (
                             show(inst["node"]), inst["from"], inst["to"], path, inst["to"], why),
                         sample={"fn": path, "cast": show(inst["node"]), "guard": why})
    ctx.extra["narrowing_casts_in_encoding"] = cnt


def r045(ctx):
    f = ctx.fn("patronus", DET_USES)
    defs = local_defs(f)
    want = {"next": "get_next_exprs", "init": "get_init_exprs", "other": ("get_assert_assume_exprs", "get_assert_assume_output_exprs")}
    found = False
    for n in walk(f["body"]):
        if n.get("k") == "struct" and n["path"].endswith("analysis::Uses"):
            found = True
            for fl in n["fields"]:
                e = resolve(fl["e"])
                src = None
                if e.get("k") == "index":
                    b = peel(e["e"])
                    if b.get("k") == "local":
                        init = simple_let_init(defs, b["id"])
                        srcs = set()

                        def collect(x0, depth=0):
                            for x in walk(x0):
                                if x.get("k") == "mcall" and x["name"].startswith("get_") and x["name"].endswith("_exprs"):
                                    srcs.add(x["name"])
                                elif x.get("k") == "local" and depth < 4:
                                    i2 = simple_let_init(defs, x["id"])
                                    if i2 is not None:
                                        collect(i2, depth + 1)
                        if init is not None:
                            collect(init)
                        src = srcs
                w = want.get(fl["name"])
                ok = src is not None and len(src) > 0 and all((s_ == w) if isinstance(w, str) else (s_ in w) for s_ in src)
                ctx.inst("R04.5", "Uses.%s" % fl["name"], ok, fl["e"]["sp"], "Uses.%s is filled from use counts over %s, expected %s: signals would be defined in the wrong step block" % (fl["name"], sorted(src) if src else show(e), w),
                         sample={"field": fl["name"], "source": sorted(src) if src else None})
    ctx.inst("R04.5", "Uses:construction", found, f["span"], "determine_simples_uses does not construct Uses{..}")
    for getter, fld in (("get_init_exprs", "init"), ("get_next_exprs", "next")):
        g = ctx.fn("patronus", "patronus::system::transition_system::TransitionSystem::" + getter)
        fields = set()
        for x in walk(g["body"]):
            if x.get("k") == "field" and x["name"] in ("init", "next", "symbol"):
                fields.add(x["name"])
        ctx.inst("R04.5", getter, fields == {fld}, g["span"], "%s reads state fields %s, expected only `%s`" % (getter, sorted(fields), fld))


# which classes of definitions may reference which (trusted model, from the semantics of transition systems: init
# expressions may read earlier states and inputs; next/other signals of a step read that step's states and inputs)
MAY_REFERENCE = [
    ("init-use signals@0", "state symbols@0", "an init expression may read earlier states, so a shared sub-expression of it may too"),
    ("state definitions@0", "init-use signals@0", "a state's init definition uses the shared signals of its init expression"),
    ("other-use signals@entry", "state symbols@entry", "constraints / bad states / outputs read the states"),
    ("next-only signals@prev", "state symbols@prev", "next-state functions read the states of the previous step"),
    ("state definitions@next", "next-only signals@prev", "the next value of a state is defined from the previous step's next-only signals"),
    ("other-use signals@next", "state symbols@next", "constraints / bad states of the new step read its states"),
]


def r046(ctx, fi, fu, sites):
    """definition order: a block may only reference what earlier blocks (or earlier entries of the same ordered block) defined"""
    ctx.rule("R04.6", "block order in init_at/unroll respects the may-reference relation between definition classes (a symbol is declared or defined before any definition that may reference it)")
    pos = {}
    for f, tag in ((fi, "init_at"), (fu, "unroll")):
        ix = Index(f["body"])
        order = []
        for n in ix.nodes:
            if n.get("k") == "mcall" and callee(n) == DEFINE_SIGNALS:
                st = [s_ for s_ in sites if s_["node"] is n]
                order.append(("signals", st[0] if st else None, n))
            if n.get("k") == "for":
                b, ms = chain(n["iter"])
                fp = field_path(b)
                if fp and fp[0] == "self" and fp[2] == ["states"]:
                    order.append(("states", None, n))
        pos[tag] = order

    def idx(tag, pred):
        for i, (kind, site, n) in enumerate(pos[tag]):
            if pred(kind, site):
                return i
        return None

    def sig(role, formula_has):
        roles = role if isinstance(role, tuple) else (role,)
        return lambda kind, site: kind == "signals" and site is not None and site["role"] in roles and formula_has(bp.fshow(site["filter"]))
    # (the init-use block may name its step `0` or `step`: R04.1 evaluates it under its guard either way)
    i_init_sig = idx("init_at", sig(("zero", "step"), lambda t: "uses.init>0" in t and "!" not in t.split("uses.init>0")[0][-1:]))
    i_states0 = idx("init_at", lambda kind, site: kind == "states")
    i_other0 = idx("init_at", sig("step", lambda t: "uses.other>0" in t))
    u_next_only = idx("unroll", sig("prev", lambda t: "uses.next>0" in t))
    u_states = idx("unroll", lambda kind, site: kind == "states")
    u_other = idx("unroll", sig("next", lambda t: "uses.other>0" in t))
    found = {"init-use signals@0": ("init_at", i_init_sig), "state symbols@0": ("init_at", i_states0), "state definitions@0": ("init_at", i_states0),
             "other-use signals@entry": ("init_at", i_other0), "state symbols@entry": ("init_at", i_states0),
             "next-only signals@prev": ("unroll", u_next_only), "state symbols@prev": ("before", -1), "state definitions@next": ("unroll", u_states),
             "state symbols@next": ("unroll", u_states), "other-use signals@next": ("unroll", u_other)}
    missing = [k for k, v in found.items() if v[1] is None]
    if missing:
        ctx.violation("R04.6", "order:blocks", fi["span"], "UNRECOGNISED: definition blocks %s not found in init_at/unroll" % missing)
        return
    # per-element interleaving: the init-use signals are defined inside the state loop, right before the state that needs them
    interleaved = False
    if i_init_sig is not None and i_states0 is not None:
        kind, site, n = pos["init_at"][i_init_sig]
        sl = pos["init_at"][i_states0][2]
        if site is not None and site.get("interleaved_with_states") and contains(sl["body"], n):
            ixi = Index(fi["body"])
            defs_ = [x for x in walk(sl["body"]) if x.get("k") == "mcall" and x["name"] in ("define_const", "declare_const")]
            interleaved = bool(defs_) and all(ixi.precedes(n, d) for d in defs_)
    for user, used, why in MAY_REFERENCE:
        (tu, iu), (td, idd) = found[user], found[used]
        ok = td == "before" or (tu == td and idd <= iu) or (td == "init_at" and tu == "unroll")
        if interleaved and {user, used} <= {"init-use signals@0", "state symbols@0", "state definitions@0"}:
            # state i's init may only read states j < i (already declared); its shared signals are emitted just before it
            ok = True
        # a block that both uses and is used by another class is only sound when the two are interleaved per element
        ctx.inst("R04.6", "order:%s -> %s" % (user, used), ok, pos[tu][iu][2]["sp"],
                 "%s may reference %s (%s) but are emitted before them: the script uses a symbol before it is declared" % (user, used, why),
                 sample={"user": user, "references": used, "emitted": "%s block #%d vs %s block #%s" % (tu, iu, td, idd)})
