"""C06 - evaluator operator table and stack discipline, unimplemented-arm inventory, short-circuit lookup,
dependency sibling rule on baa's one-word / multi-word branches."""
from ..tree import *  # noqa
from .. import norm as norm_
from ..flow import Index
from ..tables import *  # noqa
from .c02 import binding_of_pat

EVAL = "patronus::expr::eval::eval_expr_internal"
UN_OP = "patronus::expr::eval::un_op"
BIN_OP = "patronus::expr::eval::bin_op"
THOROUGH_SCOPE = "lib"

EXPLANATION = ("Static table analysis of expr::eval::eval_expr_internal (rustc HIR facts): each of the 35 arms is reduced to a term over the popped operands by a small symbolic stack simulation and compared with the "
               "SMT-LIB meaning of the variant (operator identity, operand order, signedness; comparisons modulo swap/negation); the stack discipline it rests on is extracted, not assumed (bin_op pops a then b; children are "
               "pushed in for_each_child order after the parent on a LIFO work list, so child 0 is on top); only the five documented division/remainder variants may be unimplemented; a supplied value short-circuits the "
               "sub-tree and value stores look up by reference only; in the locked baa dependency every BitVecOps method with a one-word fast path must call the same primitive in both branches, and workspace callers of a "
               "method that does not are findings.")
ASSUMPTIONS = ["the baa primitives (cmp_*, arithmetic on word slices) are correct", "canonical representation of results is baa's concern and not decided"]
LEVEL_TEXT = ("Exhaustive sibling-table comparison (35 variants) of the evaluator against the IR's stated SMT-LIB meaning plus a contradiction rule over the dependency's two code paths per operation: decides operator identity, operand order and "
              "signedness for every operator at once, including operators and widths no test evaluates. Arithmetic inside baa is trusted.")
LEVEL_NOTE = "Decides which baa operation each variant maps to and in which operand order; trusts the numeric kernels of baa except for the one-word/multi-word agreement rule."
TECHNIQUE = "arm-table extraction with symbolic stack simulation vs. an SMT-LIB oracle table; Engler-style sibling-branch contradiction rule on the dependency; whole-value write rule on the value store"

# oracle: variant -> term over children c0.. and attributes (SMT-LIB meaning, stated by nodes.rs names/docs)
ORACLE = {
    "BVZeroExt": ("zero_extend", "c0", "@by"), "BVSignExt": ("sign_extend", "c0", "@by"), "BVSlice": ("slice", "c0", "@hi", "@lo"),
    "BVNot": ("not", "c0"), "BVNegate": ("negate", "c0"),
    "BVEqual": ("eq", "c0", "c1"), "BVImplies": ("or", ("not", "c0"), "c1"),
    "BVGreater": ("cmp", "gt", "u", "c0", "c1"), "BVGreaterSigned": ("cmp", "gt", "s", "c0", "c1"),
    "BVGreaterEqual": ("cmp", "ge", "u", "c0", "c1"), "BVGreaterEqualSigned": ("cmp", "ge", "s", "c0", "c1"),
    "BVConcat": ("concat", "c0", "c1"), "BVAnd": ("and", "c0", "c1"), "BVOr": ("or", "c0", "c1"), "BVXor": ("xor", "c0", "c1"),
    "BVShiftLeft": ("shift_left", "c0", "c1"), "BVArithmeticShiftRight": ("arithmetic_shift_right", "c0", "c1"), "BVShiftRight": ("shift_right", "c0", "c1"),
    "BVAdd": ("add", "c0", "c1"), "BVMul": ("mul", "c0", "c1"), "BVSub": ("sub", "c0", "c1"),
    "BVIte": ("ite", "c0", "c1", "c2"), "ArrayIte": ("ite", "c0", "c1", "c2"),
    "BVArrayRead": ("select", "c0", "c1"), "ArrayStore": ("store", "c0", "c1", "c2"), "ArrayConstant": ("new_sparse", "@index_width", "c0"),
    "ArrayEqual": ("eq", "c0", "c1"),
}
UNIMPLEMENTED_OK = {"BVSignedDiv", "BVUnsignedDiv", "BVSignedMod", "BVSignedRem", "BVUnsignedRem"}
COMM = {"eq", "and", "or", "xor", "add", "mul"}
ARRAY_CHILD = {"BVArrayRead": [0], "ArrayStore": [0], "ArrayEqual": [0, 1], "ArrayIte": [1, 2]}

CMP = {"is_greater": ("gt", "u", False), "is_greater_signed": ("gt", "s", False), "is_greater_or_equal": ("ge", "u", False), "is_greater_or_equal_signed": ("ge", "s", False),
       "is_less": ("gt", "u", True), "is_less_signed": ("gt", "s", True), "is_less_or_equal": ("ge", "u", True), "is_less_or_equal_signed": ("ge", "s", True)}


def norm(t):
    """normal form: comparisons as (cmp, rel, sign, x, y) with swaps/negations folded, commutative operands sorted"""
    if not isinstance(t, tuple):
        return t
    t = tuple(norm(x) for x in t)
    if t[0] == "boolnot" and isinstance(t[1], tuple) and t[1][0] == "cmp":
        _, rel, sg, x, y = t[1]
        return ("cmp", "ge" if rel == "gt" else "gt", sg, y, x)
    if t[0] in COMM:
        return (t[0],) + tuple(sorted(t[1:], key=repr))
    return t


def term_of(n, env):
    """term for an expression over closure params / popped locals; env: local id -> term"""
    n = peel(n)
    k = n.get("k")
    if k == "local":
        if n["id"] in env:
            return env[n["id"]]
        for i_, v_ in env.items():
            if canon(i_) == canon(n["id"]):
                return v_
        return ("?local", n["name"])
    if k == "callv":
        # a call of a closure value (e.g. the `op` parameter of an inlined helper): substitute the arguments
        fcl = resolve(n["f"])
        if fcl.get("k") == "closure" and len(fcl["params"]) == len(n["args"]):
            env2 = dict(env)
            for p_, a_ in zip(fcl["params"], n["args"]):
                pb_ = pat_bindings(p_)
                if len(pb_) == 1:
                    env2[pb_[0][1]] = term_of(a_, env)
            return term_of(peel_block(fcl["body"]), env2)
    if k == "mcall":
        nm = n["name"]
        if nm in ("into", "clone", "unwrap_or_default", "unwrap", "to_owned"):
            return term_of(n["recv"], env)
        r = term_of(n["recv"], env)
        args = [term_of(a, env) for a in n["args"]]
        if nm in CMP:
            rel, sg, swap = CMP[nm]
            x, y = (args[0], r) if swap else (r, args[0])
            return ("cmp", rel, sg, x, y)
        if nm == "is_equal":
            return ("eq", r, args[0])
        return (nm, r) + tuple(args)
    if k == "unary" and n["op"] == "!":
        return ("boolnot", term_of(n["e"], env))
    if k == "call":
        return (callee(n).split("::")[-1],) + tuple(term_of(a, env) for a in n["args"])
    if k == "lit":
        return ("lit", n.get("v"))
    return ("?", show(n)[:40])


class Sim:
    """symbolic simulation of an evaluator arm over the two value stacks (top first)"""

    def __init__(self, bv, arr, stacks, attrs):
        self.st = {"bv": list(bv), "arr": list(arr)}
        self.ids = stacks  # local id -> 'bv' | 'arr'
        self.env = dict(attrs)
        self.problems = []
        self.results = []

    def which(self, n):
        n = peel(n)
        if n.get("k") == "local":
            if n["id"] in self.ids:
                return self.ids[n["id"]]
            for i_, w_ in self.ids.items():
                if canon(i_) == canon(n["id"]):
                    return w_
        return None

    def pop_expr(self, n):
        """recognise STACK.pop().unwrap..() / STACK.last_mut().unwrap..() -> (stack, kind)"""
        b, ms = chain(n)
        w = self.which(b)
        if w and ms and ms[0][0] in ("pop", "last_mut") and all(m[0] in ("unwrap", "unwrap_or_else", "expect", "to_bool") for m in ms[1:]):
            return w, ms[0][0]
        return None

    def ev_value(self, n):
        n0 = n
        while n0.get("k") in ("try",):
            n0 = n0["e"]
        if n0.get("k") == "blockexpr" and "inl_id" in n0 and "tail" in n0["b"]:
            # an inlined helper that yields a value: its parameter bindings, then its value
            for x in n0["b"]["stmts"]:
                x0 = unsemi(x)
                if x0.get("k") == "let" and "init" in x0 and x0["pat"].get("k") == "pbind" and self.which(x0["init"]):
                    self.ids[x0["pat"]["id"]] = self.which(x0["init"])
                else:
                    self.stmt(x)
            return self.ev_value(n0["b"]["tail"])
        p = self.pop_expr(n)
        if p:
            w, kind = p
            if not self.st[w]:
                self.problems.append("pops the %s stack when no operand is left" % w)
                return ("?underflow",)
            return self.st[w].pop(0) if kind == "pop" else ("top", w)
        return term_of(n, self.env)

    def stmt(self, s_):
        s_ = unsemi(s_)
        k = s_.get("k")
        if k == "blockexpr":
            # a nested block (e.g. an inlined helper): its statements in order; parameters bound to a stack are aliases of that stack
            sims = [self]
            items = list(s_["b"]["stmts"]) + ([s_["b"]["tail"]] if "tail" in s_["b"] else [])
            for x in items:
                x0 = unsemi(x)
                if x0.get("k") == "let" and "init" in x0 and x0["pat"].get("k") == "pbind" and self.which(x0["init"]):
                    self.ids[x0["pat"]["id"]] = self.which(x0["init"])
                    continue
                nxt = []
                for sm in sims:
                    nxt += sm.stmt(x)
                sims = nxt
            return sims
        if k == "let":
            b = binding_of_pat(s_["pat"])
            v = self.ev_value(s_["init"])
            if b:
                if v == ("top", "arr") or v == ("top", "bv"):
                    self.env[b[1]] = ("top", v[1])
                else:
                    self.env[b[1]] = v
            return [self]
        if k == "mcall":
            w = self.which(s_["recv"])
            if w and s_["name"] == "push":
                self.st[w].insert(0, self.ev_value(s_["args"][0]))
                return [self]
            if self.pop_expr(s_):
                self.ev_value(s_)
                return [self]
            # in-place mutation of the top element: array.store(&index, &data)
            r = peel(s_["recv"])
            if r.get("k") == "local" and self.env.get(r["id"], (None,))[0] == "top":
                w = self.env[r["id"]][1]
                args = [term_of(a, self.env) for a in s_["args"]]
                self.st[w][0] = (s_["name"], self.st[w][0]) + tuple(args)
                return [self]
            self.problems.append("UNRECOGNISED statement %s" % show(s_)[:80])
            return [self]
        if k == "if":
            c = term_of(s_["cond"], self.env)
            outs = []
            for br, tag in ((s_["then"], True), (s_.get("else"), False)):
                cp = Sim(self.st["bv"], self.st["arr"], self.ids, {})
                cp.env = dict(self.env)
                cp.problems = self.problems
                cp.cond = (c, tag)
                if br is not None:
                    for x in stmts_of(br):
                        cp.stmt(x)
                outs.append(cp)
            self.branches = outs
            return outs
        if k in ("call",):
            self.problems.append("call %s" % show(s_)[:60])
            return [self]
        self.problems.append("UNRECOGNISED statement kind %s: %s" % (k, show(s_)[:60]))
        return [self]


def run(ctx):
    ctx.rule("R06.1", "each evaluator arm maps its variant to the baa operation its SMT-LIB meaning requires, with the first popped value being child 0 (bin_op pops a then b; children are pushed in for_each_child order after the parent on a LIFO list); ite/array arms by symbolic stack simulation")
    ctx.rule("R06.2", "only the five documented division/remainder variants may have a todo!/unimplemented! arm; the two symbol arms abort only with the missing-value message")
    ctx.rule("R06.3", "the lookup values.get_bv/get_array(ctx, e) precedes the scheduling of e's children and its hit branch does not schedule them; value stores look values up by reference, not by node kind")
    ctx.rule("R06.4", "in baa, a BitVecOps method of the shape `if self.words().len() == 1 {f(..)} else {g(..)}` must call the same primitive in both branches; workspace calls of a method that does not are findings")
    t0 = T0(ctx)
    t1 = T1(ctx, t0)
    f = ctx.fn("patronus", EVAL)
    ix = Index(f["body"])
    defs = local_defs(f)
    stacks = {}
    todo_id = None
    for i, d in defs.items():
        if d[0] == "let" and d[2].get("k") == "pbind" and not d[1].get("inl_param"):
            nm = d[2]["name"]
            if nm == "bv_stack":
                stacks[i] = "bv"
            elif nm == "array_stack":
                stacks[i] = "arr"
            elif nm == "todo":
                todo_id = i
    if len(stacks) != 2 or todo_id is None:
        ctx.violation("R06.1", "eval:locals", f["span"], "UNRECOGNISED: expected locals bv_stack, array_stack, todo")
        return
    discipline(ctx, f, ix, defs, stacks, todo_id)
    # the arm table
    m = None
    for n in ix.nodes:
        if n.get("k") == "match" and n.get("src") == "match" and len(n["arms"]) > 20:
            m = n
    if m is None:
        ctx.violation("R06.1", "eval:match", f["span"], "UNRECOGNISED: no match over the expression kinds")
        return
    # the helpers that pop n operands, apply a closure to them and push the result (today the free functions un_op / bin_op): discovered
    # from the calls in the arms, so that they may as well be methods of the stack
    helper_cache = {}
    c_lib = ctx.facts.lib("patronus")

    def helper_info(call):
        cp = callee(call)
        if not cp:
            return None
        if cp not in helper_cache:
            fl = c_lib.fns.get(cp)
            info_ = None
            if fl and len(fl) == 1:
                hf = fl[0]
                # sub-helpers that receive the helper's own parameters (`pop_operand(stack)`) are part of it
                pids_ = {i_ for p_ in hf["params"] for _, i_ in pat_bindings(p_)}
                subs_ = {callee(x) for x in walk(hf["body"]) if x.get("k") == "call" and (callee(x) or "") in c_lib.fns and callee(x) != cp
                         and any(local_id(a_) in pids_ for a_ in x.get("args", []))}
                if subs_:
                    hf = norm_.prepare(hf, c_lib, force=tuple(sorted(subs_)))
                P_ = [binding_of_pat(p) for p in hf["params"]]
                ids = [b_[1] if b_ else None for b_ in P_]
                pops_on = {canon(local_id(x["recv"])) for x in walk(hf["body"]) if x.get("k") == "mcall" and x["name"] == "pop" and local_id(x["recv"]) is not None}
                called = {canon(local_id(x["f"])) for x in walk(hf["body"]) if x.get("k") == "callv" and local_id(x["f"]) is not None}
                si = [i for i, v in enumerate(ids) if v is not None and canon(v) in pops_on]
                oi = [i for i, v in enumerate(ids) if v is not None and canon(v) in called]
                if len(si) == 1 and len(oi) == 1:
                    npops = len([x for x in walk(hf["body"]) if x.get("k") == "mcall" and x["name"] == "pop" and is_local(x["recv"], ids[si[0]])])
                    okh = helper_pops(ctx, hf, npops, si[0], oi[0])
                    info_ = (okh, si[0], oi[0])
            helper_cache[cp] = info_
        return helper_cache[cp]
    seen = set()
    for alt, arm in match_arms(m):
        vp = variant_pat(alt)
        if vp is None:
            ctx.violation("R06.1", "eval:wildcard", arm["sp"], "evaluator has a catch-all arm `%s`" % show_pat(alt))
            continue
        name = vname(vp[0])
        if name in seen or name not in t0.variants:
            continue
        seen.add(name)
        info = t0.variants[name]
        attrs = {}
        for kk, sp in vp[1].items():
            b = binding_of(sp)
            if b:
                attrs[b[1]] = "@%s" % kk
        body = arm["body"]
        aborts = [x for x in walk(body, into_closures=False) if (callee(x) or "").startswith("core::panicking")]
        macs = set()
        for x in aborts:
            macs |= set(mac_names(x))
        if aborts:
            is_todo = bool(macs & {"todo", "unimplemented"})
            if not info["child_keys"]:
                okp = name in ("BVSymbol", "ArraySymbol") and "panic" in macs and not is_todo
                ctx.inst("R06.2", "eval:%s" % name, okp, arm["sp"], "nullary variant %s aborts with %s" % (name, sorted(macs & {"todo", "panic", "unimplemented", "unreachable"})))
            else:
                ctx.inst("R06.2", "eval:%s" % name, name in UNIMPLEMENTED_OK and is_todo and not [x for x in walk(body) if x.get("k") == "mcall" and peel(x["recv"]).get("k") == "local" and peel(x["recv"])["id"] in stacks and x["name"] == "push"],
                         arm["sp"], "the evaluator arm for %s aborts (%s): only the five documented division/remainder operators may be unimplemented" % (name, sorted(macs & {"todo", "panic", "unimplemented", "unreachable"})),
                         sample={"variant": name, "abort": sorted(macs & {"todo", "panic", "unimplemented", "unreachable"})})
            continue
        if name not in ORACLE:
            if name == "BVLiteral":
                continue
            ctx.violation("R06.1", "eval:%s" % name, arm["sp"], "no oracle row for %s" % name)
            continue
        # initial symbolic stacks: child i is cN; top first
        order = t1.order.get(name, [])
        arr_children = ARRAY_CHILD.get(name, [])
        # the value stacks hold the children in for_each_child order (top first); name each by its *field position*
        pos = {k: i for i, k in enumerate(info["child_keys"])}
        seq = [pos.get(k, -1) for k in order]
        bv0 = ["c%d" % i for i in seq if i not in arr_children]
        ar0 = ["c%d" % i for i in seq if i in arr_children]
        sim = Sim(bv0, ar0, stacks, attrs)
        b = peel_block(body)
        got = None
        hinfo = helper_info(b) if b.get("k") in ("call", "mcall") else None
        if hinfo is not None:
            npop, si_, oi_ = hinfo
            bargs = call_args(b) if b.get("k") == "mcall" else b["args"]
            cl = resolve(bargs[oi_])
            if npop is None or cl.get("k") != "closure" or len(cl["params"]) != npop or sim.which(bargs[si_]) != "bv":
                ctx.violation("R06.1", "eval:%s" % name, arm["sp"], "UNRECOGNISED helper call %s" % show(b)[:100])
                continue
            env = dict(attrs)
            for j, p in enumerate(cl["params"]):
                pb = binding_of_pat(p)
                env[pb[1]] = sim.st["bv"].pop(0) if sim.st["bv"] else ("?underflow",)
            got = [(None, term_of(peel_block(cl["body"]), env))]
            leftovers = sim.st
        else:
            sims = [sim]
            for s_ in stmts_of(body):
                nxt = []
                for sm in sims:
                    nxt += sm.stmt(s_)
                sims = nxt
            got = []
            for sm in sims:
                res_stack = "arr" if name.startswith("Array") and name != "ArrayEqual" else "bv"
                top = sm.st[res_stack][0] if sm.st[res_stack] else ("?empty",)
                rest = sm.st[res_stack][1:] + sm.st["bv" if res_stack == "arr" else "arr"]
                if rest:
                    sim.problems.append("leaves operands %s on the stacks" % rest)
                got.append((getattr(sm, "cond", None), top))
        want = ORACLE[name]
        ok = True
        why = ""
        if sim.problems:
            ok, why = False, "; ".join(sim.problems)
        elif want[0] == "ite":
            d = {}
            conds = set()
            for c, t in got:
                if not c:
                    continue
                ct, tag = c
                if isinstance(ct, tuple) and ct[0] == "boolnot":
                    ct, tag = ct[1], not tag
                conds.add(ct)
                d[tag] = t
            ok = d.get(True) == "c1" and d.get(False) == "c2" and conds == {"c0"}
            why = "ite arm yields %s under cond and %s otherwise (cond term %s)" % (d.get(True), d.get(False), conds)
        else:
            t = got[0][1] if len(got) == 1 else ("?branches",)
            ok = norm(t) == norm(want)
            why = "computes %s, SMT-LIB meaning is %s" % (fmt(norm(t)), fmt(norm(want)))
        ctx.inst("R06.1", "eval:%s" % name, ok, arm["sp"], "evaluator arm for %s %s" % (name, why), sample={"variant": name, "computes": fmt(got[0][1]) if got else None})
    for name in t0.variants:
        if name not in seen:
            ctx.violation("R06.1", "eval:%s" % name, m["sp"], "variant %s has no evaluator arm" % name)
    ctx.floor("R06.1", "evaluator arms", len(seen), 35)
    shortcircuit(ctx, f, ix, defs, stacks, todo_id)
    store_slots(ctx)
    if ctx.facts.has_crate("baa"):
        baa_siblings(ctx)
    else:
        ctx.skipped("R06.4: no facts for crate baa in this run")


def store_slots(ctx):
    """R06.5: the word store of SymbolValueStore is written a whole value at a time"""
    ctx.rule("R06.5", "SymbolValueStore keeps bit-vector values as runs of words: every write goes through a whole-value operation (extend_from_slice(value.words()), get_mut_ref(index).assign(value), "
                      "copy_from_slice(value.words())); a write of a single word by index is allowed only under a test of the value's width / word count (otherwise the upper words of a wider slot keep a stale value)")
    c = ctx.facts.lib("patronus")
    WHOLE = ("extend_from_slice", "get_ref", "get_mut_ref", "len", "clear", "is_empty", "extend", "reserve", "capacity", "iter", "clone", "as_slice")
    n_uses = 0
    for path, fl in sorted(c.fns.items()):
        if "SymbolValueStore" not in path or "::tests::" in path:
            continue
        for f in fl:
            ix = Index(f["body"])
            per = 0
            for n in ix.nodes:
                if not (n.get("k") == "field" and n["name"] == "bit_vec_words" and peel(n["e"]).get("k") == "local" and peel(n["e"]).get("name") == "self"):
                    continue
                n_uses += 1
                par = ix.parent.get(id(n))
                while par is not None and par.get("k") in ("ref", "deref", "paren"):
                    par = ix.parent.get(id(par))
                if par is not None and par.get("k") == "mcall" and contains(par["recv"], n) and not any(contains(a_, n) for a_ in par.get("args", [])):
                    if par["name"] in WHOLE:
                        continue
                    ctx.not_analysed.append("R06.5: %s uses the word store through `%s`" % (path, par["name"]))
                    continue
                if par is not None and par.get("k") == "index" and contains(par["e"], n):
                    # a word (or a range of words) addressed directly: a write?
                    top = par
                    up = ix.parent.get(id(top))
                    while up is not None and up.get("k") in ("ref", "deref", "paren"):
                        top, up = up, ix.parent.get(id(up))
                    is_write = up is not None and ((up.get("k") in ("assign", "assignop") and contains(up["l"], n)) or (up.get("k") == "mcall" and up["name"] in ("copy_from_slice", "fill", "clone_from_slice", "swap") and contains(up["recv"], n)))
                    if not is_write:
                        continue
                    per += 1
                    whole = up.get("k") == "mcall" and up["name"] in ("copy_from_slice", "clone_from_slice") and any(x.get("k") == "mcall" and x["name"] == "words" for a_ in up["args"] for x in walk(a_))
                    guarded = False
                    for cnd, pol in norm_.path_conditions(ix, up):
                        if any(x.get("k") == "mcall" and x["name"] in ("width", "words") for x in walk(cnd)):
                            guarded = True
                    ctx.inst("R06.5", "%s:word-write#%d" % (path.split("::")[-1], per), whole or guarded, up.get("sp"),
                             "%s writes `%s` - a single word of the slot - without a test of the value's width: for a symbol wider than one word the other words keep the previous value" % (path, show(up)[:90]))
    ctx.floor("R06.5", "uses of SymbolValueStore.bit_vec_words", n_uses, 4)


def fmt(t):
    if not isinstance(t, tuple):
        return str(t)
    return "%s(%s)" % (t[0], ", ".join(fmt(x) for x in t[1:]))


def helper_pops(ctx, f, n, si=0, oi=1):
    """un_op/bin_op pop n operands from the stack parameter in order and call op(a[, b]) in that order, pushing the result"""
    P = [binding_of_pat(p) for p in f["params"]]
    P = [P[si], P[oi]]
    ix = Index(f["body"])
    order = []
    pops = [x for x in ix.nodes if x.get("k") == "mcall" and x["name"] == "pop" and is_local(x["recv"], P[0][1])]
    for po in pops:
        # the binding that receives this pop: `let a = S.pop().unwrap..()`, `let Some(a) = S.pop() else {..}`,
        # or the i-th `Some(x)` of a match / let on the tuple (S.pop(), S.pop())
        bound = None
        chain_top = po
        par = ix.parent.get(id(po))
        while par is not None and par.get("k") in ("mcall", "try", "ref") and (par.get("recv") is chain_top or par.get("e") is chain_top):
            chain_top = par
            par = ix.parent.get(id(par))
        if par is not None and par.get("k") == "match" and par.get("scrut") is chain_top:
            # `match S.pop() { Some(x) => x, None => panic!(..) }` (an inlined pop helper): the match is the popped value; climb to the let it initialises
            oe = norm_.opt_elim(par)
            if oe is not None and oe["bind"] is not None and oe["some"] is not None and is_local(norm_.tail_value(oe["some"]), oe["bind"]) \
                    and oe["none"] is not None and (oe["none"].get("ty") == "!" or norm_._diverges(oe["none"]) or any((callee(y_) or "").startswith("core::panicking") for y_ in walk(oe["none"]))):
                chain_top = par
                par = ix.parent.get(id(par))
                while par is not None and (par.get("k") in ("blockexpr",) or (par.get("k") == "block" and par.get("tail") is chain_top)):
                    chain_top = par
                    par = ix.parent.get(id(par))
        if par is not None and par.get("k") == "tuple":
            pos = [i_ for i_, e_ in enumerate(par["es"]) if e_ is chain_top]
            holder = ix.parent.get(id(par))
            pats = []
            if holder is not None and holder.get("k") == "match":
                pats = [a["pat"] for a in holder["arms"] if not (a["body"].get("ty") == "!" or norm_._diverges(a["body"]))]
            elif holder is not None and holder.get("k") in ("let", "letexpr"):
                pats = [holder["pat"]]
            if pos and len(pats) == 1 and pats[0].get("k") == "ptuple" and len(pats[0]["subs"]) == len(par["es"]):
                b_ = pat_bindings(pats[0]["subs"][pos[0]])
                bound = b_[0][1] if len(b_) == 1 else None
        elif par is not None and par.get("k") in ("let", "letexpr"):
            b_ = pat_bindings(par["pat"])
            bound = b_[0][1] if len(b_) == 1 else None
        if bound is None:
            order = None
            break
        order.append(bound)
    order = order or []
    call = [x for x in walk(f["body"]) if x.get("k") == "callv" and is_local(x["f"], P[1][1])]
    ok = len(order) == n and len(call) == 1 and len(call[0]["args"]) == n and all(is_local(a, o) for a, o in zip(call[0]["args"], order))
    pushes = [x for x in walk(f["body"]) if x.get("k") == "mcall" and x["name"] == "push" and is_local(x["recv"], P[0][1])]
    ok = ok and len(pushes) == 1
    ctx.inst("R06.1", "helper:%s" % f["path"].split("::")[-1], ok, f["span"], "%s must pop %d operand(s) in order, apply op to them in pop order and push the result" % (f["path"], n))
    return n if ok else None


def discipline(ctx, f, ix, defs, stacks, todo_id):
    # the work list is LIFO: only pop() takes elements
    takes = [n for n in ix.nodes if n.get("k") == "mcall" and is_local(n["recv"], todo_id) and n["name"] in ("pop", "remove", "swap_remove", "drain", "pop_front", "first", "last")]
    ok = len(takes) == 1 and takes[0]["name"] == "pop"
    ctx.inst("R06.1", "discipline:lifo", ok, f["span"], "the evaluator's work list must be consumed by pop() only (found %s)" % [t["name"] for t in takes])
    fec = [n for n in ix.nodes if n.get("k") == "mcall" and n["name"] == "for_each_child"]
    ok = len(fec) == 1
    if ok:
        cl = resolve(fec[0]["args"][0])
        cb = binding_of_pat(cl["params"][0]) if cl.get("k") == "closure" and cl.get("params") else None

        def entry(push):
            """(node operand, tag) of a work-list entry: `(e, flag)` tuples or `Task::Kind(e)` constructors"""
            t = peel(push["args"][0])
            if t.get("k") == "tuple" and len(t["es"]) == 2 and peel(t["es"][1]).get("k") == "lit":
                return t["es"][0], ("flag", peel(t["es"][1]).get("v"))
            if t.get("k") == "ctor" and len(t.get("args", [])) == 1:
                return t["args"][0], ("kind", callee(t))
            return None, None
        pushes = [n for n in walk(cl.get("body", {})) if n.get("k") == "mcall" and n["name"] == "push" and is_local(n["recv"], todo_id)] if cb else []
        child_push = [p for p in pushes if any(x.get("k") == "local" and x["id"] == cb[1] for x in walk(p["args"][0]))]
        parent_push = [p for p in pushes if p not in child_push]
        outside = False
        if not parent_push and cb:
            # the parent may be re-pushed once before the children are visited instead of inside the visitor
            lp = ix.enclosing(fec[0], ("while", "loop", "for"))
            parent_push = [n for n in (walk(lp["body"]) if lp else []) if n.get("k") == "mcall" and n["name"] == "push" and is_local(n["recv"], todo_id) and not contains(cl, n)]
            outside = True
        roots = [n for n in ix.nodes if n.get("k") == "mcall" and n["name"] == "push" and is_local(n["recv"], todo_id) and not ix.enclosing(n, ("while", "loop", "for"))]
        ok = len(child_push) == 1 and len(parent_push) == 1 and len(roots) == 1
        if ok:
            # child push unconditional inside the closure; parent push precedes it
            rc = ix.regions[id(child_push[0])]
            rcl = ix.regions[id(cl)]
            ok = len(rc) == len(rcl) + 1 and ix.precedes(parent_push[0], child_push[0])
            if outside:
                ok = ok and ix.regions[id(parent_push[0])] == ix.regions[id(fec[0])]
            ce, ctag = entry(child_push[0])
            pe, ptag = entry(parent_push[0])
            re_, rtag = entry(roots[0])
            # children are scheduled like the root (to be visited), the parent with the other tag (its arguments are available)
            ok = ok and ctag is not None and ptag is not None and ctag == rtag and ptag != ctag and is_local(ce, cb[1])
            if ok and ctag[0] == "flag":
                ok = ctag[1] is False and ptag[1] is True
    ctx.inst("R06.1", "discipline:children-pushed-in-order", ok, fec[0]["sp"] if fec else f["span"],
             "children must be pushed onto the work list unconditionally in for_each_child order, after their parent was re-pushed with args_available = true")


def shortcircuit(ctx, f, ix, defs, stacks, todo_id):
    fec = [n for n in ix.nodes if n.get("k") == "mcall" and n["name"] == "for_each_child"]
    for getter, st in (("get_bv", "bv"), ("get_array", "arr")):
        gs = [n for n in ix.nodes if n.get("k") == "mcall" and n["name"] == getter and "GetExprValue" in (n.get("path") or "")]
        ok = len(gs) == 1 and fec and ix.precedes(gs[0], fec[0])
        why = "expected one %s lookup before the children are scheduled" % getter
        if ok:
            g = gs[0]
            # the lookup is eliminated by `if let Some(v) = lookup {..}` / `match lookup { Some(v) => .., None => .. }`
            hit = vb = None
            for a in ix.ancestors(g):
                if a.get("k") == "if" and peel(a["cond"]).get("k") == "letexpr" and strip_try(peel(a["cond"])["init"]) is g:
                    c = peel(a["cond"])
                    if c["pat"].get("k") == "pvariant" and c["pat"]["path"].endswith("Option::Some"):
                        vb = binding_of_pat(c["pat"]["subs"][0])
                        hit = a["then"]
                    break
                if a.get("k") == "match" and strip_try(a["scrut"]) is g:
                    for arm in a["arms"]:
                        p_ = arm["pat"]
                        if p_.get("k") == "pvariant" and p_["path"].endswith("Option::Some") and len(p_["subs"]) == 1:
                            vb = binding_of_pat(p_["subs"][0])
                            hit = arm["body"]
                    break
            ok = hit is not None and vb is not None
            why = "the lookup result is not tested with `if let Some(v)` / `match`"
            if ok:
                sim = Sim([], [], stacks, {})
                pushes = [x for x in walk(hit) if x.get("k") == "mcall" and x["name"] == "push" and sim.which(x["recv"]) == st]
                todo_p = [x for x in walk(hit) if x.get("k") == "mcall" and x["name"] == "push" and is_local(x["recv"], todo_id)]
                # after the hit branch the iteration ends before the children are scheduled (a `continue` in the branch, or right after it)
                ends = not norm_.may_reach_after(ix, hit, fec[0])
                ok = len(pushes) == 1 and is_local(pushes[0]["args"][0], vb[1]) and ends and not todo_p
                why = "the hit branch must push the supplied value and continue without scheduling children"
        ctx.inst("R06.3", "shortcircuit:%s" % getter, bool(ok), gs[0]["sp"] if gs else f["span"], why)
    # value stores look up by reference
    c = ctx.facts.lib("patronus")
    n = 0
    for path, fl in c.fns.items():
        if "as patronus::expr::eval::GetExprValue>::get_" not in path:
            continue
        for g in fl:
            n += 1
            bad = []
            for x in walk(g["body"]):
                if x.get("k") == "mcall" and x["name"] in ("is_symbol", "is_bv_lit", "get_symbol_name", "get_symbol_name_ref"):
                    bad.append(show(x)[:60])
            for x in walk(g["body"]):
                if isinstance(x.get("path"), str) and x.get("k", "").startswith("p") and x["path"].startswith(EXPR + "::"):
                    bad.append("pattern " + x["path"].split("::")[-1])
            ctx.inst("R06.3", "store:%s" % path, not bad, g["span"], "%s inspects the kind of the looked-up expression (%s): a value supplied for an inner (non-symbol) expression would be ignored" % (path, bad), sample=path)
    ctx.floor("R06.3", "GetExprValue lookups", n, 6)


def baa_siblings(ctx):
    c = ctx.facts.lib("baa")
    defective = {}
    checked = 0
    for path, fl in c.fns.items():
        if "BitVecOps::" not in path and "BitVecMutOps::" not in path:
            continue
        for f in fl:
            for n in walk(f["body"]):
                if n.get("k") != "if" or "else" not in n:
                    continue
                cnd = peel(n["cond"])
                cl_b, cl_ms = chain(resolve(cnd["l"])) if cnd.get("k") == "binary" else ({}, [])
                if not (cnd.get("k") == "binary" and cnd["op"] == "==" and peel(cnd["r"]).get("v") == 1 and [m_[0] for m_ in cl_ms][-2:] == ["words", "len"]):
                    continue
                t = [x for x in walk(n["then"]) if x.get("k") == "call" and "::arithmetic::" in (callee(x) or "")]
                e = [x for x in walk(n["else"]) if x.get("k") == "call" and "::arithmetic::" in (callee(x) or "")]
                if len(t) != 1 or len(e) != 1:
                    continue
                checked += 1
                same = callee(t[0]) == callee(e[0])
                mname_ = path.split("::")[-1]
                if not same:
                    defective[mname_] = (callee(t[0]).split("::")[-1], callee(e[0]).split("::")[-1], n["sp"])
    ctx.extra["baa_methods_with_one_word_fast_path"] = checked
    ctx.floor("R06.4", "baa methods with a one-word fast path", checked, 5)
    ctx.extra["baa_defective_methods"] = {k: v[:2] for k, v in defective.items()}
    # workspace callers of defective methods
    n_calls = 0
    for cr, f in ctx.facts.all_fns(include_tests=False):
        if cr.name == "baa":
            continue
        per = {}
        for n in walk(f["body"]):
            if n.get("k") == "mcall" and (n.get("path") or "").startswith("baa::") and "BitVecOps::" in n["path"]:
                m = n["path"].split("::")[-1]
                n_calls += 1
                if m in defective:
                    per[m] = per.get(m, 0) + 1
                    a, b, sp = defective[m]
                    ctx.violation("R06.4", "%s:calls:%s#%d" % (f["path"].split("::")[-1], m, per[m]), n["sp"],
                                  "%s calls baa::BitVecOps::%s, whose one-word branch calls `%s` but whose multi-word branch calls `%s` (%s): results differ across the 64-bit boundary" % (f["path"], m, a, b, sp))
    ctx.inst("R06.4", "workspace-calls-of-BitVecOps", True, None, "", sample={"calls_checked": n_calls, "defective_methods": sorted(defective)})
