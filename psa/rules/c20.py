"""C20 - value summaries: sorted-delete-list typestate, complement guards, boolean-expression-to-guard table,
cross product and fast path of apply_bin_op, coalescing with current guards."""
from ..tree import *  # noqa
from .. import norm as norm_
from .. import iterdesc
from .. import boolpred as bp
from ..flow import Index
from ..tables import *  # noqa
from .c02 import binding_of_pat

V = "patronus_dse::value_summary::"

EXPLANATION = ("Static analysis of patronus_dse::value_summary (rustc HIR facts): delete_entries is a single forward pass and therefore needs a strictly ascending index list - every call site's argument is tracked through a "
               "Sorted/Unsorted typestate (sort before the call, or indices pushed in loop-index order); apply_ite and import_into_guard guard the two sides with a condition and GuardCtx::not of the very same condition; "
               "expr_to_guard maps not/and/or/xor/implies/literal to the BDD operation of the same meaning over the children in order and everything else to a terminal, visiting children only below Boolean operators; "
               "apply_bin_op removes fast-path entries from both operands and then always forms the cross product of the rest with GuardCtx::and guards, dropping only unsatisfiable ones; coalescing ORs the current guard of "
               "the earlier entry with the later one's.")
ASSUMPTIONS = ["the BDD library implements and/or/not/xor/implies correctly and canonically", "the partition invariant as a semantic statement over BDDs is not decided, only the structural clauses it rests on"]
LEVEL_TEXT = ("Static typestate / sibling-table / pairing analysis of the summary operations: decides for all summaries and guard valuations at once the structural clauses behind 'pairwise disjoint and jointly exhaustive' "
              "(complementary guards from one condition, complete cross product, precondition of the entry deletion, operator table of the guard import). The BDD package itself is trusted."
              " Nothing leaves the cross-product loops of apply_bin_op early.")
LEVEL_NOTE = "Structural necessary conditions of the partition invariant; no BDD-level semantic proof."
TECHNIQUE = "typestate rule at call sites, complement-pairing def-use rule, arm-table vs. oracle, statement-order rule on rustc HIR facts"


def run(ctx):
    ctx.rule("R20.1", "every call of delete_entries passes a strictly ascending index list: sorted before the call, or filled by pushing the loop index of an ascending range loop")
    ctx.rule("R20.2", "apply_ite guards tru-entries with c and fals-entries with GuardCtx::not(c) of the same c; import_into_guard pairs value_as_guard with true_value and not(value_as_guard) with false_value")
    ctx.rule("R20.3", "expr_to_guard maps BVLiteral/BVNot/BVAnd/BVOr/BVXor/BVImplies to constant/not/and/or/xor/implies over the children in order, everything else to a terminal; children are visited only when all are Boolean")
    ctx.rule("R20.4", "apply_bin_op: the common-guard fast path removes the processed entries from both operands; the cross product of the remaining entries is formed unconditionally afterwards with GuardCtx::and guards, skipping only unsatisfiable ones")
    ctx.rule("R20.5", "coalesce_entries ORs the earlier entry's current guard (read from the entry list at merge time) with the later entry's guard and stores it in the later entry; the earlier entry is scheduled for deletion")
    c = ctx.facts.lib("patronus_dse")
    delete_typestate(ctx, c)
    complement(ctx)
    guard_table(ctx)
    binop(ctx)
    coalesce(ctx)
    traversal(ctx)


def fnv(ctx, name):
    return ctx.fn("patronus_dse", name)


def delete_typestate(ctx, c):
    n_calls = 0
    for path, fl in c.fns.items():
        for f in fl:
            ix = Index(f["body"])
            defs = local_defs(f)
            for n in ix.nodes:
                if n.get("k") == "call" and callee(n) == V + "delete_entries":
                    n_calls += 1
                    arg = peel(n["args"][0])
                    state, why = "Unsorted", "argument is not a tracked local"
                    ab_, ams_ = chain(resolve(arg))
                    if peel(ab_).get("k") == "local" and "BTreeSet" in (peel(ab_).get("ty") or "") and [m_[0] for m_ in ams_ if m_[0] not in ("copied", "cloned")] in (["into_iter", "collect"], ["iter", "collect"]):
                        # an ordered set iterates in ascending order: sorted (and free of duplicates) by construction
                        state, why = "Sorted", "collected from a BTreeSet"
                    if arg.get("k") == "local":
                        state, why = typestate(arg["id"], n, ix, defs)
                    ctx.inst("R20.1", "%s:delete_entries#%d" % (path.split("::")[-1], n_calls), state == "Sorted", n["sp"],
                             "%s passes an index list that is not known to be ascending to delete_entries (%s): delete_entries compares only the next list element with a running index, so an out-of-order index is never deleted and a stale entry with an overlapping guard survives" % (path, why),
                             sample={"fn": path, "typestate": state, "because": why})
    ctx.floor("R20.1", "delete_entries call sites", n_calls, 1)
    # the callee really is the single forward pass the precondition is derived from
    g = fnv(ctx, V + "delete_entries")
    ok = forward_pass(g)
    ctx.inst("R20.1", "delete_entries:forward-pass", ok, g["span"], "delete_entries is no longer the single forward pass comparing the next list element with the running index (re-review the precondition)", nontrivial=False)


def forward_pass(g):
    """delete_entries keeps an element unless its running index equals the NEXT element of the (peekable) delete list:
    `it.peek().cloned() == Some(i)` followed by `it.next()`, or `it.next_if_eq(&i).is_none()`; the index is incremented once per element"""
    gx = Index(g["body"])
    gdefs = local_defs(g)
    gp = param_ids(g) + [None, None]
    p_list, p_entries = gp[0], gp[1]
    retains = [n for n in gx.nodes if n.get("k") == "mcall" and n["name"] == "retain" and is_local(n["recv"], p_entries)]
    if len(retains) != 1:
        return False
    cl = resolve(retains[0]["args"][0])
    if cl.get("k") != "closure":
        return False
    incs = [n for n in walk(cl["body"]) if n.get("k") == "assignop" and n["op"] in ("+=", "+") and peel(n["l"]).get("k") == "local" and peel(n["r"]).get("v") == 1]
    incs = [n for n in incs if len(gx.regions[id(n)]) == len(gx.regions[id(cl)]) + 1]      # the running index: incremented once per element, unconditionally
    if len(incs) != 1:
        return False
    counter = peel(incs[0]["l"])["id"]

    def is_index(e):
        """the value of the running index before this element's increment"""
        e = peel(e)
        if e.get("k") != "local":
            return False
        if e["id"] == counter:
            return gx.precedes(e, incs[0])
        init = simple_let_init(gdefs, e["id"])
        return init is not None and is_local(init, counter) and gx.precedes(gdefs[e["id"]][1], incs[0])

    def from_list(e):
        b_, ms_ = chain(norm_.value_source(gx, gdefs, e))
        return is_local(b_, p_list) and [m_[0] for m_ in ms_] == ["into_iter", "peekable"]
    # the same pass with an explicit cursor: `list.get(cursor) == Some(&index)`, the cursor advanced exactly when the element is deleted
    for n in walk(cl["body"]):
        if n.get("k") == "binary" and n["op"] == "==":
            for a_, b_ in ((n["l"], n["r"]), (n["r"], n["l"])):
                ab, ams = chain(resolve(a_))
                bb = peel(b_)
                if [m_[0] for m_ in ams] in (["get"], ["get", "copied"], ["get", "cloned"]) and is_local(ab, p_list) and bb.get("k") == "ctor" and callee(bb).endswith("Option::Some") and is_index(bb["args"][0]):
                    cur = peel(ams[0][1][0])
                    if cur.get("k") != "local":
                        continue
                    cinit = simple_let_init(gdefs, cur["id"])
                    adv = [x for x in walk(cl["body"]) if x.get("k") == "assignop" and x["op"] in ("+=", "+") and is_local(x["l"], cur["id"]) and peel(x["r"]).get("v") == 1]
                    if cinit is None or peel(cinit).get("v") != 0 or len(adv) != 1:
                        continue
                    # advanced under the very test, and the element is kept iff the test fails
                    conds = norm_.path_conditions(gx, adv[0], upto=cl)
                    under = len(conds) == 1 and conds[0][1] and (resolve(conds[0][0]) is n or conds[0][0] is n)
                    res = resolve(norm_.result_value(cl["body"]))
                    keeps = res.get("k") == "unary" and res["op"] == "!" and (resolve(res["e"]) is n)
                    if under and keeps:
                        return True
    for n in walk(cl["body"]):
        if n.get("k") == "mcall" and n["name"] == "next_if_eq" and from_list(n["recv"]) and is_index(n["args"][0]):
            return True
        if n.get("k") == "binary" and n["op"] in ("==", "!="):
            for a_, b_ in ((n["l"], n["r"]), (n["r"], n["l"])):
                ab, ams = chain(a_)
                bb = peel(b_)
                if [m_[0] for m_ in ams][:1] == ["peek"] and from_list(ab) and bb.get("k") == "ctor" and callee(bb).endswith("Option::Some") and is_index(bb["args"][0]):
                    return any(x.get("k") == "mcall" and x["name"] == "next" and from_list(x["recv"]) for x in walk(cl["body"]))
    return False


def typestate(lid, call, ix, defs):
    events = []
    for n in ix.nodes:
        if n.get("k") == "mcall" and is_local(n["recv"], lid) and ix.precedes(n, call):
            events.append(n)
    if not events:
        init = simple_let_init(defs, lid)
        return ("Sorted", "empty list") if init is not None and "vec" in show(init).lower() else ("Unsorted", "no mutation seen")
    last = events[-1]
    names = [e["name"] for e in events]
    # sort (optionally followed by dedup) as the last mutation, unconditionally before the call
    tail = [e for e in events if e["name"] not in ("len", "is_empty", "iter")]
    if tail and tail[-1]["name"] in ("dedup", "sort", "sort_unstable"):
        srt = [e for e in tail if e["name"] in ("sort", "sort_unstable")]
        if srt and ix.dominates(srt[-1], call) and all(e["name"] in ("dedup",) for e in tail[tail.index(srt[-1]) + 1:]):
            return "Sorted", "sorted before the call"
    pushes = [e for e in events if e["name"] in ("push", "insert", "extend", "append")]
    if pushes and all(e["name"] == "push" for e in pushes):
        ok = True
        loopvars = set()
        for p in pushes:
            loop = ix.enclosing(p, ("for",))
            a = peel(p["args"][0])
            lb = binding_of_pat(loop["pat"]) if loop is not None else None
            rng = loop is not None and (show(loop["iter"]).startswith("range::Range") or "RangeInclusive::new" in show(loop["iter"]) or (chain(loop["iter"])[1] and [m[0] for m in chain(loop["iter"])[1]][-1:] == ["enumerate"]))
            from .c02 import range_of
            if not (lb and a.get("k") == "local" and a["id"] == lb[1] and loop is not None and range_of(loop["iter"], defs) is not None):
                ok = False
                why = "pushes `%s`, which is not the loop index of an ascending range loop" % show(p["args"][0])
            else:
                loopvars.add(lb[1])
        if ok and len(loopvars) == 1:
            return "Sorted", "indices pushed in loop-index order"
        return "Unsorted", why if not ok else "pushed from several loops"
    return "Unsorted", "mutated by %s" % names


def complement(ctx):
    cands = [p for p in ctx.facts.lib("patronus_dse").fns if p.endswith("::apply_ite")]
    f = ctx.fn("patronus_dse", cands[0] if cands else V + "ValueSummary::apply_ite")
    ix = Index(f["body"])
    defs = local_defs(f)
    D = iterdesc.Desc(ix, defs)
    fp_ = param_ids(f) + [None] * 5                # apply_ite(ec, gc, cond, tru, fals)
    p_cond, p_tru, p_fals = fp_[2], fp_[3], fp_[4]
    # the condition guard c = cond.to_guard(..).0 and its complement GuardCtx::not(c)
    tru_cond = None
    for i_, d in defs.items():
        if d[0] == "let" and d[2].get("k") == "ptuple" and "init" in d[1]:
            b_, ms_ = chain(d[1]["init"])
            if [m_[0] for m_ in ms_] == ["to_guard"] and is_local(b_, p_cond):
                b = binding_of_pat(d[2]["subs"][0])
                tru_cond = b[1] if b else None

    def cond_role(e):
        e = resolve(e)
        if tru_cond is not None and is_local(e, tru_cond):
            return "c"
        if e.get("k") == "mcall" and callee(e) == V + "GuardCtx::not" and tru_cond is not None and is_local(resolve(e["args"][0]), tru_cond):
            return "not c"
        return None
    has_not = any(n.get("k") == "mcall" and callee(n) == V + "GuardCtx::not" and tru_cond is not None and is_local(resolve(n["args"][0]), tru_cond) for n in ix.nodes)
    ctx.inst("R20.2", "apply_ite:complement-defined", tru_cond is not None and has_not, f["span"], "apply_ite must derive the else-guard as GuardCtx::not of the very condition guard it uses for the then-side")
    seen = {}
    ands = [n for n in ix.nodes if n.get("k") == "mcall" and callee(n) == V + "GuardCtx::and"]
    for a in ands:
        it = norm_.iter_context(ix, a)
        if it is None or it["kind"] not in ("for", "closure"):
            continue
        roles = [cond_role(x) for x in a["args"]]
        descs = [D.of(x) for x in a["args"]]
        side = None
        for d_ in descs:
            if d_[0] == "field" and d_[2] == "guard" and d_[1][0] == "elem" and d_[1][1].endswith(".entries"):
                owner = d_[1][1][:-len(".entries")]
                side = {"tru": "tru", "fals": "fals"}.get(owner)
                elem = d_[1]
        if side is None:
            continue
        want = "c" if side == "tru" else "not c"
        ok = want in roles
        # the value is carried over unchanged into the new entry, for every entry
        st = [x for x in ix.nodes if x.get("k") == "struct" and x["path"].endswith("::Entry") and any(y is a for y in walk(x))]
        ok = ok and len(st) == 1 and D.of({f_["name"]: f_ for f_ in st[0]["fields"]}["value"]["e"]) == ("field", elem, "value")
        alts, filtered = D.source(it["src"])
        ok = ok and not filtered and len(ix.regions[id(a)]) == len(ix.regions[id(it["node"])]) + 1 and not any(x.get("k") in ("continue", "break") for x in walk(it["body"]))
        if side in seen:
            ok = False
        seen[side] = ok
        ctx.inst("R20.2", "apply_ite:%s-entries" % side, ok, a["sp"], "every %s entry must be kept with guard GuardCtx::and(entry.guard, %s) and its own value" % (side, "cond" if side == "tru" else "not(cond)"),
                 sample=show(a)[:80])
    for side in ("tru", "fals"):
        if side not in seen:
            ctx.violation("R20.2", "apply_ite:%s-entries" % side, f["span"], "no loop re-guards the %s entries" % side)
    # import_into_guard
    cands = [p for p in ctx.facts.lib("patronus_dse").fns if p.endswith("::import_into_guard")]
    g = ctx.fn("patronus_dse", cands[0] if cands else V + "import_into_guard")
    gdefs = local_defs(g)
    gx = Index(g["body"])
    vg = None
    for i_, d in gdefs.items():
        if d[0] == "let" and d[2].get("k") == "ptuple" and "init" in d[1] and [m_[0] for m_ in chain(d[1]["init"])[1]] == ["to_guard"]:
            b = binding_of_pat(d[2]["subs"][0])
            vg = b[1] if b else None

    def atom_fn(n):
        if n.get("k") == "mcall" and n["name"] in ("is_true", "is_false") and callee(n) and callee(n).startswith(V + "GuardCtx::") and vg is not None and is_local(resolve(n["args"][0]), vg):
            return "T" if n["name"] == "is_true" else "F"
        return None

    def value_kind(e):
        e = norm_.tail_value(e)
        if e.get("k") == "call" and (callee(e) or "").endswith("::true_value"):
            return "true_value"
        if e.get("k") == "call" and (callee(e) or "").endswith("::false_value"):
            return "false_value"
        return "?" + show(e)[:20]
    rows = []     # (guard kind, value kind, condition formula)
    unknown = False
    for n in gx.nodes:
        if n.get("k") == "struct" and n["path"].endswith("::Entry"):
            fs = {f_["name"]: f_["e"] for f_ in n["fields"]}
            gd = resolve(fs["guard"])
            kind = "?"
            if vg is not None and is_local(gd, vg):
                kind = "g"
            elif gd.get("k") == "mcall" and callee(gd) == V + "GuardCtx::not" and vg is not None and is_local(resolve(gd["args"][0]), vg):
                kind = "not g"
            elif gd.get("k") == "mcall" and gd["name"] == "get_true":
                kind = "true"
            try:
                # the case may have been classified first (`let constant = if is_true(g) { Some(true) } else { is_false(g).then_some(false) }`,
                # `match constant { Some(t) => .., None => .. }`): every way of reaching this entry, with the payload literal it binds
                ways = [([], {})]
                for c_, pol in norm_.path_conditions(gx, n, arms=True):
                    if c_.get("k") == "letexpr":
                        continue
                    nxt = []
                    if c_.get("k") == "armpat":
                        pp = c_["pat"]
                        while pp.get("k") in ("pref", "pderef"):
                            pp = pp["pat"]
                        table = norm_.result_table(gx, strip_try(c_["scrut"]), unwrap=()) if peel(c_["scrut"]).get("k") in ("local", "match", "if", "blockexpr") else []
                        hits = []
                        for cs_, lf in table:
                            lf = peel(lf)
                            lp = lf.get("path") if lf.get("k") == "def" else (callee(lf) if lf.get("k") == "ctor" else None)
                            if lp is None:
                                hits = None
                                break
                            matches_ = pp.get("k") in ("pwild", "pbind") or lp == pp.get("path")
                            if matches_ == pol:
                                env_ = {}
                                if pol and pp.get("k") == "pvariant" and len(pp.get("subs", [])) == 1 and lf.get("k") == "ctor" and len(lf.get("args", [])) == 1:
                                    a0 = peel(lf["args"][0])
                                    for _, bi in pat_bindings(pp["subs"][0]):
                                        if a0.get("k") == "lit" and isinstance(a0.get("v"), bool):
                                            env_[canon(bi)] = a0["v"]
                                hits.append((cs_, env_))
                        if hits is None or not table:
                            raise bp.Opaque(c_.get("scrut", {}), "match on a value that is not built from constructors")
                        for cl_, en_ in ways:
                            for cs_, env_ in hits:
                                merged_ = dict(en_)
                                merged_.update(env_)
                                nxt.append((cl_ + list(cs_), merged_))
                    else:
                        nxt = [(cl_ + [(c_, pol)], en_) for cl_, en_ in ways]
                    ways = nxt
                for cl_, en_ in ways:
                    base = ("const", True)
                    for c_, pol in cl_:
                        try:
                            x = bp.extract(c_, {}, gdefs, None, 0, None, atom_fn)
                        except bp.Opaque:
                            # a condition that does not involve the guard (e.g. `others.is_empty()`) does not select between the cases
                            if any(y.get("k") == "local" and vg is not None and canon(y["id"]) == canon(vg) for y in walk(c_)):
                                raise
                            continue
                        base = ("and", base, x if pol else ("not", x))
                    for conds, v in norm_.value_alternatives(fs["value"]):
                        fm = base
                        for c_, pol in conds:
                            c0 = resolve(peel(c_))
                            if c0.get("k") == "local" and canon(c0["id"]) in en_:
                                x = ("const", en_[canon(c0["id"])])      # the payload bound by the selected variant
                            else:
                                x = bp.extract(c_, {}, gdefs, None, 0, None, atom_fn)
                            fm = ("and", fm, x if pol else ("not", x))
                        rows.append((kind, value_kind(v), fm))
            except bp.Opaque:
                unknown = True
    pairs = sorted({(k_, v_) for k_, v_, _ in rows})
    two = sorted({(k_, v_) for k_, v_, _ in rows if k_ in ("g", "not g")})
    ctx.inst("R20.2", "import_into_guard:complementary-pair", two == [("g", "true_value"), ("not g", "false_value")], g["span"],
             "import_into_guard must produce exactly {guard: g, value: true} and {guard: not(g), value: false}: %s" % pairs, sample=pairs)
    # trivial cases: is_true(g) -> the single entry {true, true_value}; is_false(g) -> {true, false_value}; neither -> the complementary pair
    triv = {}
    okt = not unknown
    for T, F, want in ((True, False, {("true", "true_value")}), (False, True, {("true", "false_value")}), (False, False, {("g", "true_value"), ("not g", "false_value")})):
        got = {(k_, v_) for k_, v_, fm in rows if bp.ev(fm, {"T": T, "F": F})}
        triv["is_true=%d,is_false=%d" % (T, F)] = sorted(got)
        okt = okt and got == want
    ctx.inst("R20.2", "import_into_guard:trivial-cases", okt, g["span"], "a guard that is constantly true/false must yield the single value true/false, any other guard the complementary pair: %s" % triv, sample=triv)


GUARD_ORACLE = {"BVNot": ("not", [0]), "BVAnd": ("and", [0, 1]), "BVOr": ("or", [0, 1]), "BVXor": ("xor", [0, 1]), "BVImplies": ("implies", [0, 1])}


def guard_table(ctx):
    f = ctx.fn("patronus_dse", V + "GuardCtx::expr_to_guard")
    calls = [n for n in walk(f["body"]) if n.get("k") == "call" and (callee(n) or "").endswith("traversal::bottom_up_multi_pat")]
    if len(calls) != 1:
        ctx.violation("R20.3", "expr_to_guard:shape", f["span"], "UNRECOGNISED: expr_to_guard is not a bottom_up_multi_pat traversal")
        return
    def as_fn(e):
        """a closure literal, a closure bound by a let, or a named function passed by reference: {params, body, sp}"""
        e = resolve(e)
        if e.get("k") == "closure":
            return e
        if e.get("k") == "def" and e.get("dk") in ("fn", "assoc_fn"):
            for cr in ctx.facts.crates:
                fl = cr.raw_fns.get(e.get("res") or e.get("path")) or cr.raw_fns.get(e.get("path"))
                if fl and not cr.is_test:
                    g_ = ctx.facts.lib(cr.name).fns.get(fl[0]["path"])
                    g_ = g_[0] if g_ else fl[0]
                    return {"k": "closure", "params": g_["params"], "body": g_["body"], "sp": g_.get("span")}
        return None
    get_children, combine = as_fn(calls[0]["args"][2]), as_fn(calls[0]["args"][3])
    if get_children is None or combine is None or len(get_children["params"]) != 3 or len(combine["params"]) != 3:
        ctx.violation("R20.3", "expr_to_guard:shape", f["span"], "UNRECOGNISED: the two callbacks of the traversal are not closures / functions of three parameters")
        return
    # children callback: collects the children in for_each_child order and drops them all unless every one is Boolean
    gcx = Index(get_children["body"])
    gp = [pat_bindings(p_) for p_ in get_children["params"]]
    vec_id = gp[2][0][1] if len(gp[2]) == 1 else None
    fec = [n for n in gcx.nodes if n.get("k") == "mcall" and n["name"] == "for_each_child"]
    okc = len(fec) == 1 and vec_id is not None
    if okc:
        cl = resolve(fec[0]["args"][0])
        cb_ = pat_bindings(cl["params"][0]) if cl.get("k") == "closure" and cl.get("params") else []
        pushes = [x for x in walk(cl.get("body", {})) if x.get("k") == "mcall" and x["name"] == "push" and is_local(x["recv"], vec_id)]
        okc = len(cb_) == 1 and len(pushes) == 1 and is_local(pushes[0]["args"][0], cb_[0][1]) and not any(x.get("k") == "if" for x in walk(cl["body"]))
        clears = [n for n in gcx.nodes if n.get("k") == "mcall" and n["name"] == "clear" and is_local(n["recv"], vec_id)]
        okc = okc and len(clears) == 1 and gcx.precedes(fec[0], clears[0])
        if okc:
            conds = norm_.path_conditions(gcx, clears[0])

            def bool_test(c_, pol):
                """the condition says: not every collected child is Boolean"""
                b_, ms_ = chain(c_)
                if not (is_local(b_, vec_id) and len(ms_) >= 2 and ms_[-1][0] in ("all", "any") and all(m_[0] in ("iter", "copied", "cloned") for m_ in ms_[:-1])):
                    return False
                pred = resolve(ms_[-1][1][0])
                body = resolve(pred.get("body", {})) if pred.get("k") == "closure" else {}
                neg = False
                while body.get("k") == "unary" and body["op"] == "!":
                    neg, body = not neg, resolve(body["e"])
                is_bool = body.get("k") == "mcall" and body["name"] == "is_bool"
                if ms_[-1][0] == "all":
                    return is_bool and not neg and pol is False
                return is_bool and neg and pol is True
            okc = len(conds) == 1 and bool_test(*conds[0])
    ctx.inst("R20.3", "expr_to_guard:children", okc, get_children["sp"], "children must be collected in for_each_child order and dropped unless all of them are Boolean")
    # the combine callback, evaluated per expression variant: partially evaluate its body with `ctx[expr]` known to be variant V and the children
    # slice of V's arity, and read off the BDD operation it returns.  (A lookup `GuardOp::of(&ctx[expr])` followed by a smaller match, or one big
    # match, give the same table.)
    from .. import peval
    from ..tables import T0
    cb = binding_of_pat(combine["params"][2])
    eb = binding_of_pat(combine["params"][1])
    cxb = binding_of_pat(combine["params"][0])
    t0 = T0(ctx)

    def is_node(e):
        e0 = resolve(peel(e))
        while e0.get("k") in ("mcall",) and e0["name"] in ("clone",) and not e0["args"]:
            e0 = resolve(peel(e0["recv"]))
        return e0.get("k") == "index" and eb is not None and is_local(e0["i"], eb[1]) and (cxb is None or is_local(e0["e"], cxb[1]) or "Context" in (e0["e"].get("ty") or e0["e"].get("aty") or ""))

    def bdd_call(v):
        """(method, args) when v is a call of a BddManager method"""
        if isinstance(v, tuple) and v and v[0] == "call" and isinstance(v[1], str):
            return v[1].split("::")[-1], v[2][1:] if len(v[2]) >= 1 else []
        return None, []
    table = {}
    for vn, info in t0.variants.items():
        # the children of an expression that is not a Boolean connective are never visited (the children callback drops them): an empty slice
        arity = len(info["child_keys"]) if vn in GUARD_ORACLE else 0
        pe = peval.PEval(is_node, info["path"], slice_lens={canon(cb[1]): arity} if cb else {})
        fake = {"params": combine["params"], "body": combine["body"]}
        try:
            table[vn] = pe.run(fake)
        except peval.Stuck as ex:
            table[vn] = ("stuck", str(ex))
    conn = list(GUARD_ORACLE)
    n_term = 0
    for vn, v in sorted(table.items()):
        meth, args = bdd_call(v)
        if vn == "BVLiteral":
            a0 = args[0] if args else None
            ok = meth == "constant" and isinstance(a0, tuple) and a0[0] == "call" and str(a0[1]).split("::")[-1] == "is_true" and a0[2] and a0[2][0] == ("attr", 0)
            ctx.inst("R20.3", "expr_to_guard:BVLiteral", ok, combine["sp"], "a Boolean literal must become constant(literal is true): %s" % (v,), sample=str(v)[:80])
            continue
        want = GUARD_ORACLE.get(vn)
        if want is not None:
            idxs = [a_[2] if isinstance(a_, tuple) and a_[0] == "child" else None for a_ in args]
            ok = meth == want[0] and (idxs == want[1] or (want[0] in ("and", "or", "xor") and None not in idxs and sorted(idxs) == want[1]))
            ctx.inst("R20.3", "expr_to_guard:%s" % vn, ok, combine["sp"], "%s must become %s over children %s: %s" % (vn, want[0], want[1], str(v)[:100]), sample=str(v)[:80])
            continue
        # every other variant: a terminal for that very expression
        if meth == "terminal":
            n_term += 1
            a0 = args[0] if args else None
            ok = isinstance(a0, tuple) and a0[0] in ("local", "param") and eb is not None and canon(a0[1]) == canon(eb[1])
            if not ok:
                ctx.inst("R20.3", "expr_to_guard:other->terminal", False, combine["sp"], "every other expression must become a terminal for that very expression: %s gives %s" % (vn, str(v)[:80]))
        elif v[0] == "stuck":
            ctx.violation("R20.3", "expr_to_guard:%s" % vn, combine["sp"], "UNRECOGNISED: what %s is converted to could not be determined (%s)" % (vn, v[1]))
        else:
            ctx.violation("R20.3", "expr_to_guard:%s" % vn, combine["sp"], "%s is converted structurally (%s) but is not a Boolean connective of the guard language" % (vn, str(v)[:60]))
    ctx.inst("R20.3", "expr_to_guard:other->terminal", n_term >= 20, combine["sp"], "every other expression must become a terminal for that very expression (%d variants do)" % n_term)


def binop(ctx):
    cands = [p for p in ctx.facts.lib("patronus_dse").fns if p.endswith("::apply_bin_op")]
    f = ctx.fn("patronus_dse", cands[0] if cands else V + "apply_bin_op")
    ix = Index(f["body"])
    defs = local_defs(f)
    D = iterdesc.Desc(ix, defs)
    fp_ = param_ids(f) + [None] * 5               # apply_bin_op(ec, gc, op, a, b)
    p_op, p_a, p_b = fp_[2], fp_[3], fp_[4]
    # the operand entry vectors: locals initialised from a.entries / b.entries
    ab = {}
    for i_, d in defs.items():
        if d[0] == "let" and d[2].get("k") == "pbind" and "init" in d[1] and not d[1].get("inl_param"):
            fpth = field_path(d[1]["init"])
            if fpth and fpth[2] == ["entries"] and fpth[1] in (p_a, p_b):
                ab["a" if fpth[1] == p_a else "b"] = i_
    if set(ab) != {"a", "b"}:
        ctx.violation("R20.4", "apply_bin_op:shape", f["span"], "UNRECOGNISED: operand entry vectors (locals bound to a.entries / b.entries) not found")
        return

    # `let (a_common, a_rest) = a.into_iter().partition(|e| shared.contains(&e.guard))`: both halves still belong to that operand
    part_common, part_rest, part_pred = {}, {}, {}
    for n in ix.nodes:
        if n.get("k") == "let" and "init" in n and n["pat"].get("k") == "ptuple" and len(n["pat"]["subs"]) == 2:
            b_, ms_ = chain(n["init"])
            if [m_[0] for m_ in ms_] in (["into_iter", "partition"], ["drain", "partition"]) and peel(b_).get("k") == "local":
                side0 = next((k_ for k_, v_ in ab.items() if canon(peel(b_)["id"]) == canon(v_)), None)
                b0, b1 = binding_of_pat(n["pat"]["subs"][0]), binding_of_pat(n["pat"]["subs"][1])
                if side0 and b0 and b1:
                    part_common[side0], part_rest[side0], part_pred[side0] = b0[1], b1[1], ms_[-1][1][0]

    def side_of(e):
        e = peel(e)
        if e.get("k") == "local":
            for k_, v_ in list(ab.items()) + list(part_common.items()) + list(part_rest.items()):
                if canon(e["id"]) == canon(v_):
                    return k_
        return None
    # fast path bookkeeping: both operands lose the entries whose guard is in the set of shared guards
    retains = [n for n in ix.nodes if n.get("k") == "mcall" and n["name"] == "retain" and side_of(n["recv"])]
    sides = sorted(side_of(r["recv"]) for r in retains)
    shared = set()
    okr = sides == ["a", "b"]
    for r in retains:
        cl = resolve(r["args"][0])
        pb = pat_bindings(cl["params"][0]) if cl.get("k") == "closure" and cl.get("params") else []
        body = resolve(cl.get("body", {}))
        neg = False
        while body.get("k") == "unary" and body["op"] == "!":
            neg, body = not neg, resolve(body["e"])
        good = False
        # membership of the entry's guard in the shared set: `S.contains(&g)` or, for a sorted vector, `S.binary_search(&g).is_ok()`
        mem = None
        if body.get("k") == "mcall" and body["name"] == "contains" and peel(body["recv"]).get("k") == "local":
            mem = (peel(body["recv"]), body["args"][0])
        elif body.get("k") == "mcall" and body["name"] == "is_ok" and peel(body["recv"]).get("k") == "mcall" and peel(body["recv"])["name"] == "binary_search" and peel(peel(body["recv"])["recv"]).get("k") == "local":
            mem = (peel(peel(body["recv"])["recv"]), peel(body["recv"])["args"][0])
        if len(pb) == 1 and neg and mem is not None:
            arg = field_path(resolve(mem[1]))
            good = bool(arg) and arg[1] is not None and canon(arg[1]) == canon(pb[0][1]) and arg[2] == ["guard"]
            shared.add(canon(mem[0]["id"]))
        okr = okr and good
    if not retains and set(part_pred) == {"a", "b"}:
        # the partition form: the entries with a shared guard are split off both operands, the rest is what the cross product sees
        okr, sides = True, ["a", "b"]
        for sd_, pr_ in part_pred.items():
            cl = resolve(pr_)
            pb = pat_bindings(cl["params"][0]) if cl.get("k") == "closure" and cl.get("params") else []
            body = resolve(norm_.tail_value(cl.get("body", {})))
            mem = None
            if body.get("k") == "mcall" and body["name"] == "contains" and peel(body["recv"]).get("k") == "local":
                mem = (peel(body["recv"]), body["args"][0])
            elif body.get("k") == "mcall" and body["name"] == "is_ok" and peel(body["recv"]).get("k") == "mcall" and peel(body["recv"])["name"] == "binary_search" and peel(peel(body["recv"])["recv"]).get("k") == "local":
                mem = (peel(peel(body["recv"])["recv"]), peel(body["recv"])["args"][0])
            good = False
            if len(pb) == 1 and mem is not None:
                arg = field_path(resolve(mem[1]))
                good = bool(arg) and arg[1] is not None and canon(arg[1]) == canon(pb[0][1]) and arg[2] == ["guard"]
                shared.add(canon(mem[0]["id"]))
            okr = okr and good
    okr = okr and len(shared) == 1
    ctx.inst("R20.4", "apply_bin_op:fast-path-removes-from-both", okr, f["span"], "after the common-guard fast path the processed entries must be removed from BOTH operands (found retain on %s)" % sides, sample=sides)
    # the fast path entry: for every shared guard g one entry {g, op(ec, a's value at g, b's value at g)}
    ops = [n for n in ix.nodes if n.get("k") == "callv" and is_local(n["f"], p_op)]

    def lookup(e, g_ids):
        """the operand side when e is `<side>.iter().find(|e| e.guard == g)...value` (through lets / an inlined helper)"""
        hits = []
        done = set()
        stack = [e]
        seen_ = 0
        while stack and seen_ < 40:
            x = stack.pop()
            seen_ += 1
            x = resolve(x)
            for y in walk(x):
                if y.get("k") == "mcall" and y["name"] == "find":
                    if id(y) in done:
                        continue
                    done.add(id(y))
                    b_, ms_ = chain(y["recv"])
                    src = side_of(b_) or side_of(resolve(b_))
                    cl = resolve(y["args"][0])
                    cmp_ok = False
                    if cl.get("k") == "closure":
                        for z in walk(cl["body"]):
                            if z.get("k") == "binary" and z["op"] == "==":
                                for l_, r_ in ((z["l"], z["r"]), (z["r"], z["l"])):
                                    fl = field_path(l_)
                                    if fl and fl[2] == ["guard"] and peel(r_).get("k") == "local" and canon(peel(r_)["id"]) in g_ids:
                                        cmp_ok = True
                    if src and cmp_ok:
                        hits.append(src)
                elif y.get("k") == "local" and y is not x:
                    init = simple_let_init(defs, y["id"])
                    if init is not None:
                        stack.append(init)
        return hits[0] if len(hits) == 1 else None
    fp_ok = False
    cross_op = None
    for o in ops:
        it = norm_.iter_context(ix, o)
        if it is None or it["kind"] != "for":
            continue
        gb = pat_bindings(it["pat"])
        # iteration over the (sorted) shared guards
        srcb, srcms = chain(it["src"])
        over_shared = False
        cur = srcb
        for _ in range(4):
            cur = peel(cur)
            if cur.get("k") == "local" and canon(cur["id"]) in shared:
                over_shared = True
                break
            init = simple_let_init(defs, cur["id"]) if cur.get("k") == "local" else None
            if init is None:
                break
            cur = chain(init)[0]
        if len(gb) == 1 and over_shared and len(o["args"]) == 3:
            g_ids = {canon(gb[0][1])} | {i_ for i_ in ALIASES if canon(i_) == canon(gb[0][1])}
            fp_ok = lookup(o["args"][1], g_ids) == "a" and lookup(o["args"][2], g_ids) == "b"
            # the entry carries that very guard
            st = [x for x in ix.nodes if x.get("k") == "struct" and x["path"].endswith("::Entry") and contains(it["body"], x)]
            fp_ok = fp_ok and len(st) == 1 and is_local({f_["name"]: f_["e"] for f_ in st[0]["fields"]}["guard"], gb[0][1]) \
                and norm_.value_source(ix, defs, {f_["name"]: f_["e"] for f_ in st[0]["fields"]}["value"]) is o
        else:
            cross_op = o
    ctx.inst("R20.4", "apply_bin_op:fast-path-entry", fp_ok, f["span"], "a common guard must yield one entry {guard, op(a's value at guard, b's value at guard)} in that operand order")
    # cross product: every remaining (x, y) pair, guard = and(x.guard, y.guard), dropped only when unsatisfiable, value op(x.value, y.value)
    okx = cross_op is not None
    why = "no nested loop over the remaining entries of a and b"
    if okx:
        inner = norm_.iter_context(ix, cross_op)
        outer = norm_.iter_context(ix, inner["node"]) if inner else None
        okx = inner is not None and outer is not None and inner["kind"] == "for" and outer["kind"] == "for"
        if okx:
            so, si = side_of(chain(outer["src"])[0]), side_of(chain(inner["src"])[0])
            okx = {so, si} == {"a", "b"} and not D.source(outer["src"])[1] and not D.source(inner["src"])[1]
            if okx and part_rest:
                # with the partition form the loops must run over the remaining halves
                ids_ = {canon(local_id(chain(outer["src"])[0]) or -1), canon(local_id(chain(inner["src"])[0]) or -1)}
                okx = ids_ == {canon(v_) for v_ in part_rest.values()}
            why = "the nested loops run over %s and %s" % (so, si)
        if okx:
            xb, yb = pat_bindings(outer["pat"]), pat_bindings(inner["pat"])
            elem = {so: xb[0][1] if len(xb) == 1 else None, si: yb[0][1] if len(yb) == 1 else None}
            # placement: reached whenever entries remain - not inside either branch of the fast path, guarded at most by non-emptiness tests
            fast_if = [n for n in ix.nodes if n.get("k") == "if" and any(contains(n["then"], r) for r in retains)]
            in_fast = any(contains(fi["then"], outer["node"]) or ("else" in fi and contains(fi["else"], outer["node"])) for fi in fast_if)
            conds = norm_.path_conditions(ix, outer["node"])
            only_empty_tests = all(c_.get("k") == "mcall" and c_["name"] == "is_empty" and side_of(c_["recv"]) and not pol for c_, pol in conds)
            okx = not in_fast and only_empty_tests and (not fast_if or ix.precedes(fast_if[0], outer["node"]))
            why = "cross product guarded by %s%s" % ([("" if p_ else "!") + show(c_)[:30] for c_, p_ in conds], " and placed inside the fast-path branch" if in_fast else "")
        if okx:
            ands = [x for x in walk(inner["body"]) if x.get("k") == "mcall" and callee(x) == V + "GuardCtx::and"]
            okg = len(ands) == 1
            if okg:
                got = set()
                for a_ in ands[0]["args"]:
                    fl = field_path(a_)
                    for k_, v_ in elem.items():
                        if fl and fl[2] == ["guard"] and v_ is not None and canon(fl[1]) == canon(v_):
                            got.add(k_)
                okg = got == {"a", "b"}
            why = "cross-product guard is %s" % (show(ands[0])[:80] if ands else "?")
            # pushed unless unsatisfiable
            pushes = [x for x in walk(inner["body"]) if x.get("k") == "mcall" and x["name"] == "push"]
            okp = len(pushes) == 1
            if okp and okg:
                gv = None
                conds = norm_.path_conditions(ix, pushes[0], upto=inner["node"])
                okp = len(conds) == 1 and conds[0][1] is False and conds[0][0].get("k") == "mcall" and conds[0][0]["name"] == "is_false" and norm_.value_source(ix, defs, conds[0][0]["args"][0]) is ands[0]
                st = resolve(pushes[0]["args"][0])
                fs = {f_["name"]: f_["e"] for f_ in st.get("fields", [])} if st.get("k") == "struct" else {}
                okp = okp and "guard" in fs and norm_.value_source(ix, defs, fs["guard"]) is ands[0] and norm_.value_source(ix, defs, fs.get("value", {})) is cross_op
                # op(ec, a's value, b's value) in operand order
                vals = []
                for a_ in cross_op["args"][1:]:
                    b_, ms_ = chain(a_)
                    fl = field_path(b_)
                    vals.append(next((k_ for k_, v_ in elem.items() if fl and fl[2] == ["value"] and v_ is not None and canon(fl[1]) == canon(v_)), None))
                okp = okp and vals == ["a", "b"]
            okx = okg and okp
            if not okx:
                why += "; entries must be pushed for every pair unless the guard is unsatisfiable, with value op(a, b)"
            # every pair: nothing leaves the two loops early (a `continue` past an unsatisfiable pair is the skip above; `?` leaves the function)
            jumps = [x for x in walk(outer["body"]) if x.get("k") in ("break", "return")]
            if okx and jumps:
                okx = False
                why = "the cross product is cut short by `%s`: pairs after it are never combined, so the result no longer covers every valuation" % show(jumps[0])[:40]
    ctx.inst("R20.4", "apply_bin_op:cross-product", okx, cross_op["sp"] if cross_op else f["span"], "the remaining entries must always be combined pairwise: %s" % why, sample=why)


def coalesce(ctx):
    f = ctx.fn("patronus_dse", V + "coalesce_entries")
    ix = Index(f["body"])
    defs = local_defs(f)
    p_entries = (param_ids(f) + [None])[0]
    ors = [n for n in ix.nodes if n.get("k") == "mcall" and callee(n) == V + "GuardCtx::or"]
    ok = len(ors) == 1
    why = "expected one GuardCtx::or"
    if ok:
        # both operands are guards of entries of the list, read in this iteration: entries[i].guard or (entries[i].clone()).guard
        idx = []
        for a in ors[0]["args"]:
            fl = None
            e = peel(norm_.value_source(ix, defs, a))
            src0 = None
            if e.get("k") == "local":
                # `let Entry { guard, value } = entries[i].clone();`: the binding is the guard field of that entry
                d_ = defs.get(e["id"]) or defs.get(canon(e["id"]))
                if d_ and d_[0] == "let" and "init" in d_[1]:
                    pt_ = d_[1]["pat"]
                    while pt_.get("k") in ("pref", "pderef"):
                        pt_ = pt_["pat"]
                    if pt_.get("k") == "pstruct":
                        for fl_ in pt_["fields"]:
                            if fl_["name"] == "guard" and any(canon(bi) == canon(e["id"]) for _, bi in pat_bindings(fl_["pat"])):
                                src0 = d_[1]["init"]
            if (e.get("k") == "field" and e["name"] == "guard") or src0 is not None:
                src = norm_.value_source(ix, defs, e["e"]) if src0 is None else norm_.value_source(ix, defs, src0)
                b_, ms_ = chain(src)
                b_ = peel(b_)
                if b_.get("k") == "index" and is_local(b_["e"], p_entries) and all(m_[0] in ("clone",) for m_ in ms_) and peel(b_["i"]).get("k") == "local":
                    # the read must happen inside the loop (the current guard), not before it
                    loop = ix.enclosing(ors[0], ("for", "while", "loop"))
                    if loop is not None and contains(loop, b_):
                        fl = canon(peel(b_["i"])["id"])
            idx.append(fl)
        why = "merged guard is or(%s)" % ", ".join("entries[#%s].guard" % x if x else "?" for x in idx)
        ok = None not in idx and len(set(idx)) == 2
        if ok:
            # the result is stored in one of the two entries (the later one), the other (earlier) index is scheduled for deletion,
            # and the map from values to indices remembers the later index
            stores = [n for n in ix.nodes if n.get("k") == "assign" and field_path(n["l"]) is None and peel(n["l"]).get("k") == "field" and peel(n["l"])["name"] == "guard"
                      and peel(peel(n["l"])["e"]).get("k") == "index" and is_local(peel(peel(n["l"])["e"])["e"], p_entries)]
            ok = len(stores) == 1 and norm_.value_source(ix, defs, stores[0]["r"]) is ors[0]
            later = canon(local_id(peel(peel(stores[0]["l"])["e"])["i"])) if ok and local_id(peel(peel(stores[0]["l"])["e"])["i"]) is not None else None
            ok = ok and later in idx
            earlier = [x for x in idx if x != later][0] if ok else None
            dl = [n for n in ix.nodes if n.get("k") == "mcall" and n["name"] in ("push", "insert") and len(n["args"]) == 1 and earlier is not None and is_local(n["args"][0], earlier)]
            ok = ok and len(dl) == 1 and ix.regions[id(dl[0])] == ix.regions[id(stores[0])]
            why += "; stored in the later entry, earlier entry scheduled for deletion" if ok else "; store/deletion bookkeeping does not match"
            ins = [n for n in ix.nodes if n.get("k") == "mcall" and n["name"] == "insert" and len(n["args"]) == 2 and "HashMap" in (n.get("path") or "") and later is not None and is_local(n["args"][1], later)]
            loop = ix.enclosing(ors[0], ("for", "while", "loop"))
            ok = ok and len(ins) == 1 and loop is not None and len(ix.regions[id(ins[0])]) == len(ix.regions[id(loop)]) + 1
            # the earlier index comes from the map (the previous entry with the same value)
            if ok:
                d = defs.get(earlier)
                src = None
                if d and d[0] in ("letexpr", "arm", "let"):
                    src = d[1].get("init") if d[0] != "arm" else d[1]["scrut"]
                sb, sms = chain(norm_.value_source(ix, defs, src)) if src is not None else ({}, [])
                ok = [m_[0] for m_ in sms][:1] in (["get"], ["insert"]) and "HashMap" in (sms[0][2].get("path") or "")
    ctx.inst("R20.5", "coalesce_entries:merge", ok, f["span"], "coalescing must OR the earlier entry's CURRENT guard (read from entries[prev] when merging) with the later entry's guard, store it in the later entry, delete the earlier one and remember the later index: %s" % why, sample=why)


def traversal(ctx):
    """the traversal used by expr_to_guard hands f exactly the values of the children it scheduled"""
    ctx.rule("R20.6", "bottom_up_multi_pat(_mut) takes from the value stack exactly as many values as children were scheduled for the node (the count recorded when they were pushed), never the node's static child count")
    for name in ("bottom_up_multi_pat", "bottom_up_multi_pat_mut"):
        f = ctx.fn("patronus", "patronus::expr::traversal::" + name)
        ix = Index(f["body"])
        defs = local_defs(f)
        # roles: the work list is the vector popped by the loop, the value stack receives the visitor's result,
        # the children vector is the one handed to get_children
        pids = param_ids(f) + [None] * 4           # (ctx, expr, get_children, f)
        p_get, p_visit = pids[2], pids[3]
        loops = [n for n in ix.nodes if n.get("k") == "while" and peel(n["cond"]).get("k") == "letexpr" and [m_[0] for m_ in chain(peel(n["cond"])["init"])[1]] == ["pop"]]
        visits = [n for n in ix.nodes if n.get("k") == "callv" and is_local(n["f"], p_visit)]
        gets = [n for n in ix.nodes if n.get("k") == "callv" and is_local(n["f"], p_get)]
        ok = len(loops) == 1 and len(visits) == 1 and len(gets) == 1
        why = "UNRECOGNISED: expected one work-list loop, one visitor call and one get_children call"
        if ok:
            loop = loops[0]
            todo_id = local_id(chain(peel(loop["cond"])["init"])[0])
            popped = [i for _, i in pat_bindings(peel(loop["cond"])["pat"])]
            # the slice handed to the visitor
            sl = resolve(visits[0]["args"][2])
            stack_id = local_id(sl["e"]) if sl.get("k") == "index" else None
            rng = peel(sl["i"]) if sl.get("k") == "index" else {}
            start = {f_["name"]: f_["e"] for f_ in rng.get("fields", [])}.get("start") if rng.get("k") == "struct" and rng["path"].endswith("RangeFrom") else None
            tr = [n for n in ix.nodes if n.get("k") == "mcall" and n["name"] == "truncate" and stack_id is not None and is_local(n["recv"], stack_id)]
            res_push = [n for n in ix.nodes if n.get("k") == "mcall" and n["name"] == "push" and stack_id is not None and is_local(n["recv"], stack_id) and norm_.value_source(ix, defs, n["args"][0]) is visits[0]]
            ok = stack_id is not None and start is not None and len(tr) == 1 and len(res_push) == 1
            why = "UNRECOGNISED: expected the visitor to receive `&stack[stack.len() - n..]`, then stack.truncate(..) and stack.push(result)"
            if ok:
                def minus_count(e):
                    """the local N when e is `stack.len() - N` (through lets)"""
                    e = resolve(e)
                    if e.get("k") == "binary" and e["op"] == "-":
                        lb, lms = chain(resolve(e["l"]))
                        if [m_[0] for m_ in lms] == ["len"] and is_local(lb, stack_id) and peel(e["r"]).get("k") == "local":
                            return canon(peel(e["r"])["id"])
                    return None
                c1, c2 = minus_count(start), minus_count(tr[0]["args"][0])
                ok = c1 is not None and c1 == c2
                why = "slice and truncate use different counts"
                if ok:
                    init = simple_let_init(defs, c1)
                    static = init is not None and any(x.get("k") == "mcall" and x["name"] == "num_children" for x in walk(init))
                    # provenance: derives from the popped work-list entry's recorded count
                    from_entry = init is not None and any(x.get("k") == "local" and (x["id"] in popped or canon(x["id"]) in [canon(p_) for p_ in popped]) for x in walk(init))
                    # the count recorded with a re-scheduled node is the number of children get_children returned
                    child_vec = local_id(gets[0]["args"][2])
                    rec = []
                    for n in ix.nodes:
                        if n.get("k") == "mcall" and n["name"] == "push" and is_local(n["recv"], todo_id):
                            t = peel(n["args"][0])
                            if t.get("k") == "tuple" and len(t["es"]) == 2:
                                c_ = resolve(t["es"][1])
                                if c_.get("k") == "ctor" and callee(c_).endswith("Option::Some"):
                                    cb, cms = chain(resolve(c_["args"][0]))
                                    rec.append([m_[0] for m_ in cms] == ["len"] and child_vec is not None and is_local(cb, child_vec))
                    if init is None:
                        # the count comes out of a destructured value: `let (e, n) = match entry { Combine(e, n) => (e, n), Expand(e) => { ..; (e, 0) } }`
                        d_ = defs.get(c1) or defs.get(canon(c1))
                        if d_ and d_[0] == "let" and "init" in d_[1]:
                            pt_ = d_[1]["pat"]
                            while pt_.get("k") in ("pref", "pderef"):
                                pt_ = pt_["pat"]
                            pos_ = None
                            if pt_.get("k") == "ptuple":
                                for i_, sp_ in enumerate(pt_["subs"]):
                                    if any(canon(bi) == canon(c1) for _, bi in pat_bindings(sp_)):
                                        pos_ = i_
                            if pos_ is not None:
                                good, seen_entry = True, False
                                for cs_, leaf in norm_.value_alternatives(d_[1]["init"]):
                                    leaf = peel(leaf)
                                    if not (leaf.get("k") == "tuple" and len(leaf["es"]) > pos_):
                                        good = False
                                        break
                                    comp = resolve(peel(leaf["es"][pos_]))
                                    if comp.get("k") == "local" and any(c_.get("k") == "armpat" and pol and any(canon(bi) == canon(comp["id"]) for _, bi in pat_bindings(c_["pat"])) and
                                                                        any(is_local(c_["scrut"], p_) for p_ in popped) for c_, pol in cs_):
                                        seen_entry = True         # the count recorded in the popped entry
                                        continue
                                    if comp.get("k") == "lit" and comp.get("v") == 0 and child_vec is not None and any(
                                            pol and c_.get("k") == "mcall" and c_["name"] == "is_empty" and is_local(c_["recv"], child_vec) for c_, pol in cs_ + norm_.path_conditions(ix, leaf)):
                                        continue                  # no children were requested: zero values
                                    cb_, cms_ = chain(comp)
                                    if [m_[0] for m_ in cms_] == ["len"] and child_vec is not None and is_local(cb_, child_vec):
                                        continue
                                    good = False
                                from_entry = good and seen_entry
                                init = d_[1]["init"]
                    if rec == []:
                        # entries that are constructors (`Visit::Combine(e, children.len())`) instead of tuples
                        for n in ix.nodes:
                            if n.get("k") == "mcall" and n["name"] == "push" and is_local(n["recv"], todo_id):
                                t = peel(n["args"][0])
                                if t.get("k") == "ctor" and len(t.get("args", [])) >= 2:
                                    for a_ in t["args"]:
                                        a0 = resolve(a_)
                                        if a0.get("k") == "ctor" and callee(a0).endswith("Option::Some") and a0.get("args"):
                                            a0 = resolve(a0["args"][0])
                                        cb, cms = chain(a0)
                                        if [m_[0] for m_ in cms] == ["len"]:
                                            rec.append(child_vec is not None and is_local(cb, child_vec))
                    ok = (not static) and from_entry and rec == [True]
                    why = "the number of values taken is `%s`%s" % (show(init)[:60] if init is not None else "?", " (the node's static child count, although get_children may have returned fewer)" if static else "")
        ctx.inst("R20.6", "%s:values-of-visited-children-only" % name, ok, f["span"], "%s: %s - for a node whose children were (partly) not visited the values of other nodes are consumed or the stack index underflows" % (name, why), sample=why)
