"""C20 - value summaries: sorted-delete-list typestate, complement guards, boolean-expression-to-guard table,
cross product and fast path of apply_bin_op, coalescing with current guards."""
from ..tree import *  # noqa
from ..flow import Index
from ..tables import *  # noqa
from .c02 import binding_of_pat

V = "patronus_dse::value_summary::"

EXPLANATION = ("Static analysis of patronus_dse::value_summary (rustc HIR facts): delete_entries is a single forward pass and therefore needs a strictly ascending index list - every call site's argument is tracked through a "
               "Sorted/Unsorted typestate (sort before the call, or indices pushed in loop-index order); apply_ite and import_into_guard guard the two sides with a condition and GuardCtx::not of the very same condition; "
               "expr_to_guard maps not/and/or/xor/implies/literal to the BDD operation of the same meaning over the children in order and everything else to a terminal, visiting children only below Boolean operators; "
               "apply_bin_op removes fast-path entries from both operands and then always forms the cross product of the rest with GuardCtx::and guards, dropping only unsatisfiable ones; coalescing ORs the current guard of "
               "the earlier entry with the later one's.")
ASSUMPTIONS = ["the BDD library implements and/or/not/xor/implies correctly and canonically", "the partition invariant as a semantic statement over BDDs is not decided, only the structural clauses it rests on"]
LEVEL_TEXT = ("Static typestate / sibling-table / pairing analysis of the summary operations: decides for all summaries and guard valuations at once the structural clauses behind 'pairwise disjoint and jointly exhaustive' "
              "(complementary guards from one condition, complete cross product, precondition of the entry deletion, operator table of the guard import). The BDD package itself is trusted.")
LEVEL_NOTE = "Structural necessary conditions of the partition invariant; no BDD-level semantic proof."
TECHNIQUE = "typestate rule at call sites, complement-pairing def-use rule, arm-table vs. oracle, statement-order rule on rustc HIR facts"


def run(ctx):
    ctx.rule("R20.1", "every call of delete_entries passes a strictly ascending index list: sorted before the call, or filled by pushing the loop index of an ascending range loop")
    ctx.rule("R20.2", "apply_ite guards tru-entries with c and fals-entries with GuardCtx::not(c) of the same c; import_into_guard pairs value_as_guard with true_value and not(value_as_guard) with false_value")
    ctx.rule("R20.3", "expr_to_guard maps BVLiteral/BVNot/BVAnd/BVOr/BVXor/BVImplies to constant/not/and/or/xor/implies over the children in order, everything else to a terminal; children are visited only when all are Boolean")
    ctx.rule("R20.4", "apply_bin_op: the common-guard fast path removes the processed entries from both operands; the cross product of the remaining entries is formed unconditionally afterwards with GuardCtx::and guards, skipping only unsatisfiable ones")
    ctx.rule("R20.5", "coalesce_entries ORs the earlier entry's current guard (read from the entry list at merge time) with the later entry's guard and stores it in the later entry; the earlier entry is scheduled for deletion")
    c = ctx.facts.lib("patronus_dse")
    delete_typestate(ctx, c)
    complement(ctx)
    guard_table(ctx)
    binop(ctx)
    coalesce(ctx)
    traversal(ctx)


def fnv(ctx, name):
    return ctx.fn("patronus_dse", name)


def delete_typestate(ctx, c):
    n_calls = 0
    for path, fl in c.fns.items():
        for f in fl:
            ix = Index(f["body"])
            defs = local_defs(f)
            for n in ix.nodes:
                if n.get("k") == "call" and callee(n) == V + "delete_entries":
                    n_calls += 1
                    arg = peel(n["args"][0])
                    state, why = "Unsorted", "argument is not a tracked local"
                    if arg.get("k") == "local":
                        state, why = typestate(arg["id"], n, ix, defs)
                    ctx.inst("R20.1", "%s:delete_entries#%d" % (path.split("::")[-1], n_calls), state == "Sorted", n["sp"],
                             "%s passes an index list that is not known to be ascending to delete_entries (%s): delete_entries compares only the next list element with a running index, so an out-of-order index is never deleted and a stale entry with an overlapping guard survives" % (path, why),
                             sample={"fn": path, "typestate": state, "because": why})
    ctx.floor("R20.1", "delete_entries call sites", n_calls, 1)
    # the callee really is the single forward pass the precondition is derived from
    g = fnv(ctx, V + "delete_entries")
    ok = anyshow(g["body"], "delete_iter.peek().cloned()==Option::Some(current_index)") and anyshow(g["body"], "entries.retain(")
    ctx.inst("R20.1", "delete_entries:forward-pass", ok, g["span"], "delete_entries is no longer the single forward pass comparing the next list element with the running index (re-review the precondition)", nontrivial=False)


def typestate(lid, call, ix, defs):
    events = []
    for n in ix.nodes:
        if n.get("k") == "mcall" and is_local(n["recv"], lid) and ix.precedes(n, call):
            events.append(n)
    if not events:
        init = simple_let_init(defs, lid)
        return ("Sorted", "empty list") if init is not None and "vec" in show(init).lower() else ("Unsorted", "no mutation seen")
    last = events[-1]
    names = [e["name"] for e in events]
    # sort (optionally followed by dedup) as the last mutation, unconditionally before the call
    tail = [e for e in events if e["name"] not in ("len", "is_empty", "iter")]
    if tail and tail[-1]["name"] in ("dedup", "sort", "sort_unstable"):
        srt = [e for e in tail if e["name"] in ("sort", "sort_unstable")]
        if srt and ix.dominates(srt[-1], call) and all(e["name"] in ("dedup",) for e in tail[tail.index(srt[-1]) + 1:]):
            return "Sorted", "sorted before the call"
    pushes = [e for e in events if e["name"] in ("push", "insert", "extend", "append")]
    if pushes and all(e["name"] == "push" for e in pushes):
        ok = True
        loopvars = set()
        for p in pushes:
            loop = ix.enclosing(p, ("for",))
            a = peel(p["args"][0])
            lb = binding_of_pat(loop["pat"]) if loop is not None else None
            rng = loop is not None and (show(loop["iter"]).startswith("range::Range") or "RangeInclusive::new" in show(loop["iter"]) or (chain(loop["iter"])[1] and [m[0] for m in chain(loop["iter"])[1]][-1:] == ["enumerate"]))
            if not (lb and a.get("k") == "local" and a["id"] == lb[1] and show(loop["iter"]).startswith("range::Range")):
                ok = False
                why = "pushes `%s`, which is not the loop index of an ascending range loop" % show(p["args"][0])
            else:
                loopvars.add(lb[1])
        if ok and len(loopvars) == 1:
            return "Sorted", "indices pushed in loop-index order"
        return "Unsorted", why if not ok else "pushed from several loops"
    return "Unsorted", "mutated by %s" % names


def complement(ctx):
    f = fnv(ctx, V + "ValueSummary::<V>::apply_ite") if ctx.fn_opt("patronus_dse", V + "ValueSummary::<V>::apply_ite") else None
    if f is None:
        cands = [p for p in ctx.facts.lib("patronus_dse").fns if p.endswith("::apply_ite")]
        f = ctx.fn("patronus_dse", cands[0] if cands else V + "ValueSummary::apply_ite")
    ix = Index(f["body"])
    defs = local_defs(f)
    P = {name: i for p in f["params"] for name, i in pat_bindings(p)}
    # condition local and its complement
    tru_cond = None
    for i, d in defs.items():
        if d[0] == "let" and d[2].get("k") == "ptuple" and "init" in d[1] and "to_guard" in show(d[1]["init"]):
            b = binding_of_pat(d[2]["subs"][0])
            tru_cond = b[1] if b else None
    fals_cond = None
    for i, d in defs.items():
        if d[0] == "let" and d[2].get("k") == "pbind" and "init" in d[1]:
            init = peel(d[1]["init"])
            if init.get("k") == "mcall" and callee(init) == V + "GuardCtx::not" and is_local(init["args"][0], tru_cond):
                fals_cond = i
    ctx.inst("R20.2", "apply_ite:complement-defined", tru_cond is not None and fals_cond is not None, f["span"], "apply_ite must derive the else-guard as GuardCtx::not of the very condition guard it uses for the then-side")
    seen = {}
    for loop in [n for n in ix.nodes if n.get("k") == "for"]:
        b, ms = chain(loop["iter"])
        fp = field_path(b)
        if not (fp and fp[2] == ["entries"] and fp[1] in (P.get("tru"), P.get("fals"))):
            continue
        side = "tru" if fp[1] == P.get("tru") else "fals"
        eb = binding_of_pat(loop["pat"])
        ands = [x for x in walk(loop["body"]) if x.get("k") == "mcall" and callee(x) == V + "GuardCtx::and"]
        ok = len(ands) == 1 and eb is not None
        if ok:
            a0, a1 = ands[0]["args"]
            want = tru_cond if side == "tru" else fals_cond
            sides = [a0, a1]
            has_entry = any(field_path(s_) and field_path(s_)[1] == eb[1] and field_path(s_)[2] == ["guard"] for s_ in sides)
            has_cond = any(is_local(s_, want) for s_ in sides)
            ok = has_entry and has_cond
            # the value is carried over unchanged
            st = [x for x in walk(loop["body"]) if x.get("k") == "struct" and x["path"].endswith("::Entry")]
            ok = ok and len(st) == 1 and show({f_["name"]: f_ for f_ in st[0]["fields"]}["value"]["e"]).replace(" ", "") == "%s.value" % eb[0]
            ok = ok and len(ix.regions[id(ands[0])]) == len(ix.regions[id(loop)]) + 1 and [m[0] for m in ms] == ["into_iter"]
        seen[side] = ok
        ctx.inst("R20.2", "apply_ite:%s-entries" % side, ok, loop["sp"], "every %s entry must be kept with guard GuardCtx::and(entry.guard, %s) and its own value" % (side, "cond" if side == "tru" else "not(cond)"),
                 sample=show(ands[0])[:80] if ands else None)
    for side in ("tru", "fals"):
        if side not in seen:
            ctx.violation("R20.2", "apply_ite:%s-entries" % side, f["span"], "no loop re-guards the %s entries" % side)
    # import_into_guard
    cands = [p for p in ctx.facts.lib("patronus_dse").fns if p.endswith("::import_into_guard")]
    g = ctx.fn("patronus_dse", cands[0] if cands else V + "import_into_guard")
    gdefs = local_defs(g)
    vg = None
    for i, d in gdefs.items():
        if d[0] == "let" and d[2].get("k") == "ptuple" and "to_guard" in show(d[1].get("init", {})):
            b = binding_of_pat(d[2]["subs"][0])
            vg = b[1] if b else None
    pairs = []
    for n in walk(g["body"]):
        if n.get("k") == "struct" and n["path"].endswith("::Entry"):
            fs = {f_["name"]: f_["e"] for f_ in n["fields"]}
            gd, val = peel(fs["guard"]), show(fs["value"]).replace(" ", "")
            kind = "?"
            if gd.get("k") == "local" and gd["id"] == vg:
                kind = "g"
            elif gd.get("k") == "mcall" and callee(gd) == V + "GuardCtx::not" and is_local(gd["args"][0], vg):
                kind = "not g"
            elif gd.get("k") == "mcall" and gd["name"] == "get_true":
                kind = "true"
            pairs.append((kind, "true_value" if "true_value" in val else "false_value" if "false_value" in val else val))
    two = [p for p in pairs if p[0] in ("g", "not g")]
    ctx.inst("R20.2", "import_into_guard:complementary-pair", sorted(two) == [("g", "true_value"), ("not g", "false_value")], g["span"],
             "import_into_guard must produce exactly {guard: g, value: true} and {guard: not(g), value: false}: %s" % pairs, sample=pairs)
    # trivial cases: is_true(g) -> single true entry, is_false(g) -> single false entry
    triv = {}
    gx = Index(g["body"])
    for n in gx.nodes:
        if n.get("k") == "if":
            cnd = peel(n["cond"])
            if cnd.get("k") == "mcall" and cnd["name"] in ("is_true", "is_false") and is_local(cnd["args"][0], vg):
                vals = [show({f_["name"]: f_ for f_ in x["fields"]}["value"]["e"]) for x in walk(n["then"]) if x.get("k") == "struct" and x["path"].endswith("::Entry")]
                triv[cnd["name"]] = ["true_value" if "true_value" in v else "false_value" for v in vals]
    ctx.inst("R20.2", "import_into_guard:trivial-cases", triv == {"is_true": ["true_value"], "is_false": ["false_value"]}, g["span"], "a guard that is constantly true/false must yield the single value true/false: %s" % triv, sample=triv)


GUARD_ORACLE = {"BVNot": ("not", [0]), "BVAnd": ("and", [0, 1]), "BVOr": ("or", [0, 1]), "BVXor": ("xor", [0, 1]), "BVImplies": ("implies", [0, 1])}


def guard_table(ctx):
    f = ctx.fn("patronus_dse", V + "GuardCtx::expr_to_guard")
    calls = [n for n in walk(f["body"]) if n.get("k") == "call" and (callee(n) or "").endswith("traversal::bottom_up_multi_pat")]
    if len(calls) != 1:
        ctx.violation("R20.3", "expr_to_guard:shape", f["span"], "UNRECOGNISED: expr_to_guard is not a bottom_up_multi_pat traversal")
        return
    get_children, combine = peel(calls[0]["args"][2]), peel(calls[0]["args"][3])
    # children closure: collects for_each_child order, clears unless all are Boolean
    okc = anyshow(get_children["body"], "expr.for_each_child(|c|children.push(*c))") and anyshow(get_children["body"], "children.iter().all(|e|ctx[*e].is_bool(ctx))") and anyshow(get_children["body"], "if!all_bool_children{children.clear()}")
    ctx.inst("R20.3", "expr_to_guard:children", okc, get_children["sp"], "children must be collected in for_each_child order and dropped unless all of them are Boolean")
    m = None
    for n in walk(combine["body"]):
        if n.get("k") == "match" and n.get("src") == "match":
            m = n
            break
    if m is None:
        ctx.violation("R20.3", "expr_to_guard:match", combine["sp"], "UNRECOGNISED: no match over the expression kind")
        return
    cb = binding_of_pat(combine["params"][2])
    eb = binding_of_pat(combine["params"][1])
    seen = set()
    for alt, arm in match_arms(m):
        vp = variant_pat(alt)
        b = peel(peel_block(arm["body"]))
        if vp is None:
            term = [x for x in walk(arm["body"]) if x.get("k") == "mcall" and x["name"] == "terminal"]
            ok = len(term) == 1 and eb and is_local(term[0]["args"][0], eb[1]) and "guard" not in arm
            ctx.inst("R20.3", "expr_to_guard:other->terminal", ok, arm["sp"], "every other expression must become a terminal for that very expression")
            continue
        vn = vname(vp[0])
        seen.add(vn)
        if vn == "BVLiteral":
            vbs = [binding_of(sp) for sp in vp[1].values()]
            ok = b.get("k") == "mcall" and b["name"] == "constant" and show(b["args"][0]).replace(" ", "") == "%s.is_true()" % (vbs[0][0] if vbs and vbs[0] else "?")
            ctx.inst("R20.3", "expr_to_guard:BVLiteral", ok, arm["sp"], "a Boolean literal must become constant(literal is true): %s" % show(b)[:80], sample=show(b)[:60])
            continue
        want = GUARD_ORACLE.get(vn)
        if want is None:
            ctx.violation("R20.3", "expr_to_guard:%s" % vn, arm["sp"], "%s is converted structurally but is not a Boolean connective of the guard language" % vn)
            continue
        idxs = []
        okargs = b.get("k") == "mcall"
        if okargs:
            for a in b["args"]:
                a = peel(a)
                if a.get("k") == "index" and is_local(a["e"], cb[1]) and peel(a["i"]).get("k") == "lit":
                    idxs.append(peel(a["i"])["v"])
                else:
                    okargs = False
        ok = okargs and b["name"] == want[0] and (idxs == want[1] or (want[0] in ("and", "or", "xor") and sorted(idxs) == want[1])) and "bdd" in show(b["recv"])
        ctx.inst("R20.3", "expr_to_guard:%s" % vn, ok, arm["sp"], "%s must become %s over children %s: %s" % (vn, want[0], want[1], show(b)[:80]), sample=show(b)[:60])
    for vn in list(GUARD_ORACLE) + ["BVLiteral"]:
        if vn not in seen:
            ctx.inst("R20.3", "expr_to_guard:%s:present" % vn, False, m["sp"], "%s falls into the terminal arm: a Boolean connective becomes an opaque variable and the guard is no longer equivalent to the expression structure" % vn, nontrivial=False)


def binop(ctx):
    cands = [p for p in ctx.facts.lib("patronus_dse").fns if p.endswith("::apply_bin_op")]
    f = ctx.fn("patronus_dse", cands[0] if cands else V + "apply_bin_op")
    ix = Index(f["body"])
    defs = local_defs(f)
    body_stmts = stmts_of(f["body"])
    # locals a, b (the entry vectors)
    ab = {}
    for i, d in defs.items():
        if d[0] == "let" and binding_of_pat(d[2]) and binding_of_pat(d[2])[0] in ("a", "b") and show(d[1]["init"]).endswith(".entries"):
            ab[binding_of_pat(d[2])[0]] = i
    if set(ab) != {"a", "b"}:
        ctx.violation("R20.4", "apply_bin_op:shape", f["span"], "UNRECOGNISED: operand entry vectors a/b not found")
        return
    retains = [n for n in ix.nodes if n.get("k") == "mcall" and n["name"] == "retain" and local_id(n["recv"]) in ab.values()]
    sides = sorted(k for k, v in ab.items() for r in retains if local_id(r["recv"]) == v)
    okr = sides == ["a", "b"] and all("!common_guards.contains(&e.guard)" in show(r["args"][0]).replace(" ", "") for r in retains)
    ctx.inst("R20.4", "apply_bin_op:fast-path-removes-from-both", okr, f["span"], "after the common-guard fast path the processed entries must be removed from BOTH operands (found retain on %s)" % sides, sample=sides)
    # the fast path entry: value op(a_expr, b_expr) with both looked up by the same guard
    fp_ok = anyshow(f["body"], "a.iter().find(|e|(e.guard==guard)).cloned().unwrap().value") and anyshow(f["body"], "b.iter().find(|e|(e.guard==guard)).cloned().unwrap().value") and anyshow(f["body"], "value:(op)(ec,a_expr,b_expr)")
    ctx.inst("R20.4", "apply_bin_op:fast-path-entry", fp_ok, f["span"], "a common guard must yield one entry {guard, op(a's value at guard, b's value at guard)} in that operand order")
    # cross product: a top-level statement after the fast-path statement
    cross = None
    for n in ix.nodes:
        if n.get("k") == "for" and is_local(chain(n["iter"])[0], ab["a"]):
            inner = [x for x in walk(n["body"]) if x.get("k") == "for" and is_local(chain(x["iter"])[0], ab["b"])]
            if inner:
                cross = (n, inner[0])
    okx = cross is not None
    why = "no nested loop over the remaining entries of a and b"
    if okx:
        outer, inner = cross
        anc_if = [a for a in ix.ancestors(outer) if a.get("k") == "if"]
        fast_if = [n for n in ix.nodes if n.get("k") == "if" and any(r for r in retains if contains(n["then"], r))]
        in_else = any("else" in fi and contains(fi["else"], outer) for fi in fast_if)
        in_then = any(contains(fi["then"], outer) for fi in fast_if)
        conds = [show(a["cond"]).replace(" ", "") for a in anc_if]
        okx = not in_else and not in_then and all(c_ in ("!a.is_empty()", "!b.is_empty()", "(!a.is_empty()&&!b.is_empty())") for c_ in conds) and (not fast_if or ix.precedes(fast_if[0], outer))
        why = "cross product guarded by %s%s" % (conds, " and placed in the else-branch of the fast path" if in_else else "")
        if okx:
            ands = [x for x in walk(inner["body"]) if x.get("k") == "mcall" and callee(x) == V + "GuardCtx::and"]
            okx = len(ands) == 1 and sorted(show(a).replace(" ", "") for a in ands[0]["args"]) == ["a_entry.guard", "b_entry.guard"]
            why = "cross-product guard is %s" % (show(ands[0])[:80] if ands else "?")
            pushes = [x for x in walk(inner["body"]) if x.get("k") == "mcall" and x["name"] == "push"]
            ifs = [a for a in Index(inner["body"]).ancestors(pushes[0]) if a.get("k") == "if"] if len(pushes) == 1 else [None]
            okx = okx and len(pushes) == 1 and len(ifs) == 1 and show(ifs[0]["cond"]).replace(" ", "") == "!gc.is_false(guard)" and anyshow(inner["body"], "value:(op)(ec,a_entry.value.clone(),b_entry.value.clone())")
            if not okx:
                why += "; entries must be pushed for every pair unless the guard is unsatisfiable, with value op(a, b)"
    ctx.inst("R20.4", "apply_bin_op:cross-product", okx, cross[0]["sp"] if cross else f["span"], "the remaining entries must always be combined pairwise: %s" % why, sample=why)


def coalesce(ctx):
    f = ctx.fn("patronus_dse", V + "coalesce_entries")
    ix = Index(f["body"])
    defs = local_defs(f)
    ors = [n for n in ix.nodes if n.get("k") == "mcall" and callee(n) == V + "GuardCtx::or"]
    ok = len(ors) == 1
    why = "expected one GuardCtx::or"
    if ok:
        srcs = []
        for a in ors[0]["args"]:
            fp = field_path(a)
            if not fp or fp[2] != ["guard"]:
                ok = False
                break
            init = simple_let_init(defs, fp[1])
            srcs.append(show(strip_try(init)).replace(" ", "") if init is not None else "?")
        why = "merged guard is or(%s)" % ", ".join(srcs)
        ok = ok and sorted(srcs) == sorted(["entries[prev_ii].clone()", "entries[ii].clone()"])
        if ok:
            # both reads happen at merge time: in the same iteration, after the map lookup
            stores = [n for n in ix.nodes if n.get("k") == "assign" and show(n["l"]).replace(" ", "") == "entries[ii].guard"]
            ok = len(stores) == 1 and show(stores[0]["r"]) == "combined_guard" and ix.precedes(ors[0], stores[0])
            dl = [n for n in ix.nodes if n.get("k") == "mcall" and n["name"] == "push" and show(n["recv"]) == "delete_list"]
            ok = ok and len(dl) == 1 and show(dl[0]["args"][0]) == "prev_ii" and ix.regions[id(dl[0])] == ix.regions[id(ors[0])]
            why += "; stored in the later entry, earlier entry scheduled for deletion" if ok else "; store/deletion bookkeeping does not match"
            ins = [n for n in ix.nodes if n.get("k") == "mcall" and n["name"] == "insert" and show(n["recv"]) == "by_value"]
            ok = ok and len(ins) == 1 and show(ins[0]["args"][1]) == "ii" and len(ix.regions[id(ins[0])]) == len(ix.regions[id(ix.enclosing(ins[0], ("for",)))]) + 1
    ctx.inst("R20.5", "coalesce_entries:merge", ok, f["span"], "coalescing must OR the earlier entry's CURRENT guard (read from entries[prev] when merging) with the later entry's guard, store it in the later entry, delete the earlier one and remember the later index: %s" % why, sample=why)


def traversal(ctx):
    """the traversal used by expr_to_guard hands f exactly the values of the children it scheduled"""
    ctx.rule("R20.6", "bottom_up_multi_pat(_mut) takes from the value stack exactly as many values as children were scheduled for the node (the count recorded when they were pushed), never the node's static child count")
    for name in ("bottom_up_multi_pat", "bottom_up_multi_pat_mut"):
        f = ctx.fn("patronus", "patronus::expr::traversal::" + name)
        ix = Index(f["body"])
        defs = local_defs(f)
        # the slice handed to f and the truncate use one local count
        sl = [n for n in ix.nodes if n.get("k") == "index" and "stack" in show(n["e"]) and "RangeFrom" in show(n["i"])]
        tr = [n for n in ix.nodes if n.get("k") == "mcall" and n["name"] == "truncate" and "stack" in show(n["recv"])]
        ok = len(sl) == 1 and len(tr) == 1
        why = "expected one stack slice and one truncate"
        if ok:
            cnt = [x for x in walk(sl[0]["i"]) if x.get("k") == "local" and x["name"] != "stack"]
            cnt2 = [x for x in walk(tr[0]["args"][0]) if x.get("k") == "local" and x["name"] != "stack"]
            ok = len(cnt) == 1 and len(cnt2) == 1 and cnt[0]["id"] == cnt2[0]["id"]
            why = "slice and truncate use different counts"
            if ok:
                init = simple_let_init(defs, cnt[0]["id"])
                static = init is not None and any(x.get("k") == "mcall" and x["name"] == "num_children" for x in walk(init))
                # provenance: derives from the popped todo entry's recorded count
                loop = ix.enclosing(sl[0], ("while",))
                popped = [i for _, i in pat_bindings(peel(loop["cond"])["pat"])] if loop is not None and peel(loop["cond"]).get("k") == "letexpr" else []
                from_entry = init is not None and any(x.get("k") == "local" and x["id"] in popped for x in walk(init))
                pushes = [n for n in ix.nodes if n.get("k") == "mcall" and n["name"] == "push" and "todo" in show(n["recv"]) and "child_vec.len()" in show(n["args"][0]).replace(" ", "")]
                ok = (not static) and from_entry and len(pushes) == 1
                why = "the number of values taken is `%s`%s" % (show(init)[:60] if init is not None else "?", " (the node's static child count, although get_children may have returned fewer)" if static else "")
        ctx.inst("R20.6", "%s:values-of-visited-children-only" % name, ok, f["span"], "%s: %s - for a node whose children were (partly) not visited the values of other nodes are consumed or the stack index underflows" % (name, why), sample=why)
