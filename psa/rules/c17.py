"""C17 - work-list shape of the cone-of-influence computation."""
import itertools
from ..tree import *  # noqa
from ..flow import Index
from .c02 import binding_of_pat, mname
from .. import norm as psanorm

MOD = "patronus::system::analysis::"
IMPL = MOD + "cone_of_influence_impl"

EXPLANATION = ("Static analysis of system::analysis::cone_of_influence_impl and its three entry points (rustc HIR facts): entry points pass the (follow_next, follow_init) constants their "
               "documentation states; for every popped node every child is pushed (guarded at most by 'not yet visited'), a state's init is pushed exactly under follow_init and its next exactly "
               "under follow_next (no other condition), a popped node is skipped only when already visited, only the popped node is ever marked visited, the only pushes onto the work list are root, "
               "children, init, next, and the output receives a node exactly when it is a symbol that is a state or input of the system (truth table over the three atoms).")
ASSUMPTIONS = ["sufficiency follows from completeness of the traversal by induction over the expression structure; the induction itself is not mechanised",
               "for_each_child enumerates all children (T1, decided under C01/C06)"]
LEVEL_TEXT = ("Static guard-set / who-may-push analysis of the work-list algorithm for all roots and systems at once: decides completeness (nothing reachable through the relevant links is skipped) "
              "and tightness (nothing else is added), the structural content of 'sufficient and syntactically tight'. The semantic sufficiency argument is by induction on this shape and is not mechanised."
              " The two look-up structures the traversal trusts (state map, input set) hold every state / input of the system, unfiltered.")
LEVEL_NOTE = "Shape rule at an anchor with one simple shape today; a rewrite of the traversal into another algorithm is reported as UNRECOGNISED (fail closed)."
TECHNIQUE = "guard-set extraction and who-may-push / who-may-mark rules on the structured control flow; truth-table equivalence of the output predicate"


def conjuncts(c):
    c = peel(c)
    if c.get("k") == "binary" and c["op"] == "&&":
        return conjuncts(c["l"]) + conjuncts(c["r"])
    return [c]


def run(ctx):
    ctx.rule("R17.1", "cone_of_influence calls the implementation with (follow_next, follow_init) = (true, true), _init with (false, true), _comb with (false, false)")
    ctx.rule("R17.2", "every child of a popped node is pushed unless visited; a state's init/next is pushed exactly under follow_init/follow_next (plus 'is Some' and 'not visited'); both tests are made for every popped state; a popped node is skipped only if visited")
    ctx.rule("R17.3", "the only work-list pushes are root, children, init, next; only the popped node is marked visited; the output receives the popped node iff it is a symbol that is a state or an input")
    f = ctx.fn("patronus", IMPL)
    pn = [binding_of_pat(p)[0] if binding_of_pat(p) else None for p in f["params"]]
    P = {name: i for p in f["params"] for name, i in pat_bindings(p)}
    for need in ("follow_next", "follow_init", "root", "sys", "ctx"):
        if need not in P:
            ctx.violation("R17.1", "impl:params", f["span"], "UNRECOGNISED: cone_of_influence_impl has no parameter named %s (a refactoring of the follow flags must be re-reviewed)" % need)
            return
    want = {"cone_of_influence": (True, True), "cone_of_influence_init": (False, True), "cone_of_influence_comb": (False, False)}
    for name, (fn_, fi_) in want.items():
        g = ctx.fn("patronus", MOD + name)
        calls = [n for n in walk(g["body"]) if n.get("k") == "call" and callee(n) == IMPL]
        ok = len(calls) == 1
        got = None
        if ok:
            a = calls[0]["args"]
            vn, vi = peel(a[pn.index("follow_next")]), peel(a[pn.index("follow_init")])
            got = (vn.get("v") if vn.get("k") == "lit" else "?", vi.get("v") if vi.get("k") == "lit" else "?")
            GP = {nm: i for p in g["params"] for nm, i in pat_bindings(p)}
            ok = got == (fn_, fi_) and is_local(a[pn.index("root")], GP.get("root")) and is_local(a[pn.index("sys")], GP.get("sys"))
        ctx.inst("R17.1", name, ok, g["span"], "%s must call the implementation with (follow_next, follow_init) = %s on its own root and system, found %s" % (name, (fn_, fi_), got), sample={"entry": name, "flags": got})
    ix = Index(f["body"])
    defs = local_defs(f)

    # the locals are found by their role, not their name
    def let_where(pred):
        found = [(i, d[1]) for i, d in defs.items() if d[0] == "let" and "init" in d[1] and not d[1].get("inl_param") and binding_of_pat(d[2]) and pred(i, d[1])]
        return found[0] if len(found) == 1 else (None, None)

    def is_sys_call(init, name):
        b, ms = chain(init)
        return is_local(b, P["sys"]) and [m[0] for m in ms] == [name]
    todo_id = todo_let = None
    for l in [n for n in ix.nodes if n.get("k") == "while"]:
        c = peel(l["cond"])
        if c.get("k") == "letexpr":
            b, ms = chain(c["init"])
            if [m[0] for m in ms] == ["pop"] and peel(b).get("k") == "local" and defs.get(peel(b)["id"], ("",))[0] == "let":
                todo_id, todo_let = peel(b)["id"], defs[peel(b)["id"]][1]
    ret0 = peel(stmts_of(f["body"])[-1])
    out_id = ret0["id"] if ret0.get("k") == "local" and defs.get(ret0["id"], ("",))[0] == "let" else None
    vis_id, _ = let_where(lambda i, l: ((l["pat"].get("ty") or "").endswith("DenseExprSet") or "HashSet<" in (l["pat"].get("ty") or "")) and not is_sys_call(l["init"], "input_set"))
    states_id, states_let = let_where(lambda i, l: is_sys_call(l["init"], "state_map"))
    inputs_id, inputs_let = let_where(lambda i, l: is_sys_call(l["init"], "input_set"))
    if None in (todo_id, out_id, vis_id, states_id, inputs_id):
        ctx.violation("R17.2", "impl:locals", f["span"], "UNRECOGNISED: expected a popped work list, a returned list, one visited set and locals bound to sys.state_map() / sys.input_set() in cone_of_influence_impl")
        return
    # sources of states / inputs
    b1, m1 = chain(states_let["init"])
    b2, m2 = chain(inputs_let["init"])
    ok = is_local(b1, P["sys"]) and [m[0] for m in m1] == ["state_map"] and is_local(b2, P["sys"]) and [m[0] for m in m2] == ["input_set"]
    ctx.inst("R17.3", "impl:state-and-input-sets", ok, f["span"], "states/inputs must be sys.state_map() / sys.input_set()")
    # initial todo = vec![root]
    ti = todo_let["init"]
    roots = [x for x in walk(ti) if x.get("k") == "local" and x["id"] == P["root"]]
    ctx.inst("R17.3", "impl:todo-init", len(roots) == 1 and not [x for x in walk(ti) if x.get("k") == "local" and x["id"] != P["root"]], todo_let["sp"], "the work list must start as [root]")
    # the loop
    loops = [n for n in ix.nodes if n.get("k") in ("while", "loop")]
    wl = None
    for l in loops:
        c = peel(l.get("cond", {})) if l.get("k") == "while" else {}
        if c.get("k") == "letexpr":
            b, ms = chain(c["init"])
            if is_local(b, todo_id) and [m[0] for m in ms] == ["pop"] and c["pat"].get("k") == "pvariant" and c["pat"]["path"].endswith("Option::Some"):
                wl = l
                popped = binding_of_pat(c["pat"]["subs"][0])
    if wl is None:
        ctx.violation("R17.2", "impl:loop", f["span"], "UNRECOGNISED: no `while let Some(x) = todo.pop()` loop")
        return
    pid = popped[1]
    body = wl["body"]

    def is_visited_contains(n, what_id=None, negated=None):
        n = peel(n)
        neg = False
        if n.get("k") == "unary" and n["op"] == "!":
            neg, n = True, peel(n["e"])
        if n.get("k") == "mcall" and n["name"] == "contains" and is_local(n["recv"], vis_id):
            a = peel(n["args"][0])
            if what_id is None or is_local(a, what_id):
                return (not neg) if negated is None else (neg == negated)
        # `!visited.insert(x)` is true exactly when x was already visited
        if n.get("k") == "mcall" and n["name"] == "insert" and is_local(n["recv"], vis_id) and "bool" == (n.get("ty") or ""):
            a = peel(n["args"][0])
            if what_id is None or is_local(a, what_id):
                return neg if negated is None else ((not neg) == negated)
        return False

    # skips
    conts = [n for n in walk(body) if n.get("k") in ("continue", "break", "return")]
    for i, cn in enumerate(conts):
        anc = [a for a in ix.ancestors(cn) if a.get("k") == "if" and contains(wl["body"], a)]
        ok = len(anc) == 1 and contains(anc[0]["then"], cn) and len(conjuncts(anc[0]["cond"])) == 1 and is_visited_contains(anc[0]["cond"], pid, negated=False)
        ctx.inst("R17.2", "impl:skip#%d" % (i + 1), ok, cn["sp"], "a popped node is skipped (`%s`) under a condition other than `visited.contains(&popped)`: %s" % (cn["k"], show(anc[0]["cond"]) if anc else "unconditional"))
    # all pushes onto todo inside the loop
    pushes = [n for n in walk(body) if n.get("k") == "mcall" and n["name"] in ("push", "extend", "insert", "append", "extend_from_slice") and is_local(n["recv"], todo_id)]
    kinds = {"child": 0, "init": 0, "next": 0}
    state_if = None
    for pu in pushes:
        anc_all = [a for a in ix.ancestors(pu) if contains(body, a)]
        val = peel(pu["args"][0])
        if val.get("k") == "local":
            val = dict(val, id=canon(val["id"]))
        d = defs.get(val["id"]) if val.get("k") == "local" else None
        kind = None
        if d and d[0] == "closure":
            # child push: closure passed to for_each_child on ctx[popped]
            cl = d[1]
            call = ix.parent.get(id(cl))
            okc = call is not None and call.get("k") == "mcall" and call["name"] == "for_each_child"
            if okc:
                recv = peel(call["recv"])
                recv = resolve(recv)
                okc = recv.get("k") == "index" and is_local(recv["i"], pid) and is_local(recv["e"], P["ctx"])
            ifs = [a for a in anc_all if a.get("k") == "if" and contains(cl, a)]
            conds = []
            for a in ifs:
                conds += conjuncts(a["cond"]) if contains(a["then"], pu) else [None]
            okg = all(c is not None and is_visited_contains(c, val["id"], negated=True) for c in conds)
            in_call_uncond = call is not None and ix.regions[id(call)] == ix.regions[id(wl)] + ix.regions[id(call)][len(ix.regions[id(wl)]):][:1] and len(ix.regions[id(call)]) == len(ix.regions[id(wl)]) + 1
            kinds["child"] += 1
            ctx.inst("R17.2", "impl:push-children", okc and okg and in_call_uncond, pu["sp"],
                     "children must be pushed for every popped node via ctx[popped].for_each_child, guarded at most by `!visited.contains(child)` (guards: %s)" % [show(c) if c else "else-branch" for c in conds],
                     sample=show(call)[:160] if call else None)
            continue
        alt_conds = []
        if d and d[0] == "letexpr":
            src = d[1]["init"]
            fp = field_path(src)
            if not (fp and fp[2] in (["init"], ["next"])) and peel(src).get("k") == "local":
                # `let init = if follow_init { state.init } else { None }; if let Some(c) = init`: the one alternative that can be Some, under its conditions
                alts = psanorm.value_alternatives(src)
                some_alts = [(cs, x) for cs, x in alts if not (peel(x).get("k") == "def" and (peel(x).get("path") or "").endswith("Option::None"))]
                if len(some_alts) == 1:
                    fp = field_path(some_alts[0][1])
                    alt_conds = some_alts[0][0]
            if fp and fp[2] in (["init"], ["next"]):
                kind = fp[2][0]
                st_id = fp[1]
        if kind is None:
            ctx.violation("R17.3", "impl:push-other", pu["sp"], "the work list receives `%s`, which is neither a child of the popped node nor the init/next expression of the popped state" % show(pu))
            continue
        kinds[kind] += 1
        flag = "follow_" + kind
        # guards: all `if` ancestors inside the loop body
        ifs = [a for a in anc_all if a.get("k") == "if"]
        extra = []
        have = {"flag": False, "some": False, "state": False}
        for a in ifs:
            if not contains(a["then"], pu):
                extra.append("else-branch of `if %s`" % show(a["cond"])[:80])
                continue
            for c in conjuncts(a["cond"]):
                if is_local(c, P[flag]):
                    have["flag"] = True
                elif c.get("k") == "letexpr" and c is d[1]:
                    have["some"] = c["pat"].get("k") == "pvariant" and c["pat"]["path"].endswith("Option::Some")
                elif is_visited_contains(c, val["id"], negated=True):
                    pass
                elif c.get("k") == "letexpr" and binding_of_pat(c["pat"]["subs"][0] if c["pat"].get("k") == "pvariant" and c["pat"]["subs"] else {"k": "x"}) and binding_of_pat(c["pat"]["subs"][0])[1] == st_id:
                    b, ms = chain(resolve(c["init"]))
                    have["state"] = is_local(b, states_id) and [m[0] for m in ms] == ["get"] and is_local(ms[0][1][0], pid)
                    state_if = a
                else:
                    extra.append("`%s`" % show(c)[:80])
        for c_, pol in alt_conds:
            c_ = resolve(c_)
            if pol and is_local(c_, P[flag]):
                have["flag"] = True
            else:
                extra.append("`%s%s`" % ("" if pol else "!", show(c_)[:80]))
        ok = have["flag"] and have["some"] and have["state"] and not extra
        ctx.inst("R17.2", "impl:push-%s" % kind, ok, pu["sp"],
                 "a state's %s expression must be pushed exactly under `%s` (with `let Some(c) = state.%s`, `!visited.contains(&c)`, for the popped state); extra conditions: %s; missing: %s" % (
                     kind, flag, kind, extra, [k for k, v in have.items() if not v]), sample={"push": show(pu), "guards": [show(a["cond"])[:100] for a in ifs]})
    for kind, cnt in kinds.items():
        ctx.inst("R17.2", "impl:push-%s:present" % kind, cnt == 1, f["span"], "expected exactly one %s push onto the work list, found %d" % (kind, cnt))
    # the state test is made for every popped node (unconditional in the loop body)
    if state_if is not None:
        ok = len(ix.regions[id(state_if)]) == len(ix.regions[id(wl)]) + 1
        ctx.inst("R17.2", "impl:state-test-unconditional", ok, state_if["sp"], "the init/next test is not made for every popped node")
    # marks
    marks = [n for n in ix.nodes if n.get("k") == "mcall" and n["name"] in ("insert", "extend") and is_local(n["recv"], vis_id)]
    okm = len(marks) == 1 and is_local(marks[0]["args"][0], pid) and contains(body, marks[0]) and len(ix.regions[id(marks[0])]) == len(ix.regions[id(wl)]) + 1
    ctx.inst("R17.3", "impl:mark-visited", okm, marks[0]["sp"] if marks else f["span"],
             "exactly the popped node must be marked visited, unconditionally, once per iteration (found: %s): marking a node that is not traversed loses every symbol below it" % [show(m) for m in marks])
    # output
    outs = [n for n in ix.nodes if n.get("k") == "mcall" and n["name"] in ("push", "extend", "insert") and is_local(n["recv"], out_id)]
    oko = len(outs) == 1 and is_local(outs[0]["args"][0], pid)
    formula_ok = False
    shown = ""
    if oko:
        ifs = [a for a in ix.ancestors(outs[0]) if a.get("k") == "if" and contains(body, a)]
        oko = len(ifs) == 1 and contains(ifs[0]["then"], outs[0])
        if oko:
            shown = show(ifs[0]["cond"])
            try:
                fm = out_formula(ifs[0]["cond"], defs, P, pid, states_id, inputs_id)
                formula_ok = True
                for sym, st, inp in itertools.product([False, True], repeat=3):
                    v = ev(fm, {"sym": sym, "state": st, "input": inp})
                    if sym and v != (st or inp):
                        formula_ok = False
                    if not sym and v and not (st or inp):
                        formula_ok = False
            except ValueError as e:
                shown += " (UNRECOGNISED atom %s)" % e
    ctx.inst("R17.3", "impl:output-predicate", oko and formula_ok, outs[0]["sp"] if outs else f["span"],
             "the output must receive the popped node exactly when it is a symbol that is a state or input: `%s`" % shown, sample=shown)
    ret = peel(stmts_of(f["body"])[-1])
    ctx.inst("R17.3", "impl:returns-out", is_local(ret, out_id), f["span"], "the function must return the collected list")
    lookups(ctx)


def lookups(ctx):
    """R17.4: the two look-up structures the traversal trusts hold every state / every input of the system"""
    from .. import iterdesc
    ctx.rule("R17.4", "TransitionSystem::state_map maps the symbol of every state (none filtered out) to that state; input_set holds every input")
    TS = "patronus::system::transition_system::TransitionSystem::"
    for name, want in (("state_map", ("tuple", ("field", ("elem", "self.states"), "symbol"), ("elem", "self.states"))), ("input_set", ("elem", "self.inputs"))):
        g = ctx.fn("patronus", TS + name)
        gix = Index(g["body"])
        D = iterdesc.Desc(gix, local_defs(g))
        val = psanorm.tail_value(stmts_of(g["body"])[-1]) if stmts_of(g["body"]) else {}
        val = psanorm.value_source(gix, local_defs(g), val)
        src = None
        if val.get("k") == "call" and (callee(val) or "").endswith("from_iter") and len(val["args"]) == 1:
            src = val["args"][0]
        elif val.get("k") == "mcall" and val["name"] == "collect":
            src = val["recv"]
        if src is None:
            # built by a loop: `let mut m = ..; for s in self.states.iter() { m.insert(s.symbol, s); }`
            ins = [x for x in gix.nodes if x.get("k") == "mcall" and x["name"] == "insert" and is_local(x["recv"], local_id(val) if val.get("k") == "local" else -1)]
            lp = gix.enclosing(ins[0], ("for",)) if len(ins) == 1 else None
            ok = False
            got = None
            if lp is not None and len(gix.regions[id(ins[0])]) == len(gix.regions[id(lp)]) + 1 and not any(x.get("k") in ("continue", "break", "return") for x in walk(lp["body"])):
                alts, filtered = D.source(lp["iter"])
                env = {}
                if len(alts) == 1:
                    D.bind(lp["pat"], alts[0], env)
                    got = ("tuple",) + tuple(D.of(a_, env) for a_ in ins[0]["args"]) if len(ins[0]["args"]) == 2 else D.of(ins[0]["args"][0], env)
                    ok = not filtered and got == want
            ctx.inst("R17.4", "lookup:%s" % name, ok, g["span"], "%s must hold every element of the system's list (found %s): the traversal takes a state that is missing here for a non-state and never follows or reports it" % (name, got))
            continue
        alts, filtered = D.source(src)
        ok = len(alts) == 1 and alts[0] == want and not filtered
        ctx.inst("R17.4", "lookup:%s" % name, ok, g["span"],
                 "%s must hold every element of the system's list, unfiltered (found %s%s): the traversal takes a state that is missing here for a non-state and never follows or reports it" % (name, alts, ", filtered" if filtered else ""),
                 sample={"elements": str(alts), "filtered": filtered})


def out_formula(c, defs, P, pid, states_id, inputs_id):
    c = resolve(c)
    if c.get("k") == "binary" and c["op"] in ("&&", "||"):
        return ("and" if c["op"] == "&&" else "or", out_formula(c["l"], defs, P, pid, states_id, inputs_id), out_formula(c["r"], defs, P, pid, states_id, inputs_id))
    if c.get("k") == "unary" and c["op"] == "!":
        return ("not", out_formula(c["e"], defs, P, pid, states_id, inputs_id))
    if c.get("k") == "mcall":
        if c["name"] == "is_symbol":
            r = peel(c["recv"])
            if r.get("k") == "local":
                ri = simple_let_init(defs, r["id"])
                r = peel(ri) if ri is not None else r
            if r.get("k") == "index" and is_local(r["i"], pid):
                return ("atom", "sym")
        if c["name"] in ("contains_key", "contains") and is_local(c["args"][0], pid):
            if is_local(c["recv"], states_id):
                return ("atom", "state")
            if is_local(c["recv"], inputs_id):
                return ("atom", "input")
        if c["name"] == "is_some":
            b, ms = chain(resolve(c["recv"]))
            if is_local(b, states_id) and [m[0] for m in ms] == ["get"] and is_local(ms[0][1][0], pid):
                return ("atom", "state")
    raise ValueError(show(c))


def ev(f, v):
    if f[0] == "atom":
        return v[f[1]]
    if f[0] == "not":
        return not ev(f[1], v)
    if f[0] == "and":
        return ev(f[1], v) and ev(f[2], v)
    return ev(f[1], v) or ev(f[2], v)
