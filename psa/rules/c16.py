"""C16 - btor2 witness text: printer line shapes vs. reader recognisers, index/value pairing, frame accumulation."""
import re
from ..tree import *  # noqa
from ..flow import Index
from .. import fmtstr, linewriter
from .. import norm as norm_
from .c02 import binding_of_pat

W = "patronus::btor2::witness::"

EXPLANATION = ("Static line-shape agreement analysis of btor2::witness (rustc HIR facts + recovered format strings): the printer's formats (header `sat`, property tokens `b<n>`, frame markers `#0` / `@<k>` with k the frame's "
               "position, terminator `.`, bit-vector lines `<id> <bits> <name><suffix>`, array lines `<id> [<index bits>] <data bits> <name><suffix>`) are compared with the reader's recognisers (token count 3/4, id at 0, "
               "value or bracketed index at 1, data at 2, name last with the suffix cut at @ / #, binary radix on both sides); each printed array entry pairs an index with the value selected at that same index; on the "
               "reader side array entries of one state are merged index by index, every finished input frame is pushed and the scratch vector emptied before the next frame or witness begins. "
               "Every placeholder and operand is classified by where its value comes from (parameter, iteration variable, conversion call), not by the spelling of the source.")
ASSUMPTIONS = ["baa to_bit_str / from_bit_str are inverse", "names containing @, # or blanks are not decided", "ordering of array entries is not decided (the reader sorts)"]
LEVEL_TEXT = ("Static sibling agreement between the two halves of one text format: field count, field order, bracket characters, markers and radix are decided for every line kind, and the reader's frame bookkeeping is checked for "
              "all stream shapes (any number of witnesses, frames, inputs) rather than the single shape the tests use. Value text is delegated to baa."
              " Reader state that lives across lines and steers what is stored is reset inside the line loop (per-witness state).")
LEVEL_NOTE = "Agreement of shapes, not a proof of round-trip equality of values; baa's bit-string conversion is trusted."
TECHNIQUE = "format-string recovery vs. recogniser extraction (token indices, prefix tests); def-use pairing rule; must-call-before-state-change rule"


def run(ctx):
    ctx.rule("R16.1", "printer formats and reader recognisers agree on field count, order, brackets, markers, suffix handling and radix for every line kind")
    ctx.rule("R16.2", "each printed array entry pairs index i with select(i); the reader merges array entries index by index; every finished input frame is pushed and the scratch vector emptied before the next frame/witness")
    c = ctx.facts.lib("patronus")
    printer(ctx, c)
    reader(ctx, c)
    per_witness_state(ctx, c)


def per_witness_state(ctx, c):
    """R16.3: "several witnesses written one after another are read back one by one": whatever the reader keeps between lines and lets influence
    what it stores must be given back / emptied / set to its initial value somewhere in the line loop - state that is only ever advanced leaks
    from one witness of the stream into the next"""
    ctx.rule("R16.3", "every mutable local of parse_witnesses that lives across lines and influences the stored witness (used in a condition or handed to the helpers) is reset inside the line loop (taken, cleared or assigned its initial value); the state-machine variable and the returned list excepted")
    f = ctx.fn("patronus", "patronus::btor2::witness::parse_witnesses")
    ix = Index(f["body"])
    defs = local_defs(f)
    loops = [n for n in ix.nodes if n.get("k") in ("for", "while", "loop") and not ix.enclosing(n, ("for", "while", "loop", "closure"))]
    if len(loops) != 1:
        ctx.violation("R16.3", "parse_witnesses:line-loop", f["span"], "UNRECOGNISED: expected one top-level loop over the lines, found %d" % len(loops))
        return
    loop = loops[0]
    ret = peel(norm_.result_value(f["body"]))
    ret_id = ret["id"] if ret.get("k") == "local" else None
    # closures bound to locals before the loop: name -> closure node
    closures = {i_: peel(d[1]["init"]) for i_, d in defs.items() if d[0] == "let" and "init" in d[1] and d[2].get("k") == "pbind" and peel(d[1]["init"]).get("k") == "closure"}
    region = [loop] + list(closures.values())

    def aliases_of(lid):
        """lid and the closure parameters it is passed to by `&mut lid` at calls from the loop"""
        out = {lid}
        for n in walk(loop):
            if n.get("k") == "callv" and peel(n["f"]).get("k") == "local" and peel(n["f"])["id"] in closures:
                cl = closures[peel(n["f"])["id"]]
                for a_, p_ in zip(n["args"], cl.get("params", [])):
                    if peel(a_).get("k") == "local" and peel(a_)["id"] == lid:
                        out |= {i_ for _, i_ in pat_bindings(p_)}
        return out
    n_state = 0
    for lid, d in sorted(defs.items()):
        if not (d[0] == "let" and d[2].get("k") == "pbind" and d[2].get("mut") and "init" in d[1]) or contains(loop, d[1]) or any(contains(cl, d[1]) for cl in closures.values()):
            continue
        if not ix.precedes(d[1], loop) or lid == ret_id:
            continue
        # the state-machine variable: `state = match state { .. }`
        if any(n.get("k") == "assign" and is_local(n["l"], lid) and peel(n["r"]).get("k") == "match" and is_local(peel(n["r"])["scrut"], lid) for n in walk(loop)):
            continue
        names = aliases_of(lid)
        def is_l(x):
            x = peel(x)
            while x.get("k") == "unary" and x.get("op") == "*":
                x = peel(x["e"])
            return x.get("k") == "local" and (x["id"] in names or canon(x["id"]) == canon(lid))
        written = any((n.get("k") in ("assign", "assignop") and is_l(root_of(n["l"]))) or (n.get("k") == "mcall" and n["name"] in MUTATORS and is_l(root_of(n["recv"])))
                      or (n.get("k") == "ref" and n.get("mut") and is_l(n["e"])) for r_ in region for n in walk(r_))
        if not written:
            continue
        influences = any((n.get("k") == "if" and any(is_l(x) for x in walk(n["cond"]))) or (n.get("k") == "match" and any(is_l(x) for x in walk(n["scrut"])))
                         or (n.get("k") in ("callv", "call", "mcall") and not mac_names(n) and any(is_l(a_) for a_ in call_args(n)))
                         for r_ in region for n in walk(r_))
        if not influences:
            continue
        n_state += 1
        init_txt = show(peel(d[1]["init"])).replace(" ", "")
        resets = []
        for r_ in region:
            for n in walk(r_):
                if n.get("k") == "call" and (callee(n) or "").endswith(("mem::take", "mem::replace", "mem::swap")) and n["args"] and is_l(n["args"][0]):
                    resets.append(n)
                if n.get("k") == "mcall" and n["name"] in ("clear", "take", "drain") and is_l(n["recv"]) and (n["name"] != "drain" or True):
                    resets.append(n)
                if n.get("k") == "assign" and is_l(n["l"]) and show(peel(n["r"])).replace(" ", "") == init_txt:
                    resets.append(n)
        ctx.inst("R16.3", "parse_witnesses:%s:reset" % d[2]["name"], bool(resets), d[1]["sp"],
                 "`%s` is kept across lines, steers what is stored in the witness, is changed while reading but never taken, cleared or set back to its initial value `%s` inside the line loop: what the first witness of a stream leaves in it is still there when the next one is read" % (
                     d[2]["name"], show(peel(d[1]["init"]))[:40]), sample={"local": d[2]["name"], "resets": len(resets)})
    ctx.floor("R16.3", "reader state locals of parse_witnesses", n_state, 2)


def root_of(e):
    e = peel(e)
    while e.get("k") in ("index", "field") or (e.get("k") == "unary" and e.get("op") == "*"):
        e = peel(e["e"])
    return e


def sites_of(c, f, names=("write", "writeln")):
    out = []
    for s_ in fmtstr.macro_sites(c, f["body"], names):
        pc = fmtstr.parse_call(s_["snippet"])
        if pc and pc[2] is not None:
            out.append((s_, fmtstr.shape(pc[2]) + ("\n" if pc[0] == "writeln" else "")))
        elif pc and pc[0] == "writeln":
            out.append((s_, "\n"))
    return out


def enum_index_of(ix, node, field):
    """the index binding of the innermost `for (k, ..) in <witness>.<field>.iter().enumerate()` around node (None if node is not in such a loop)"""
    it = norm_.iter_context(ix, node)
    while it is not None:
        if it["kind"] == "for":
            b, ms = chain(it["src"])
            fp = field_path(b)
            pat = it["pat"]
            while pat.get("k") in ("pref", "pderef"):
                pat = pat["pat"]
            if fp and fp[2] == [field] and [m[0] for m in ms] == ["iter", "enumerate"] and pat.get("k") == "ptuple" and len(pat["subs"]) == 2:
                kb = binding_of_pat(pat["subs"][0])
                return kb[1] if kb else None
        it = norm_.iter_context(ix, it["node"])
    return None


def printer(ctx, c):
    f = ctx.fn("patronus", W + "print_witness")
    ix = Index(f["body"])
    defs = local_defs(f)
    rows = sites_of(c, f)
    shapes = [sh for _, sh in rows]
    ctx.inst("R16.1", "printer:header", bool(shapes) and shapes[0] == "sat\n", f["span"], "a witness must start with the line `sat`: %s" % shapes[:3], sample=shapes)
    # property tokens: b<element of failed_safety>
    okb = False
    for s_, sh in rows:
        sep_ok = False
        if sh in ("b{}{}", "b{}{}\n"):
            # `write!(out, "b{bad_id}{terminator}")` with a terminator that is a blank / line end chosen by the position: a separator, not a field
            an2 = fmtstr.arg_nodes(s_)
            if len(an2) == 2 and an2[1] is not None:
                alts = norm_.value_alternatives(an2[1])
                lits_ = [peel(v_).get("v") for _, v_ in alts if peel(v_).get("k") == "lit"]
                # all properties on one line: a blank between two of them, the line end after the last one
                sep_ok = len(lits_) == len(alts) and sorted(set(lits_)) == ["\n", " "]
        if sh == "b{}" or sep_ok:
            an = fmtstr.arg_nodes(s_)
            it = norm_.iter_context(ix, s_["node"])
            if an and an[0] is not None and it is not None and it["kind"] == "for":
                b, ms = chain(it["src"])
                fp = field_path(b)
                binds = [i for _, i in pat_bindings(it["pat"])]
                enumerated = "enumerate" in [m[0] for m in ms]
                elem_ok = (it["pat"].get("k") == "ptuple" and len(it["pat"].get("subs", [])) == 2 and local_id(an[0]) == (binding_of_pat(it["pat"]["subs"][1]) or (None, None))[1]) if enumerated \
                    else len(binds) == 1            # with `enumerate` the element is the second component, whatever else is bound
                okb = bool(fp) and fp[2] == ["failed_safety"] and local_id(an[0]) in binds and [m[0] for m in ms][:1] == ["iter"] and elem_ok
    ctx.inst("R16.1", "printer:property-token", okb, f["span"], "failed properties must be printed as b<index> for every element of failed_safety: %s" % shapes)
    ctx.inst("R16.1", "printer:state-frame-marker", "#0\n" in shapes, f["span"], "the initial state frame must be introduced by `#0`")
    # @k: k is the enumerate index over witness.inputs
    okk = False
    kid = None
    for s_, sh in rows:
        if sh == "@{}\n":
            an = fmtstr.arg_nodes(s_)
            kid = enum_index_of(ix, s_["node"], "inputs")
            okk = bool(an) and an[0] is not None and kid is not None and is_local(an[0], kid)
    ctx.inst("R16.1", "printer:input-frame-marker", "@{}\n" in shapes, f["span"], "input frames must be introduced by `@<k>`")
    ctx.inst("R16.1", "printer:frame-number-is-position", okk, f["span"], "the number after @ must be the frame's position in witness.inputs (the reader asserts it equals the number of frames read so far)")
    ctx.inst("R16.1", "printer:terminator", bool(shapes) and shapes[-1] == ".\n", f["span"], "a witness must end with the line `.`: %s" % shapes[-2:])
    ctx.floor("R16.1", "write sites in print_witness", len(rows), 5)
    # suffixes passed to the value printers
    calls = [n for n in ix.nodes if n.get("k") == "call" and (callee(n) or "").startswith(W + "print_witness_")]
    sufs = {}
    for n in calls:
        a = resolve(n["args"][4])
        txt = None
        if a.get("k") == "lit":
            txt = ("lit", a.get("v"))
        else:
            fs = fmtstr.macro_sites(c, a, ("format",))
            if fs:
                pc = fmtstr.parse_call(fs[0]["snippet"])
                an = fmtstr.arg_nodes(fs[0])
                k2 = enum_index_of(ix, n, "inputs")
                txt = ("fmt", fmtstr.shape(pc[2]) if pc and pc[2] is not None else None, bool(an) and an[0] is not None and k2 is not None and is_local(an[0], k2))
        sufs[callee(n).split("::")[-1]] = txt
    ctx.inst("R16.1", "printer:suffixes", sufs.get("print_witness_init_value") == ("lit", "#0") and sufs.get("print_witness_input_value") == ("fmt", "@{}", True), f["span"],
             "name suffixes must be #0 for initial values and @<k> for inputs (the reader cuts the name at @ / #): %s" % sufs, sample=str(sufs))
    # value printers
    for fn_, kinds in (("print_witness_input_value", {"bv": 1}), ("print_witness_init_value", {"bv": 1, "arr": 1})):
        g = ctx.fn("patronus", W + fn_)
        gx = Index(g["body"])
        gdefs = local_defs(g)
        gp = param_ids(g) + [None] * 5          # (out, value, name, id, suffix)
        p_value, p_name, p_id, p_suffix = gp[1], gp[2], gp[3], gp[4]

        def role(node, gx=gx, gdefs=gdefs, p_name=p_name, p_id=p_id, p_suffix=p_suffix):
            n_ = resolve(node)
            if is_local(n_, p_id):
                return "id"
            if is_local(n_, p_name):
                return "name"
            if is_local(n_, p_suffix):
                return "suffix"
            b_, ms_ = chain(n_)
            if [m_[0] for m_ in ms_] and ms_[-1][0] in ("to_bit_str", "to_hex_str", "to_dec_str"):
                radix = {"to_bit_str": "bits", "to_hex_str": "hex", "to_dec_str": "dec"}[ms_[-1][0]]
                inner = resolve(ms_[-1][2]["recv"])
                if inner.get("k") == "mcall" and inner["name"] == "select" and len(inner["args"]) == 1:
                    it = norm_.iter_context(gx, node)
                    eb = pat_bindings(it["pat"]) if it and it.get("pat") else []
                    same = len(eb) == 1 and is_local(inner["args"][0], eb[0][1])
                    return "%s(select(%s))" % (radix, "entry-index" if same else "?" + show(inner["args"][0])[:20])
                if inner.get("k") == "local":
                    it = norm_.iter_context(gx, node)
                    eb = pat_bindings(it["pat"]) if it and it.get("pat") else []
                    if len(eb) == 1 and is_local(inner, eb[0][1]):
                        return "%s(entry-index)" % radix
                    d = gdefs.get(inner["id"]) or gdefs.get(canon(inner["id"]))
                    if d and d[0] == "arm" and is_local(d[1]["scrut"], p_value):
                        return "%s(value)" % radix
                return "%s(?%s)" % (radix, show(inner)[:20])
            return "?" + show(n_)[:30]
        rows = []
        for s_ in fmtstr.macro_sites(c, g["body"], ("write", "writeln")):
            tk = linewriter.site_tokens(s_, role)
            if tk is not None:
                rows.append((s_, " ".join(linewriter.flat(tk))))
        shapes = sorted(sh for _, sh in rows)
        want = ["id bits(value) name+suffix"]
        if "arr" in kinds:
            want = sorted(want + ["id '['+bits(entry-index)+']' bits(select(entry-index)) name+suffix"])
        ctx.inst("R16.1", "printer:%s:line-shapes" % fn_, shapes == want, g["span"], "%s writes %s, the reader expects %s" % (fn_, shapes, want), sample=shapes)
        if "arr" in kinds:
            okp = False
            why = "no array line found"
            for s_, sh in rows:
                if "select(" in sh:
                    it = norm_.iter_context(gx, s_["node"])
                    why = "array line `%s`" % sh
                    if it is None or it["kind"] not in ("for", "closure"):
                        why += " is not written per index"
                        continue
                    b2, ms2 = chain(it["src"])
                    names2 = [m[0] for m in ms2]
                    # the entries iterated are the recorded indices (or a sorted copy), one line per index
                    src = norm_.value_source(gx, gdefs, b2)
                    sb, sms = chain(src)
                    from_indices = False
                    for cand in (b2, sb):
                        cand = peel(cand)
                        if cand.get("k") == "local":
                            d = gdefs.get(cand["id"]) or gdefs.get(canon(cand["id"]))
                            if d and d[0] == "arm" and is_local(d[1]["scrut"], p_value):
                                from_indices = True
                    okp = "select(entry-index)" in sh and "bits(entry-index)" in sh and names2 == ["iter"] and from_indices and all(m[0] in ("clone", "to_vec") for m in sms)
                    why += " over `%s`" % show(it["src"])[:60]
            ctx.inst("R16.2", "printer:array-entry-pairs-index-with-its-value", okp, g["span"], "every printed array entry must pair an index with the array's value at that same index: %s" % why, sample=why)


def assert_eq_pairs(ix):
    """[(left, right, node)] operands of assert_eq!/debug_assert_eq! sites (the expansion matches on the tuple (&left, &right))"""
    out = []
    for n in ix.nodes:
        if n.get("k") == "match" and peel(n["scrut"]).get("k") == "tuple" and len(peel(n["scrut"])["es"]) == 2 and any(m in ("assert_eq", "debug_assert_eq") for m in mac_names(n)):
            a, b = peel(n["scrut"])["es"]
            out.append((peel(a), peel(b), n))
    return out


def reader(ctx, c):
    f = ctx.fn("patronus", W + "parse_witnesses")
    ix = Index(f["body"])
    defs = local_defs(f)
    asserts = assert_eq_pairs(ix)

    def lit_assert(v):
        return any((a.get("k") == "local" and b.get("k") == "lit" and b.get("v") == v) or (b.get("k") == "local" and a.get("k") == "lit" and a.get("v") == v) for a, b, _ in asserts)
    ctx.inst("R16.1", "reader:header", lit_assert("sat"), f["span"], "the reader must expect the header line `sat`")
    # property tokens: strip the prefix `b`, parse the rest, push it to failed_safety
    okp = False
    for n in ix.nodes:
        if n.get("k") == "mcall" and n["name"] == "push" and field_path(n["recv"]) and field_path(n["recv"])[2] == ["failed_safety"]:
            v = norm_.value_source(ix, defs, n["args"][0])
            b_, ms_ = chain(v)
            if [m_[0] for m_ in ms_] == ["parse", "unwrap"] and peel(b_).get("k") == "local":
                d = defs.get(peel(b_)["id"]) or defs.get(canon(peel(b_)["id"]))
                src = None
                if d and d[0] in ("letexpr", "let"):
                    src = d[1].get("init")
                elif d and d[0] == "arm":
                    src = d[1]["scrut"]
                if src is not None:
                    sb, sms = chain(src)
                    okp = [m_[0] for m_ in sms] == ["strip_prefix"] and peel(sms[0][1][0]).get("v") == "b"
    ctx.inst("R16.1", "reader:property-token", okp, f["span"], "property tokens must be recognised by stripping the prefix `b` and parsing the number")
    ctx.inst("R16.1", "reader:state-frame-marker", lit_assert("#0"), f["span"], "the reader must expect `#0` as the initial state frame marker")
    has_at = any(n.get("k") == "mcall" and n["name"] == "starts_with" and peel(n["args"][0]).get("v") == "@" for n in ix.nodes)
    ctx.inst("R16.1", "reader:input-frame-marker", has_at, f["span"], "input frames must be recognised by a leading @")
    has_dot = any(n.get("k") == "binary" and n["op"] == "==" and (peel(n["r"]).get("v") == "." or peel(n["l"]).get("v") == ".") for n in ix.nodes)
    ctx.inst("R16.1", "reader:terminator", has_dot, f["span"], "the witness terminator must be the line `.`")
    # frame number: ParsingInputsAt(at) with at = line[1..].parse().unwrap(), asserted equal to the number of frames read

    def after_marker(e):
        e = norm_.value_source(ix, defs, e)
        b_, ms_ = chain(e)
        if [m_[0] for m_ in ms_] != ["parse", "unwrap"]:
            return False
        sl = peel(b_)
        rng = peel(sl["i"]) if sl.get("k") == "index" else {}
        start = {f_["name"]: f_["e"] for f_ in rng.get("fields", [])}.get("start") if rng.get("k") == "struct" and rng["path"].endswith("RangeFrom") else None
        return start is not None and peel(start).get("v") == 1
    starts = [n for n in ix.nodes if n.get("k") == "ctor" and callee(n).endswith("ParserState::ParsingInputsAt") and n.get("args") and after_marker(n["args"][0])]
    okf = bool(starts)
    for st in starts:
        at = peel(st["args"][0])
        checked = False
        for a, b, node in asserts:
            for x, y in ((a, b), (b, a)):
                xx = x
                while xx.get("k") == "cast":
                    xx = peel(xx["e"])
                yb, yms = chain(y)
                if at.get("k") == "local" and is_local(xx, at["id"]) and [m_[0] for m_ in yms] == ["len"] and field_path(yb) and field_path(yb)[2] == ["inputs"] and ix.precedes(node, st):
                    checked = True
        okf = okf and checked
    ctx.inst("R16.1", "reader:frame-number", okf, f["span"], "the number after @ must be parsed from the text after the marker and checked against the number of frames read")
    # finishing an input frame: wit.inputs.push(<the scratch vector, left empty>)
    pushes = [n for n in ix.nodes if n.get("k") == "mcall" and n["name"] == "push" and field_path(n["recv"]) and field_path(n["recv"])[2] == ["inputs"]]
    okpush = bool(pushes)
    why = "no push onto wit.inputs found"
    scratch = None
    for pu in pushes:
        a = peel(pu["args"][0])
        why = show(pu)[:140]
        if a.get("k") == "call" and (callee(a) or "").endswith("mem::take") and peel(a["args"][0]).get("k") == "local":
            scratch = canon(peel(a["args"][0])["id"])
            continue
        b_, ms_ = chain(a)
        if [m_[0] for m_ in ms_] == ["clone"] and peel(b_).get("k") == "local":
            sid = peel(b_)["id"]
            scratch = canon(sid)
            # ... followed by scratch.clear() in the same block
            blk = ix.parent.get(id(pu))
            while blk is not None and blk.get("k") != "block":
                blk = ix.parent.get(id(blk))
            cleared = blk is not None and any(x.get("k") == "mcall" and x["name"] == "clear" and is_local(x["recv"], sid) and ix.precedes(pu, x) for s_ in blk["stmts"] for x in walk(s_))
            if cleared:
                continue
        if [m_[0] for m_ in ms_][:1] == ["drain"] and "collect" in [m_[0] for m_ in ms_]:
            continue
        okpush = False
    ctx.inst("R16.2", "reader:finished-frame-pushed-and-scratch-emptied", okpush, f["span"],
             "finishing an input frame must push the collected values and leave the scratch vector EMPTY (mem::take / clone+clear): %s - otherwise entries of a longer earlier frame or witness leak into later ones" % why, sample=why)
    # every way out of an input frame (., @, #) pushes the frame first; continuing the frame does not
    arms = []
    for n in ix.nodes:
        if n.get("k") == "match":
            for a in n["arms"]:
                if any(x.get("k") == "pvariant" and x["path"].endswith("ParserState::ParsingInputsAt") for x in walk(a["pat"])) and not any(x.get("k") == "pvariant" and x["path"].endswith("ParserState::ParsingStatesAt") for x in walk(a["pat"])):
                    arms.append(a)
    ctx.inst("R16.2", "reader:inputs-arm", bool(arms), f["span"], "UNRECOGNISED: no ParsingInputsAt arm")
    bi = 0
    for arm in arms:
        at_ids = {i for _, i in pat_bindings(arm["pat"])}
        for lf in result_leaves(arm["body"]):
            bi += 1
            lfv = peel(lf)
            continuing = lfv.get("k") == "ctor" and callee(lfv).endswith("ParserState::ParsingInputsAt") and lfv.get("args") and peel(lfv["args"][0]).get("k") == "local" and peel(lfv["args"][0])["id"] in at_ids
            before = [pu for pu in pushes if contains(arm["body"], pu) and ix.dominates(pu, lf)]
            okb = (len(before) == 0) if continuing else (len(before) == 1)
            conds = [("" if pol else "!") + show(c_)[:30] for c_, pol in norm_.path_conditions(ix, lf, upto=None) if contains(arm["body"], c_)]
            ctx.inst("R16.2", "reader:inputs-exit#%d" % bi, okb, lf.get("sp"), "leaving an input frame (%s -> %s) must first push the frame exactly once; the continuing branch must not (pushes before: %d)" % (conds, show(lfv)[:40], len(before)))
    # initial values: merged through update_value at the parsed id, names stored at the same id, only in frame 0

    def index_assigns(field_or_local):
        out = []
        for a in ix.nodes:
            if a.get("k") == "assign" and peel(a["l"]).get("k") == "index":
                base = peel(a["l"])["e"]
                fp = field_path(base)
                if isinstance(field_or_local, str) and fp and fp[2] == [field_or_local]:
                    out.append(a)
                elif not isinstance(field_or_local, str) and field_or_local is not None and is_local(base, field_or_local):
                    out.append(a)
        return out
    ok_init = False
    for a in index_assigns("init"):
        r = peel(a["r"])
        idx = peel(a["l"])["i"]
        if r.get("k") == "call" and callee(r) == W + "update_value" and len(r["args"]) == 2:
            old = norm_.value_source(ix, defs, r["args"][0])
            ob, oms = chain(old)
            if peel(ob).get("k") == "call" and (callee(peel(ob)) or "").endswith(("mem::take", "mem::replace")) and peel(ob).get("args"):
                ob = peel(peel(ob)["args"][0])          # `let old = std::mem::take(&mut wit.init[ii]);` - the old value moved out instead of cloned
            old_ok = [m_[0] for m_ in oms] in (["clone"], []) and peel(ob).get("k") == "index" and field_path(peel(ob)["e"]) and field_path(peel(ob)["e"])[2] == ["init"] and local_id(peel(ob)["i"]) is not None and local_id(peel(ob)["i"]) == local_id(idx)
            conds = norm_.path_conditions(ix, a)
            frame0 = any(pol and c_.get("k") == "binary" and c_["op"] == "==" and (peel(c_["r"]).get("v") == 0 or peel(c_["l"]).get("v") == 0) for c_, pol in conds)
            names = [b for b in index_assigns("init_names") if local_id(peel(b["l"])["i"]) == local_id(idx) and ix.regions[id(b)] == ix.regions[id(a)]]
            ok_init = old_ok and frame0 and len(names) == 1 and peel(names[0]["r"]).get("k") == "ctor"
    ctx.inst("R16.2", "reader:init-merge", ok_init, f["span"], "initial values must be merged per state id with update_value and named at the same id (only frame #0)")
    ok_in = False
    if scratch is not None:
        for a in index_assigns(scratch):
            rb, rms = chain(a["r"])
            idx = peel(a["l"])["i"]
            names = [b for b in index_assigns("input_names") if local_id(peel(b["l"])["i"]) == local_id(idx)]
            ok_in = [m_[0] for m_ in rms] == ["try_into", "ok"] and peel(rb).get("k") == "local" and len(names) == 1 and peel(names[0]["r"]).get("k") == "ctor"
    ctx.inst("R16.2", "reader:input-store", ok_in, f["span"], "input values and names must be stored at the parsed input id")
    assignment(ctx)
    merge(ctx)


def result_leaves(e):
    """the expressions an arm body can evaluate to (through blocks, if/else chains and nested matches)"""
    e = norm_.tail_value(e)
    k = e.get("k")
    if k == "blockexpr":
        if "tail" in e["b"]:
            return result_leaves(e["b"]["tail"])
        return []
    if k == "if" and "else" in e:
        return result_leaves(e["then"]) + result_leaves(e["else"])
    if k == "match":
        out = []
        for a in e["arms"]:
            out += result_leaves(a["body"])
        return out
    if e.get("ty") == "!" or k in ("break", "continue", "return"):
        return []
    return [e]


def assignment(ctx):
    g = ctx.fn("patronus", W + "parse_assignment")
    gx = Index(g["body"])
    gdefs = local_defs(g)
    p_tokens = (param_ids(g) + [None])[0]

    def tok_k(e):
        """K for tokens[K]; 'last' for tokens.last().unwrap() / tokens[tokens.len() - 1]"""
        e = norm_.value_source(gx, gdefs, e)
        b_, ms_ = chain(e)
        if [m_[0] for m_ in ms_] in (["last", "unwrap"], ["last", "expect"]) and is_local(b_, p_tokens):
            return "last"
        e = peel(e)
        if e.get("k") == "local":
            # bound by a fixed-length slice pattern on the tokens: `[_, index_str, data_str, _]`
            d = gdefs.get(e["id"]) or gdefs.get(canon(e["id"]))
            if d and d[0] in ("arm", "letexpr", "let"):
                scr = d[1]["scrut"] if d[0] == "arm" else d[1].get("init", {})
                pats = [a_["pat"] for a_ in d[1]["arms"]] if d[0] == "arm" else [d[1]["pat"]]
                if is_local(scr, p_tokens):
                    for pat in pats:
                        while pat.get("k") in ("pref", "pderef"):
                            pat = pat["pat"]
                        if pat.get("k") == "pslice" and "mid" not in pat and not pat.get("after"):
                            for pos_, sp_ in enumerate(pat["before"]):
                                if any(i_ == e["id"] or canon(i_) == canon(e["id"]) for _, i_ in pat_bindings(sp_)):
                                    return pos_
        if e.get("k") == "index" and is_local(e["e"], p_tokens):
            i = resolve(e["i"])
            if i.get("k") == "lit":
                return i["v"]
            if i.get("k") == "binary" and i["op"] == "-" and peel(i["r"]).get("v") == 1:
                lb, lms = chain(resolve(i["l"]))
                if [m_[0] for m_ in lms] == ["len"] and is_local(lb, p_tokens):
                    return "last"
        return None

    # token count: exactly 3 (bit vector) or 4 (array entry); anything else is rejected

    def is_len(e):
        b_, ms_ = chain(resolve(e))
        return [m_[0] for m_ in ms_] == ["len"] and is_local(b_, p_tokens)

    def len_set_test(c):
        """the set of lengths for which the condition holds, for the recognised forms; None otherwise"""
        c = resolve(c)
        if c.get("k") == "match" and is_len(c["scrut"]) and len(c["arms"]) == 2:
            a0, a1 = c["arms"]
            alts = pat_alts(a0["pat"])
            if all(x.get("k") == "plit" for x in alts) and peel(a0["body"]).get("v") is True and a1["pat"].get("k") == "pwild" and peel(a1["body"]).get("v") is False:
                return {x["v"] for x in alts}
        if c.get("k") == "mcall" and c["name"] == "contains" and len(c["args"]) == 1 and is_len(c["args"][0]):
            rng = resolve(c["recv"])
            if rng.get("k") == "call" and (callee(rng) or "").endswith("RangeInclusive::new") and all(peel(x).get("k") == "lit" for x in rng["args"]):
                lo, hi = [peel(x)["v"] for x in rng["args"]]
                return set(range(lo, hi + 1))
        if c.get("k") == "binary" and c["op"] == "==" and ((is_len(c["l"]) and peel(c["r"]).get("k") == "lit") or (is_len(c["r"]) and peel(c["l"]).get("k") == "lit")):
            return {peel(c["r"]).get("v") if is_len(c["l"]) else peel(c["l"]).get("v")}
        return None
    rejects = False
    # (a) `match tokens.len() { 3 => .., 4 => .., _ => panic }`
    for n in gx.nodes:
        if n.get("k") == "match" and is_len(n["scrut"]):
            lits = {a["pat"]["v"] for a in n["arms"] if a["pat"].get("k") == "plit"}
            other = [a for a in n["arms"] if a["pat"].get("k") in ("pwild", "pbind")]
            if lits == {3, 4} and len(other) == 1 and (other[0]["body"].get("ty") == "!" or norm_._diverges(other[0]["body"])):
                rejects = True
        # (b) `if !<len in {3,4}> { panic }`
        if n.get("k") == "if" and "else" not in n and (n["then"].get("ty") == "!" or norm_._diverges(n["then"])):
            c = resolve(n["cond"])
            neg = False
            while c.get("k") == "unary" and c["op"] == "!":
                neg, c = not neg, resolve(c["e"])
            st_ = len_set_test(c)
            if st_ == {3, 4} and neg:
                rejects = True
            # De Morgan: `len != 3 && len != 4`
            if not neg and c.get("k") == "binary" and c["op"] == "&&":
                parts = []
                stack_ = [c]
                while stack_:
                    x_ = resolve(stack_.pop())
                    if x_.get("k") == "binary" and x_["op"] == "&&":
                        stack_ += [x_["l"], x_["r"]]
                    else:
                        parts.append(x_)
                ks_ = set()
                for x_ in parts:
                    if x_.get("k") == "binary" and x_["op"] == "!=":
                        one = len_set_test(dict(x_, op="=="))
                        if one and len(one) == 1:
                            ks_ |= one
                            continue
                    ks_ = None
                    break
                if ks_ == {3, 4}:
                    rejects = True

    def count_evidence(conds):
        """the token count implied by the conditions under which a value is produced: 3, 4 or None"""
        for c_, pol in conds:
            if c_.get("k") == "armpat":
                pat = c_["pat"]
                while pat.get("k") in ("pref", "pderef"):
                    pat = pat["pat"]
                if pat.get("k") == "pslice" and "mid" not in pat and is_local(c_["scrut"], p_tokens) and pol:
                    return len(pat["before"])
                if pat.get("k") == "plit" and is_len(c_["scrut"]) and pol:
                    return pat["v"]
                if pat.get("k") == "plit" and isinstance(pat.get("v"), bool):
                    st_ = len_set_test(c_["scrut"])
                    if st_ and len(st_) == 1:
                        return list(st_)[0] if pat["v"] else (7 - list(st_)[0] if list(st_)[0] in (3, 4) else None)
            st_ = len_set_test(c_) if c_.get("k") != "armpat" else None
            if st_ and len(st_) == 1 and list(st_)[0] in (3, 4):
                return list(st_)[0] if pol else 7 - list(st_)[0]
        return None
    def parse_of_token(e, k):
        e = norm_.value_source(gx, gdefs, e)
        while e.get("k") == "cast":
            e = peel(e["e"])
            e = norm_.value_source(gx, gdefs, e)
        b_, ms_ = chain(e)
        return [m_[0] for m_ in ms_] == ["parse", "unwrap"] and tok_k(b_) == k

    def from_bits(e):
        """(K, slice?) when e = BitVecValue::from_bit_str(tokens[K] or a sub-slice of it).unwrap()"""
        e = norm_.value_source(gx, gdefs, e)
        b_, ms_ = chain(e)
        if [m_[0] for m_ in ms_] != ["unwrap"] or b_.get("k") != "call" or not (callee(b_) or "").endswith("BitVecValue::from_bit_str"):
            return None
        a = norm_.value_source(gx, gdefs, b_["args"][0])
        if tok_k(a) is not None:
            return tok_k(a), None
        a = peel(a)
        if a.get("k") == "index":
            base = a["e"]
            rng = peel(a["i"])
            if tok_k(base) is not None and rng.get("k") == "struct" and rng["path"].endswith("ops::range::Range"):
                fs = {f_["name"]: peel(f_["e"]) for f_ in rng["fields"]}
                st, en = fs.get("start", {}), resolve(fs.get("end", {}))
                inner = st.get("v") == 1 and en.get("k") == "binary" and en["op"] == "-" and peel(en["r"]).get("v") == 1 and [m_[0] for m_ in chain(resolve(en["l"]))[1]] == ["len"] \
                    and tok_k(chain(resolve(en["l"]))[0]) == tok_k(base)
                return tok_k(base), ("inner" if inner else "other")
        return None
    # what the function returns: (index, name, value)
    rets = [n for n in gx.nodes if n.get("k") == "tuple" and len(n["es"]) == 3 and (n.get("ty") or "").startswith("(usize")]
    ok_id = bool(rets) and all(parse_of_token(r["es"][0], 0) for r in rets)
    ctx.inst("R16.1", "reader:id-at-0", ok_id, g["span"], "the state/input id must be read from token 0")
    leaves = []
    for r in rets:
        pre = norm_.path_conditions(gx, r)
        for cs, lf in norm_.result_table(gx, r["es"][2]):
            leaves.append((pre + cs, peel(lf)))
    bv = [(cs, lf) for cs, lf in leaves if lf.get("k") == "ctor" and callee(lf).endswith("InitValue::BitVec")]
    arr = [(cs, lf) for cs, lf in leaves if lf.get("k") == "ctor" and callee(lf).endswith("InitValue::Array")]
    # an `is_array` flag computed from the length: `let is_array = match len {3 => false, 4 => true, ..}` / `len == 4`

    def count_of(conds):
        n_ = count_evidence(conds)
        if n_ is not None:
            return n_
        for c_, pol in conds:
            c2 = c_
            if c2.get("k") == "match" and is_len(c2["scrut"]):
                tbl = {a["pat"]["v"]: peel(a["body"]).get("v") for a in c2["arms"] if a["pat"].get("k") == "plit"}
                hit = [k_ for k_, v_ in tbl.items() if v_ is pol]
                if len(hit) == 1:
                    return hit[0]
        return None
    lens_ok = rejects and len(bv) == 1 and len(arr) == 1 and count_of(arr[0][0]) == 4 and count_of(bv[0][0]) in (3, None if False else 3)
    if rejects and len(bv) == 1 and len(arr) == 1 and count_of(arr[0][0]) == 4 and count_of(bv[0][0]) is None:
        # the bit-vector value is the alternative to the 4-token case (anything but 3 or 4 was rejected before)
        lens_ok = all((c_.get("k") == "armpat" or not pol or True) for c_, pol in bv[0][0])
    if rejects and len(bv) == 1 and len(arr) == 1 and count_of(bv[0][0]) == 3 and count_of(arr[0][0]) is None:
        # the mirror image: the 3-token case returns early, the array entry is what remains (anything but 3 or 4 was rejected before)
        lens_ok = True
    ctx.inst("R16.1", "reader:token-count", lens_ok, g["span"], "assignments must have 3 tokens (bit-vector) or 4 tokens (array entry), anything else must be rejected")
    ok_bv = len(bv) == 1 and from_bits(bv[0][1]["args"][0]) == (1, None)
    ctx.inst("R16.1", "reader:bv-value-at-1", ok_bv, g["span"], "a bit-vector value must be read from token 1 in binary")
    stores = [n for n in gx.nodes if n.get("k") == "mcall" and n["name"] == "store" and len(n["args"]) == 2]
    ok_idx = ok_data = False
    brackets = False
    if len(stores) == 1:
        fi = from_bits(stores[0]["args"][0])
        fd = from_bits(stores[0]["args"][1])
        ok_idx = fi == (1, "inner")
        ok_data = fd == (2, None)
        # the brackets are checked
        for n in gx.nodes:
            if n.get("k") == "mcall" and n["name"] == "starts_with" and peel(n["args"][0]).get("v") == "[" and tok_k(n["recv"]) == 1:
                brackets = any(x.get("k") == "mcall" and x["name"] == "ends_with" and peel(x["args"][0]).get("v") == "]" and tok_k(x["recv"]) == 1 for x in gx.nodes)
    ctx.inst("R16.1", "reader:array-index-at-1-in-brackets", ok_idx and brackets, g["span"], "an array index must be read from token 1, between [ and ], in binary")
    ctx.inst("R16.1", "reader:array-data-at-2", ok_data, g["span"], "array data must be read from token 2 in binary")
    # the name: last token, cut at the first @ or #
    ok_name = bool(rets)
    for r in rets:
        ok_name = ok_name and name_cut(gx, gdefs, r["es"][1], tok_k)
    ctx.inst("R16.1", "reader:name-last-suffix-cut", ok_name, g["span"], "the name must be the last token with everything from the first @ or # removed")
    rec = False
    if len(arr) == 1 and len(stores) == 1:
        av = arr[0][1]
        idxs = norm_.value_source(gx, gdefs, av["args"][1])
        idx_locals = [x for x in walk(idxs) if x.get("k") == "local"]
        rec = is_local(av["args"][0], local_id(stores[0]["recv"])) and len(idx_locals) == 1 and is_local(idx_locals[0], local_id(stores[0]["args"][0])) and gx.precedes(stores[0], av)
    ctx.inst("R16.2", "reader:array-entry-stored", rec, g["span"], "an array entry must be stored at its index and the index recorded")


def name_cut(gx, gdefs, e, tok_k):
    """e is the last token with everything from the first '@' or '#' removed: `.split('@').next().unwrap().split('#').next().unwrap()`
    (either order) or `match s.find(['@', '#']) { Some(i) => &s[..i], None => s }`"""
    b_, ms_ = norm_.deep_chain(gx, gdefs, e)
    e = norm_.value_source(gx, gdefs, e)
    names = [m_[0] for m_ in ms_]
    if tok_k(b_) == "last" and names == ["split", "next", "unwrap", "split", "next", "unwrap"]:
        chars = {peel(ms_[0][1][0]).get("v"), peel(ms_[3][1][0]).get("v")}
        return chars == {"@", "#"}
    # last().unwrap() is part of the chain when the base is the token slice itself
    if names[:2] == ["last", "unwrap"] and names[2:] == ["split", "next", "unwrap", "split", "next", "unwrap"]:
        chars = {peel(ms_[2][1][0]).get("v"), peel(ms_[5][1][0]).get("v")}
        return chars == {"@", "#"}
    oe = norm_.opt_elim(e)
    if oe is not None and oe["bind"] is not None and oe["some"] is not None:
        sb, sms = chain(oe["scrut"])
        if [m_[0] for m_ in sms] == ["find"] and tok_k(sb) == "last":
            pat = peel(sms[0][1][0])
            chars = {peel(x).get("v") for x in pat.get("es", [])} if pat.get("k") == "array" else set()
            some = peel(norm_.tail_value(oe["some"]))
            rng = peel(some["i"]) if some.get("k") == "index" else {}
            upto = rng.get("k") == "struct" and rng["path"].endswith("RangeTo") and is_local({f_["name"]: f_["e"] for f_ in rng["fields"]}.get("end", {}), oe["bind"])
            return chars == {"@", "#"} and some.get("k") == "index" and tok_k(some["e"]) == "last" and upto and tok_k(oe["none"]) == "last"
    return False


def merge(ctx):
    h = ctx.fn("patronus", W + "update_value")
    hx = Index(h["body"])
    m = [n for n in hx.nodes if n.get("k") == "match" and peel(n["scrut"]).get("k") == "tuple"]
    okm = False
    if m:
        okm = True
        seen_arr = seen_none = False
        for arm in m[0]["arms"]:
            pat = arm["pat"]
            if pat.get("k") != "ptuple" or len(pat["subs"]) != 2:
                continue
            a, b = pat["subs"]
            if a.get("k") == "pvariant" and a["path"].endswith("InitValue::Array") and b.get("k") == "pvariant" and b["path"].endswith("InitValue::Array"):
                seen_arr = True
                oa, oi = [binding_of_pat(x) for x in a["subs"]]
                na, ni = [binding_of_pat(x) for x in b["subs"]]
                # every new index's value is stored into the old array, the indices are recorded, the old array is returned
                st = [x for x in walk(arm["body"]) if x.get("k") == "mcall" and x["name"] == "store" and is_local(x["recv"], oa[1])]
                ok_store = False
                for s_ in st:
                    it = norm_.iter_context(Index(arm["body"]), s_)
                    if it is None or it["kind"] not in ("for", "closure"):
                        continue
                    eb = pat_bindings(it["pat"])
                    sb, sms = chain(it["src"])
                    val = peel(s_["args"][1])
                    ok_store = len(eb) == 1 and is_local(sb, ni[1]) and [m_[0] for m_ in sms] == ["iter"] and is_local(s_["args"][0], eb[0][1]) \
                        and val.get("k") == "mcall" and val["name"] == "select" and is_local(val["recv"], na[1]) and is_local(val["args"][0], eb[0][1])
                ext = [x for x in walk(arm["body"]) if x.get("k") == "mcall" and x["name"] in ("extend_from_slice", "extend", "append") and is_local(x["recv"], oi[1]) and any(y.get("k") == "local" and canon(y["id"]) == canon(ni[1]) for y in walk(x["args"][0]))]
                res = peel(norm_.tail_value(arm["body"]))
                while res.get("k") == "blockexpr" and "tail" in res["b"]:
                    res = peel(norm_.tail_value(res["b"]["tail"]))
                ok_res = res.get("k") == "ctor" and callee(res).endswith("InitValue::Array") and is_local(res["args"][0], oa[1]) and is_local(res["args"][1], oi[1])
                okm = okm and ok_store and len(ext) == 1 and ok_res
            if a.get("k") == "pvariant" and a["path"].endswith("InitValue::None"):
                nb = binding_of_pat(b)
                seen_none = nb is not None and is_local(norm_.tail_value(arm["body"]), nb[1])
        okm = okm and seen_arr and seen_none
    ctx.inst("R16.2", "reader:update_value-merges-per-index", okm, h["span"], "merging two array values must store every new index's value into the old array and record the indices; the first value replaces None: %s" % show(h["body"])[:200])
