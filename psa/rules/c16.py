"""C16 - btor2 witness text: printer line shapes vs. reader recognisers, index/value pairing, frame accumulation."""
import re
from ..tree import *  # noqa
from ..flow import Index
from .. import fmtstr
from .c02 import binding_of_pat

W = "patronus::btor2::witness::"

EXPLANATION = ("Static line-shape agreement analysis of btor2::witness (rustc HIR facts + recovered format strings): the printer's formats (header `sat`, property tokens `b<n>`, frame markers `#0` / `@<k>` with k the frame's "
               "position, terminator `.`, bit-vector lines `<id> <bits> <name><suffix>`, array lines `<id> [<index bits>] <data bits> <name><suffix>`) are compared with the reader's recognisers (token count 3/4, id at 0, "
               "value or bracketed index at 1, data at 2, name last with the suffix cut at @ / #, binary radix on both sides); each printed array entry pairs an index with the value selected at that same index; on the "
               "reader side array entries of one state are merged index by index, every finished input frame is pushed and the scratch vector emptied before the next frame or witness begins.")
ASSUMPTIONS = ["baa to_bit_str / from_bit_str are inverse", "names containing @, # or blanks are not decided", "ordering of array entries is not decided (the reader sorts)"]
LEVEL_TEXT = ("Static sibling agreement between the two halves of one text format: field count, field order, bracket characters, markers and radix are decided for every line kind, and the reader's frame bookkeeping is checked for "
              "all stream shapes (any number of witnesses, frames, inputs) rather than the single shape the tests use. Value text is delegated to baa.")
LEVEL_NOTE = "Agreement of shapes, not a proof of round-trip equality of values; baa's bit-string conversion is trusted."
TECHNIQUE = "format-string recovery vs. recogniser extraction (token indices, prefix tests); def-use pairing rule; must-call-before-state-change rule"


def fmt_tokens(c, f, names=("write", "writeln")):
    out = []
    for s_ in fmtstr.macro_sites(c, f["body"], names):
        pc = fmtstr.parse_call(s_["snippet"])
        if pc and pc[2] is not None:
            out.append((s_, pc, fmtstr.tokens(pc[2], pc[3])))
    return out


def tok_str(tk):
    return ["".join(("{%s}" % p[1]) if p[0] == "arg" else p[1] for p in t) for t in tk]


def run(ctx):
    ctx.rule("R16.1", "printer formats and reader recognisers agree on field count, order, brackets, markers, suffix handling and radix for every line kind")
    ctx.rule("R16.2", "each printed array entry pairs index i with select(i); the reader merges array entries index by index; every finished input frame is pushed and the scratch vector emptied before the next frame/witness")
    c = ctx.facts.lib("patronus")
    printer(ctx, c)
    reader(ctx, c)


def printer(ctx, c):
    f = ctx.fn("patronus", W + "print_witness")
    rows = fmt_tokens(c, f)
    fmts = [pc[2] for _, pc, _ in rows]
    ctx.inst("R16.1", "printer:header", "sat" in fmts and fmts.index("sat") == 0, f["span"], "a witness must start with the line `sat`: %s" % fmts[:3], sample=fmts)
    ctx.inst("R16.1", "printer:property-token", "b{bad_id}" in fmts, f["span"], "failed properties must be printed as b<index>: %s" % fmts)
    ctx.inst("R16.1", "printer:state-frame-marker", "#0" in fmts, f["span"], "the initial state frame must be introduced by `#0`")
    ctx.inst("R16.1", "printer:input-frame-marker", "@{k}" in fmts, f["span"], "input frames must be introduced by `@<k>`")
    ctx.inst("R16.1", "printer:terminator", fmts and fmts[-1] == ".", f["span"], "a witness must end with the line `.`: %s" % fmts[-2:])
    ctx.floor("R16.1", "write sites in print_witness", len(rows), 5)
    # @k: k is the enumerate index over witness.inputs
    ix = Index(f["body"])
    ok = False
    for n in ix.nodes:
        if n.get("k") == "for":
            b, ms = chain(n["iter"])
            fp = field_path(b)
            if fp and fp[2] == ["inputs"] and [m[0] for m in ms] == ["iter", "enumerate"] and n["pat"].get("k") == "ptuple":
                kb = binding_of_pat(n["pat"]["subs"][0])
                ok = kb is not None and kb[0] == "k"
    ctx.inst("R16.1", "printer:frame-number-is-position", ok, f["span"], "the number after @ must be the frame's position in witness.inputs (the reader asserts it equals the number of frames read so far)")
    # suffixes passed to the value printers
    calls = [n for n in ix.nodes if n.get("k") == "call" and (callee(n) or "").startswith(W + "print_witness_")]
    sufs = {}
    for n in calls:
        a = peel(n["args"][4])
        txt = show(a)
        if a.get("k") == "local":
            d = local_defs(f).get(a["id"])
            if d and d[0] == "let":
                sites = fmtstr.macro_sites(c, d[1]["init"], ("format",))
                txt = fmtstr.parse_call(sites[0]["snippet"])[2] if sites else txt
        sufs[callee(n).split("::")[-1]] = txt
    ctx.inst("R16.1", "printer:suffixes", sufs.get("print_witness_init_value") == '"#0"' and sufs.get("print_witness_input_value") == "@{k}", f["span"], "name suffixes must be #0 for initial values and @<k> for inputs (the reader cuts the name at @ / #): %s" % sufs, sample=sufs)
    # states printed with id = position, names zipped
    # value printers
    for fn_, kinds in (("print_witness_input_value", {"bv": 1}), ("print_witness_init_value", {"bv": 1, "arr": 1})):
        g = ctx.fn("patronus", W + fn_)
        rows = fmt_tokens(c, g)
        shapes = sorted(" ".join(tok_str(tk)) for _, _, tk in rows)
        want = ["{id} {value.to_bit_str()} {name}{suffix}"]
        if "arr" in kinds:
            want = sorted(want + ["{id} [{index.to_bit_str()}] {value.to_bit_str()} {name}{suffix}"])
        ctx.inst("R16.1", "printer:%s:line-shapes" % fn_, shapes == want, g["span"], "%s writes %s, the reader expects %s" % (fn_, shapes, want), sample=shapes)
        if "arr" in kinds:
            gx = Index(g["body"])
            gdefs = local_defs(g)
            okp = False
            why = "no loop over the indices"
            for n in gx.nodes:
                if n.get("k") == "for":
                    ib = binding_of_pat(n["pat"])
                    sites = fmtstr.macro_sites(c, n["body"], ("writeln", "write"))
                    if not ib or len(sites) != 1:
                        continue
                    vals = [d for i, d in gdefs.items() if d[0] == "let" and binding_of_pat(d[2]) and binding_of_pat(d[2])[0] == "value" and contains(n["body"], d[1])]
                    b2, ms2 = chain(n["iter"])
                    okp = len(vals) == 1 and show(vals[0][1]["init"]).replace(" ", "") == "a.select(%s)" % ib[0] and [m[0] for m in ms2] == ["iter"] and "zip" not in show(n["iter"])
                    pc = fmtstr.parse_call(sites[0]["snippet"])
                    okp = okp and pc[3][0].replace(" ", "") == "%s.to_bit_str()" % ib[0] and pc[3][1].replace(" ", "") == "value.to_bit_str()"
                    why = "loop `for %s in %s` prints index `%s` with value `%s` = %s" % (show_pat(n["pat"]), show(n["iter"])[:60], pc[3][0], pc[3][1], show(vals[0][1]["init"]) if vals else "?")
            ctx.inst("R16.2", "printer:array-entry-pairs-index-with-its-value", okp, g["span"], "every printed array entry must pair an index with the array's value at that same index: %s" % why, sample=why)


def reader(ctx, c):
    f = ctx.fn("patronus", W + "parse_witnesses")
    ix = Index(f["body"])

    class _T:
        def __contains__(self, needle):
            return anyshow(f["body"], needle)
    txt = _T()
    # header / markers
    ctx.inst("R16.1", "reader:header", '(&line,&"sat")' in txt, f["span"], "the reader must expect the header line `sat`")
    ctx.inst("R16.1", "reader:property-token", "token.strip_prefix('b')" in txt and "letnum=stripped.parse().unwrap()" in txt and "wit.failed_safety.push(num)" in txt, f["span"], "property tokens must be recognised by stripping the prefix `b` and parsing the number")
    ctx.inst("R16.1", "reader:state-frame-marker", '(&line,&"#0")' in txt, f["span"], "the reader must expect `#0` as the initial state frame marker")
    ctx.inst("R16.1", "reader:input-frame-marker", "line.starts_with('@')" in txt, f["span"], "input frames must be recognised by a leading @")
    ctx.inst("R16.1", "reader:terminator", '(line==".")' in txt, f["span"], "the witness terminator must be the line `.`")
    defs = local_defs(f)

    def closure_of(name):
        for i, d in defs.items():
            if d[0] == "let" and binding_of_pat(d[2]) and binding_of_pat(d[2])[0] == name and peel(d[1]["init"]).get("k") == "closure":
                return i, peel(d[1]["init"])
        return None, None
    sid, start_inputs = closure_of("start_inputs")
    ok = start_inputs is not None and "line[range::RangeFrom{start:1}].parse().unwrap()" in show(start_inputs["body"]).replace(" ", "").replace("::<u64>", "") and "wit.inputs.len()" in show(start_inputs["body"])
    ctx.inst("R16.1", "reader:frame-number", ok, f["span"], "the number after @ must be parsed from the text after the marker and checked against the number of frames read")
    fid, finish_inputs = closure_of("finish_inputs")
    okf = False
    why = "closure finish_inputs not found"
    if finish_inputs is not None:
        ps = [binding_of_pat(p) for p in finish_inputs["params"]]
        body = show(finish_inputs["body"]).replace(" ", "")
        scratch = ps[1][0] if len(ps) == 2 and ps[1] else "?"
        okf = ("wit.inputs.push(mem::take(%s))" % scratch in body) or ("wit.inputs.push(%s.clone())" % scratch in body and "%s.clear()" % scratch in body) or ("%s.drain(" % scratch in body and "collect" in body)
        why = show(finish_inputs["body"])[:140]
    ctx.inst("R16.2", "reader:finished-frame-pushed-and-scratch-emptied", okf, f["span"],
             "finishing an input frame must push the collected values and leave the scratch vector EMPTY (mem::take / clone+clear): %s - otherwise entries of a longer earlier frame or witness leak into later ones" % why, sample=why)
    # in the ParsingInputsAt arm every exit (., @, #) calls finish_inputs first
    arm = None
    for n in ix.nodes:
        if n.get("k") == "match":
            for a in n["arms"]:
                if "ParsingInputsAt" in show_pat(a["pat"]) and not "ParsingStatesAt" in show_pat(a["pat"]):
                    arm = a
    oke = arm is not None
    if oke:
        ax = Index(arm["body"])
        branches = []

        def collect(n):
            n = peel_block(n) if n.get("k") == "blockexpr" and not n["b"]["stmts"] else n
            if n.get("k") == "if":
                branches.append((show(n["cond"]), n["then"]))
                if "else" in n:
                    collect(n["else"])
            else:
                branches.append(("else", n))
        collect(arm["body"])
        for bi, (cond, br) in enumerate(branches):
            calls = [x for x in walk(br) if x.get("k") == "callv" and is_local(x["f"], fid)]
            cont = "ParsingInputsAt(at)" in show(br).replace(" ", "") and "parse_assignment" in show(br)
            okb = (len(calls) == 1) != cont and (cont or stmts_of(br) and any(is_local(y["f"], fid) for y in walk(stmts_of(br)[0]) if y.get("k") == "callv"))
            ctx.inst("R16.2", "reader:inputs-exit#%d:%s" % (bi + 1, re.sub(r"\W+", "_", cond)[:30]), okb, br.get("sp"), "leaving an input frame under `%s` must first push the frame (finish_inputs) exactly once; the continuing branch must not" % cond[:60])
    ctx.inst("R16.2", "reader:inputs-arm", oke, f["span"], "UNRECOGNISED: no ParsingInputsAt arm")
    # initial values: merged through update_value at the parsed id, names stored at the same id
    ok_init = "wit.init[ii]=witness::update_value(wit.init[ii].clone(),value)" in txt and "wit.init_names[ii]=Option::Some(name.to_string())" in txt and "if(at==0)" in txt
    ctx.inst("R16.2", "reader:init-merge", ok_init, f["span"], "initial values must be merged per state id with update_value and named at the same id (only frame #0)")
    ok_in = "inputs[ii]=value.try_into().ok()" in txt and "wit.input_names[ii]=Option::Some(name.to_string())" in txt
    ctx.inst("R16.2", "reader:input-store", ok_in, f["span"], "input values and names must be stored at the parsed input id")
    # parse_assignment
    g = ctx.fn("patronus", W + "parse_assignment")
    class _G:
        def __contains__(self, needle):
            return anyshow(g["body"], needle)

        def replace(self, *a):
            return self
    gt = _G()
    idx = {}
    for n in walk(g["body"]):
        if n.get("k") == "index" and peel(n["e"]).get("k") == "local" and peel(n["e"])["name"] == "tokens" and peel(n["i"]).get("k") == "lit":
            idx.setdefault(peel(n["i"])["v"], []).append(n)
    m = [n for n in walk(g["body"]) if n.get("k") == "match" and "tokens.len()" in show(n["scrut"])]
    lens = {}
    if m:
        for a in m[0]["arms"]:
            if a["pat"].get("k") == "plit":
                lens[a["pat"]["v"]] = peel(a["body"]).get("v")
    ctx.inst("R16.1", "reader:token-count", lens == {3: False, 4: True}, g["span"], "assignments must have 3 tokens (bit-vector) or 4 tokens (array entry): %s" % lens, sample=lens)
    ctx.inst("R16.1", "reader:id-at-0", "tokens[0].parse().unwrap()" in gt.replace("::<u64>", ""), g["span"], "the state/input id must be read from token 0")
    ctx.inst("R16.1", "reader:bv-value-at-1", "BitVecValue::from_bit_str(tokens[1]).unwrap()" in gt, g["span"], "a bit-vector value must be read from token 1 in binary")
    ctx.inst("R16.1", "reader:array-index-at-1-in-brackets", "letindex_str=tokens[1]" in gt and "index_str.starts_with('[')&&index_str.ends_with(']')" in gt and "from_bit_str(&index_str[range::Range{start:1,end:(index_str.len()-1)}])" in gt, g["span"],
             "an array index must be read from token 1, between [ and ], in binary")
    ctx.inst("R16.1", "reader:array-data-at-2", "letdata=BitVecValue::from_bit_str(tokens[2]).unwrap()" in gt, g["span"], "array data must be read from token 2 in binary")
    ctx.inst("R16.1", "reader:name-last-suffix-cut", "tokens.last().unwrap().split('@').next().unwrap().split('#').next().unwrap()" in gt, g["span"], "the name must be the last token with everything from the first @ or # removed")
    stored = "array.store(&array_index,&data)" in gt
    rec = False
    for n in walk(g["body"]):
        if n.get("k") == "let" and binding_of_pat(n["pat"]) and binding_of_pat(n["pat"])[0] == "indices":
            rec = [x["name"] for x in walk(n["init"]) if x.get("k") == "local"] == ["array_index"]
    ctx.inst("R16.2", "reader:array-entry-stored", stored and rec, g["span"],
             "an array entry must be stored at its index and the index recorded")
    # update_value
    h = ctx.fn("patronus", W + "update_value")
    class _H:
        def __contains__(self, needle):
            return anyshow(h["body"], needle)

        def __getitem__(self, k):
            return show(h["body"])[:200]
    ht = _H()
    okm = "forindexinni.iter(){oa.store(index,&na.select(index))}" in ht and "oi.extend_from_slice(&ni)" in ht and "(InitValue::None,n)=>n" in ht
    ctx.inst("R16.2", "reader:update_value-merges-per-index", okm, h["span"], "merging two array values must store every new index's value into the old array and record the indices; the first value replaces None: %s" % ht[:200])
