"""C07 - update discipline of the interpreter: two-phase step, init order, snapshots are deep copies,
reads/writes go to the live store."""
from ..tree import *  # noqa
from ..flow import Index
from .c02 import binding_of_pat, mname

IMPL = "<patronus::sim::interpreter::Interpreter as patronus::sim::interface::Simulator>"
EVAL_EXPR = "patronus::expr::eval::eval_expr"
STORE = "patronus::expr::eval::SymbolValueStore"
INIT_SIGNAL = "patronus::sim::interpreter::init_signal"

EXPLANATION = ("Static analysis of sim::interpreter (rustc HIR facts): step() computes every next-state value before committing any "
               "(no loop or closure contains both an eval_expr call and a store update; every update is dominated by the completed evaluation pass; values are committed to the "
               "state they were computed for), init() clears, allocates all symbols, then evaluates init expressions in state order, snapshots are clones of the live store and "
               "are restored by clone (no &mut access to the snapshot list), the store type owns its data (no shared-ownership fields), get/set use the live store.")
ASSUMPTIONS = ["expression evaluation is correct (C06, partially decided)", "Vec/HashMap Clone are deep for owned element types"]
LEVEL_TEXT = ("Static ordering/ownership analysis of the simulator's state-update code on all paths: decides simultaneity of the step (two-phase update), init ordering, "
              "deep-copy snapshots and live-store access - the clauses that no finite operation history in the tests can establish for all histories. Values themselves are C06's concern.")
LEVEL_NOTE = "Structural necessary conditions; the evaluator and random-init determinism are not decided here."
TECHNIQUE = "structured dominance / region co-occurrence rules, def-use provenance and type-ownership inspection on rustc HIR facts"


def is_eval(n):
    return n.get("k") == "call" and callee(n) in (EVAL_EXPR, "patronus::expr::eval::eval_bv_expr", "patronus::expr::eval::eval_array_expr")


def is_update(n):
    return n.get("k") == "mcall" and (callee(n) or "").startswith(STORE + "::") and n["name"] in ("update", "update_bv", "update_array", "define_bv", "define_array", "clear")


def self_field(n, name):
    fp = field_path(n)
    return fp is not None and fp[0] == "self" and fp[2] == name.split(".")


def run(ctx):
    ctx.rule("R07.1", "Interpreter::step: no loop/closure contains both an evaluation and a store update; every update is dominated by the statement that completes the evaluation pass (collect); values are committed positionally to the states they were computed from")
    ctx.rule("R07.2", "Interpreter::init: data.clear() and both allocation loops (all states, all inputs) dominate the first evaluation; init expressions are evaluated against the live store and committed to their own state, in state order")
    ctx.rule("R07.3", "take_snapshot pushes a clone of the live store and returns its index; restore_snapshot assigns a clone and takes no mutable access to the snapshot list; the store owns its data; nothing else touches the snapshot list")
    ctx.rule("R07.4", "get evaluates against the live store; set only updates the live store")
    step(ctx)
    init(ctx)
    snapshots(ctx)
    getset(ctx)


def step(ctx):
    f = ctx.fn("patronus", IMPL + "::step")
    ix = Index(f["body"])
    defs = local_defs(f)
    evals = [n for n in ix.nodes if is_eval(n)]
    ups = [n for n in ix.nodes if is_update(n) and n["name"].startswith("update")]
    ctx.floor("R07.1", "eval_expr calls in step", len(evals), 1)
    ctx.floor("R07.1", "store updates in step", len(ups), 1)
    # (a) no loop / closure region shared by an eval and an update
    for i, u in enumerate(ups):
        shared = []
        for e in evals:
            ru = [r for r in ix.regions[id(u)] if r[1] in ("loop", "closure")]
            re_ = [r for r in ix.regions[id(e)] if r[1] in ("loop", "closure")]
            shared += [r for r in ru if r in re_]
        ctx.inst("R07.1", "step:update#%d:not-fused" % (i + 1), not shared, u["sp"],
                 "`%s` is inside the same loop/closure as an eval_expr call: a next-state function evaluated later in that loop reads an already updated state (the step is no longer simultaneous)" % show(u),
                 sample=show(u))
    # (b) the evaluation pass is materialised (collect) in a statement that dominates every update
    passes = []
    for n in ix.nodes:
        if n.get("k") == "let" and "init" in n and any(is_eval(x) for x in walk(n["init"])):
            b, ms = chain(n["init"])
            if ms and ms[-1][0] in ("collect",) or (n["init"].get("ty") or "").startswith("alloc::vec::Vec<"):
                passes.append(n)
    ctx.inst("R07.1", "step:evaluation-pass", len(passes) >= 1, f["span"], "no statement materialises all next-state values (…collect::<Vec<_>>()) before the commit phase")
    ev_in_pass = [e for e in evals if any(contains(p, e) for p in passes)]
    ctx.inst("R07.1", "step:all-evals-in-pass", len(ev_in_pass) == len(evals), f["span"], "%d eval_expr call(s) in step happen outside the evaluation pass" % (len(evals) - len(ev_in_pass)))
    for i, u in enumerate(ups):
        ok = any(ix.dominates(p, u) for p in passes)
        ctx.inst("R07.1", "step:update#%d:after-pass" % (i + 1), ok, u["sp"], "`%s` is not dominated by the completed evaluation pass" % show(u))
    # (c) positional commit
    for p in passes:
        pb = binding_of_pat(p["pat"])
        base, ms = chain(p["init"])
        src_ok = self_field(base, "sys.states") and [m[0] for m in ms][:2] == ["iter", "map"]
        lazy = [m[0] for m in ms if m[0] in ("filter", "filter_map", "skip", "take", "rev", "step_by", "flat_map", "flatten")]
        ctx.inst("R07.1", "step:pass-source", src_ok and not lazy, p["sp"], "the evaluation pass is not a 1:1 map over self.sys.states (`%s`): values would be committed to the wrong states" % show(p["init"])[:160])
        # closure evaluates the state's own next against the live store
        for e in ev_in_pass:
            a = e["args"]
            ok = self_field(a[0], "ctx") and self_field(a[1], "data")
            ctx.inst("R07.1", "step:eval-args", ok, e["sp"], "next-state functions are not evaluated against the simulator's own context and live store: %s" % show(e))
        for u in ups:
            loop = ix.enclosing(u, ("for",))
            ok = False
            why = "update outside a `for (state, value) in states.zip(values)` loop"
            if loop is not None and pb is not None:
                lb, lms = chain(loop["iter"])
                names = [m[0] for m in lms]
                if self_field(lb, "sys.states") and names == ["iter", "zip"]:
                    zb, zms = chain(lms[1][1][0])
                    if is_local(zb, pb[1]) and [m[0] for m in zms] in (["into_iter"], ["iter"], []):
                        pat = loop["pat"]
                        if pat.get("k") == "ptuple" and len(pat["subs"]) == 2:
                            sb, vb = binding_of_pat(pat["subs"][0]), binding_of_pat(pat["subs"][1])
                            fp = field_path(u["args"][0])
                            val = peel(u["args"][1])
                            val_ok = False
                            if val.get("k") == "local" and vb:
                                d = defs.get(val["id"])
                                if val["id"] == vb[1]:
                                    val_ok = True
                                elif d and d[0] in ("letexpr", "arm", "let"):
                                    src = d[1].get("init") or d[1].get("scrut")
                                    val_ok = src is not None and is_local(src, vb[1])
                            ok = sb is not None and fp is not None and fp[1] == sb[1] and fp[2] == ["symbol"] and val_ok and self_field(u["recv"], "data")
                            why = "the committed value / target state are not the zipped pair"
                else:
                    why = "commit loop iterates `%s`" % show(loop["iter"])[:120]
            ctx.inst("R07.1", "step:commit-positional", ok, u["sp"], "%s: %s" % (why, show(u)), sample=show(loop["iter"]) if loop else None)


def init(ctx):
    f = ctx.fn("patronus", IMPL + "::init")
    ix = Index(f["body"])
    evals = [n for n in ix.nodes if is_eval(n)]
    ctx.floor("R07.2", "eval_expr calls in init", len(evals), 1)
    first_eval = min(evals, key=lambda n: ix.pre[id(n)]) if evals else None
    clears = [n for n in ix.nodes if n.get("k") == "mcall" and n["name"] == "clear" and self_field(n["recv"], "data")]
    allocs = [n for n in ix.nodes if n.get("k") == "call" and callee(n) == INIT_SIGNAL]
    ctx.inst("R07.2", "init:clear", len(clears) == 1 and all(ix.dominates(clears[0], a) for a in allocs), f["span"], "self.data.clear() must dominate the allocation of all symbols (found %d clear calls)" % len(clears))
    seen = set()
    for a in allocs:
        loop = ix.enclosing(a, ("for",))
        which = None
        if loop is not None:
            lb, lms = chain(loop["iter"])
            if [m[0] for m in lms] == ["iter"] and len(ix.regions[id(a)]) == len(ix.regions[id(loop)]) + 1:
                if self_field(lb, "sys.states"):
                    sb = binding_of_pat(loop["pat"])
                    fp = field_path(a["args"][2])
                    if sb and fp and fp[1] == sb[1] and fp[2] == ["symbol"]:
                        which = "states"
                elif self_field(lb, "sys.inputs"):
                    sb = binding_of_pat(loop["pat"])
                    if sb and is_local(a["args"][2], sb[1]):
                        which = "inputs"
        if which and first_eval is not None and ix.dominates(loop, first_eval) and self_field(a["args"][1], "data"):
            seen.add(which)
    for w in ("states", "inputs"):
        ctx.inst("R07.2", "init:alloc-%s" % w, w in seen, f["span"], "no unconditional loop allocating every element of self.sys.%s in the live store before the first init expression is evaluated" % w)
    # init expressions: for state in states { if let Some(init) = state.init { value = eval(init); update(state.symbol, value) } }
    for i, e in enumerate(evals):
        loop = ix.enclosing(e, ("for",))
        ok = False
        if loop is not None:
            lb, lms = chain(loop["iter"])
            sb = binding_of_pat(loop["pat"])
            if self_field(lb, "sys.states") and [m[0] for m in lms] == ["iter"] and sb:
                defs = local_defs(f)
                x = peel(e["args"][2])
                src_ok = False
                if x.get("k") == "local":
                    d = defs.get(x["id"])
                    if d and d[0] in ("letexpr", "arm", "let"):
                        src = d[1].get("init") or d[1].get("scrut")
                        fp = field_path(src) if src else None
                        src_ok = fp is not None and fp[1] == sb[1] and fp[2] == ["init"]
                ups = [u for u in walk(loop["body"]) if is_update(u) and u["name"] == "update"]
                up_ok = False
                for u in ups:
                    fp = field_path(u["args"][0])
                    v = peel(u["args"][1])
                    vinit = simple_let_init(defs, v["id"]) if v.get("k") == "local" else v
                    if fp and fp[1] == sb[1] and fp[2] == ["symbol"] and vinit is not None and strip_try(vinit) is e and ix.precedes(e, u) and ix.regions[id(u)] == ix.regions[id(e)]:
                        up_ok = True
                ok = src_ok and up_ok and self_field(e["args"][1], "data") and self_field(e["args"][0], "ctx")
        ctx.inst("R07.2", "init:eval#%d" % (i + 1), ok, e["sp"], "init expressions must be evaluated against the live store in state order and committed to their own state immediately: %s" % show(e), sample=show(e))


def snapshots(ctx):
    c = ctx.facts.lib("patronus")
    take = ctx.fn("patronus", IMPL + "::take_snapshot")
    rest = ctx.fn("patronus", IMPL + "::restore_snapshot")
    # take
    ix = Index(take["body"])
    pushes = [n for n in ix.nodes if n.get("k") == "mcall" and n["name"] == "push" and self_field(n["recv"], "snapshots")]
    ok = len(pushes) == 1
    if ok:
        a = peel(pushes[0]["args"][0])
        ok = a.get("k") == "mcall" and a["name"] == "clone" and self_field(a["recv"], "data") and (callee(a) or "").endswith("Clone>::clone") or (a.get("k") == "mcall" and a["name"] == "clone" and self_field(a["recv"], "data"))
    ctx.inst("R07.3", "take_snapshot:push-clone", ok, take["span"], "take_snapshot must push exactly one clone of self.data (found: %s)" % [show(p) for p in pushes], sample=show(pushes[0]) if pushes else None)
    lens = [n for n in ix.nodes if n.get("k") == "mcall" and n["name"] == "len" and self_field(n["recv"], "snapshots")]
    ok = len(lens) == 1 and pushes and ix.precedes(lens[0], pushes[0])
    ctx.inst("R07.3", "take_snapshot:id", bool(ok), take["span"], "the returned id must be the snapshot list length taken before the push")
    # restore
    uses = [n for n in walk(rest["body"]) if n.get("k") == "field" and n["name"] == "snapshots"]
    assigns = [n for n in walk(rest["body"]) if n.get("k") == "assign"]
    ok = len(assigns) == 1 and self_field(assigns[0]["l"], "data")
    if ok:
        r = peel(assigns[0]["r"])
        ok = r.get("k") == "mcall" and r["name"] == "clone"
        if ok:
            src = peel(r["recv"])
            ok = src.get("k") == "index" and self_field(src["e"], "snapshots")
    ctx.inst("R07.3", "restore_snapshot:assign-clone", ok, rest["span"], "restore_snapshot must assign self.data = self.snapshots[id].clone(): %s" % show(rest["body"]), sample=show(rest["body"]))
    mut_uses = []
    for n, parents in walk_parents(rest["body"]):
        if n.get("k") == "field" and n["name"] == "snapshots":
            # any &mut borrow / mutable adjustment of the snapshot list or an element of it
            chain_ = [n] + list(reversed(parents))
            for a in [n] + list(parents[::-1][:3]):
                if a.get("k") == "ref" and a.get("mut"):
                    mut_uses.append(a)
                if "refmut" in (a.get("adj") or []):
                    mut_uses.append(a)
    ctx.inst("R07.3", "restore_snapshot:no-mut-access", not mut_uses and len(uses) == 1, rest["span"],
             "restore_snapshot takes mutable access to the snapshot list (%s): a swap/take leaves the slot holding other data, so a second restore of the same id yields different values" % [show(m) for m in mut_uses])
    # who touches snapshots
    allowed = {IMPL + "::take_snapshot", IMPL + "::restore_snapshot", "patronus::sim::interpreter::Interpreter::internal_new"}
    for path, fl in c.fns.items():
        if "sim::interpreter" not in path:
            continue
        for f in fl:
            touches = [n for n in walk(f["body"]) if (n.get("k") == "field" and n["name"] == "snapshots" and (n["e"].get("ty") or "").lstrip("&mut ").startswith("patronus::sim::interpreter::Interpreter"))]
            if touches or path in allowed:
                ctx.inst("R07.3", "snapshots-access:%s" % path.split("::")[-1], (not touches) or path in allowed, f["span"], "%s accesses Interpreter.snapshots" % path, nontrivial=bool(touches))
            out = f.get("output") or ""
            if "&mut" in out and ("SymbolValueStore" in out or "Vec<" in out):
                ctx.violation("R07.3", "mut-handle:%s" % path.split("::")[-1], f["span"], "%s returns a mutable reference into the simulator state: %s" % (path, out))
    # ownership of the store
    adt = c.adts.get(STORE)
    if adt is None:
        ctx.violation("R07.3", "store:missing", None, "type SymbolValueStore not found")
    else:
        bad = [(fl["name"], fl["ty"]) for v in adt["variants"] for fl in v["fields"] if any(t in fl["ty"] for t in ("Rc<", "Arc<", "RefCell<", "Cell<", "*const", "*mut", "&", "Cow<", "Mutex<"))]
        ctx.inst("R07.3", "store:owned-fields", not bad, adt["span"], "SymbolValueStore has shared-ownership fields %s: its Clone is not a deep copy" % bad, sample=[(fl["name"], fl["ty"]) for v in adt["variants"] for fl in v["fields"]])
        derived = [i for i in c.impls if i["self_ty"] == STORE and i["trait"] == "core::clone::Clone"]
        ctx.inst("R07.3", "store:derived-clone", len(derived) == 1 and derived[0]["derived"], adt["span"], "SymbolValueStore's Clone is not the derived field-wise clone")


def getset(ctx):
    g = ctx.fn("patronus", IMPL + "::get")
    b = peel(peel_block(g["body"]))
    P = {name: i for p in g["params"] for name, i in pat_bindings(p)}
    ok = is_eval(b) and self_field(b["args"][0], "ctx") and self_field(b["args"][1], "data") and is_local(b["args"][2], P.get("expr"))
    ctx.inst("R07.4", "get", ok, g["span"], "get must be eval_expr(&self.ctx, &self.data, expr): %s" % show(g["body"]), sample=show(g["body"]))
    s_ = ctx.fn("patronus", IMPL + "::set")
    calls = [n for n in walk(s_["body"]) if n.get("k") in ("mcall", "call")]
    P = {name: i for p in s_["params"] for name, i in pat_bindings(p)}
    ok = len(calls) == 1 and calls[0].get("name") == "update_bv" and self_field(calls[0]["recv"], "data") and is_local(calls[0]["args"][0], P.get("expr")) and is_local(calls[0]["args"][1], P.get("value"))
    ctx.inst("R07.4", "set", ok, s_["span"], "set must only call self.data.update_bv(expr, value): %s" % show(s_["body"]), sample=show(s_["body"]))
