"""C07 - update discipline of the interpreter: two-phase step, init order, snapshots are deep copies,
reads/writes go to the live store."""
from ..tree import *  # noqa
from ..flow import Index
from .. import iterdesc
from .. import norm as norm_
from .c02 import binding_of_pat, mname

IMPL = "<patronus::sim::interpreter::Interpreter as patronus::sim::interface::Simulator>"
EVAL_EXPR = "patronus::expr::eval::eval_expr"
STORE = "patronus::expr::eval::SymbolValueStore"
INIT_SIGNAL = "patronus::sim::interpreter::init_signal"

EXPLANATION = ("Static analysis of sim::interpreter (rustc HIR facts): step() computes every next-state value before committing any "
               "(no loop or closure contains both an eval_expr call and a store update; every update is dominated by the completed evaluation pass; values are committed to the "
               "state they were computed for), init() clears, allocates all symbols, then evaluates init expressions in state order, snapshots are clones of the live store and "
               "are restored by clone (no &mut access to the snapshot list), the store type owns its data (no shared-ownership fields), get/set use the live store.")
ASSUMPTIONS = ["expression evaluation is correct (C06, partially decided)", "Vec/HashMap Clone are deep for owned element types"]
LEVEL_TEXT = ("Static ordering/ownership analysis of the simulator's state-update code on all paths: decides simultaneity of the step (two-phase update), init ordering, "
              "deep-copy snapshots and live-store access - the clauses that no finite operation history in the tests can establish for all histories. Values themselves are C06's concern.")
LEVEL_NOTE = "Structural necessary conditions; the evaluator and random-init determinism are not decided here."
TECHNIQUE = "structured dominance / region co-occurrence rules, def-use provenance and type-ownership inspection on rustc HIR facts"


def is_eval(n):
    return n.get("k") == "call" and callee(n) in (EVAL_EXPR, "patronus::expr::eval::eval_bv_expr", "patronus::expr::eval::eval_array_expr")


def is_update(n):
    return n.get("k") == "mcall" and (callee(n) or "").startswith(STORE + "::") and n["name"] in ("update", "update_bv", "update_array", "define_bv", "define_array", "clear")


def self_field(n, name):
    fp = field_path(n)
    if fp is None or fp[0] != "self":
        fp = field_path(resolve(n))      # a local bound to the place (e.g. a parameter of an inlined helper)
    return fp is not None and fp[0] == "self" and fp[2] == name.split(".")


def run(ctx):
    ctx.rule("R07.1", "Interpreter::step: no loop/closure contains both an evaluation and a store update; every update is dominated by the statement that completes the evaluation pass (collect); values are committed positionally to the states they were computed from")
    ctx.rule("R07.2", "Interpreter::init: data.clear() and both allocation loops (all states, all inputs) dominate the first evaluation; init expressions are evaluated against the live store and committed to their own state, in state order")
    ctx.rule("R07.3", "take_snapshot pushes a clone of the live store and returns its index; restore_snapshot assigns a clone and takes no mutable access to the snapshot list; the store owns its data; nothing else touches the snapshot list")
    ctx.rule("R07.4", "get evaluates against the live store; set only updates the live store")
    step(ctx)
    init(ctx)
    snapshots(ctx)
    getset(ctx)


STATES = ("elem", "self.sys.states")
INPUTS = ("elem", "self.sys.inputs")


def top_stmt(f, n):
    """index of the top-level statement of the function body that contains n (None when nested deeper than that is irrelevant)"""
    body = f["body"]
    while body.get("k") == "blockexpr":
        body = body["b"]
    items = list(body.get("stmts", [])) + ([body["tail"]] if "tail" in body else [])
    for i_, s_ in enumerate(items):
        if s_ is n or contains(s_, n):
            return i_
    return None


def strip_opt(d):
    while isinstance(d, tuple) and d and d[0] in ("opt", "payload") and len(d) == 2 and isinstance(d[1], tuple) and d[1][0] in ("opt", "payload", "call"):
        d = d[1]
    return d


def step(ctx):
    f = ctx.fn("patronus", IMPL + "::step")
    ix = Index(f["body"])
    defs = local_defs(f)
    D = iterdesc.Desc(ix, defs, call_names=(EVAL_EXPR,))
    evals = [n for n in ix.nodes if is_eval(n)]
    ups = [n for n in ix.nodes if is_update(n) and n["name"].startswith("update")]
    ctx.floor("R07.1", "eval_expr calls in step", len(evals), 1)
    ctx.floor("R07.1", "store updates in step", len(ups), 1)
    # (a) no loop / closure region shared by an eval and an update
    for i, u in enumerate(ups):
        shared = []
        for e in evals:
            ru = [r for r in ix.regions[id(u)] if r[1] in ("loop", "closure")]
            re_ = [r for r in ix.regions[id(e)] if r[1] in ("loop", "closure")]
            shared += [r for r in ru if r in re_]
        ctx.inst("R07.1", "step:update#%d:not-fused" % (i + 1), not shared, u["sp"],
                 "`%s` is inside the same loop/closure as an eval_expr call: a next-state function evaluated later in that loop reads an already updated state (the step is no longer simultaneous)" % show(u),
                 sample=show(u))
    # (b) the evaluation pass is complete before the commit phase starts: every statement of the body that evaluates precedes every statement that updates
    te = [top_stmt(f, e) for e in evals]
    tu = [top_stmt(f, u) for u in ups]
    okp = bool(te) and bool(tu) and None not in te and None not in tu and max(te) < min(tu)
    ctx.inst("R07.1", "step:evaluation-pass", okp, f["span"], "every next-state value must be computed (in statements %s of step) before the first store update (statements %s)" % (te, tu))
    # evaluated values are materialised: an evaluation inside a lazy iterator adaptor that is consumed by the commit loop would run interleaved with the updates
    lazy = []
    for e in evals:
        it = norm_.iter_context(ix, e)
        # Option::map and the like run eagerly: only iterator adaptors are lazy
        while it is not None and it["kind"] == "closure" and "iterator::Iterator" not in (it.get("call", {}).get("path") or ""):
            it = norm_.iter_context(ix, it["node"])
        if it is not None and it["kind"] == "closure":
            call = it.get("call")
            top = call
            par = ix.parent.get(id(top))
            names = []
            while par is not None and par.get("k") in ("mcall", "try") and (par.get("recv") is top or par.get("e") is top):
                if par.get("k") == "mcall":
                    names.append(par["name"])
                top = par
                par = ix.parent.get(id(par))
            if not any(nm in ("collect", "for_each", "count", "last", "sum", "fold", "try_for_each") for nm in names):
                lazy.append(e)
    ctx.inst("R07.1", "step:all-evals-in-pass", not lazy, f["span"], "%d eval_expr call(s) in step sit in an iterator adaptor that is not consumed (collect) in the evaluation pass: they would run during the commit loop" % len(lazy))
    for i, u in enumerate(ups):
        ok = okp
        ctx.inst("R07.1", "step:update#%d:after-pass" % (i + 1), ok, u["sp"], "`%s` is not preceded by the completed evaluation pass" % show(u))
    for e in evals:
        a = e["args"]
        ok = self_field(a[0], "ctx") and self_field(a[1], "data")
        ctx.inst("R07.1", "step:eval-args", ok, e["sp"], "next-state functions are not evaluated against the simulator's own context and live store: %s" % show(e))
    # (c) every value is committed to the state whose next-state function produced it
    for u in ups:
        ds = D.of(u["args"][0])
        dv = strip_opt(D.of(u["args"][1]))
        loop = norm_.iter_context(ix, u)
        ok = False
        why = "the store update is not in a loop over the computed values"
        if loop is not None and loop["kind"] == "for":
            alts, filtered = D.source(loop["src"])
            el = alts[0] if len(alts) == 1 else ("?", "chained")
            zipped = el[0] == "tuple" and len(el) == 3 and el[1] == STATES
            want_val = ("call", EVAL_EXPR, ("place", "self.ctx"), ("place", "self.data"), ("payload", ("field", STATES, "next")))
            ok = ds == ("field", STATES, "symbol") and dv == want_val and self_field(u["recv"], "data")
            why = "the committed pair is (%s, %s)" % (ds, dv)
            if ok and zipped and filtered:
                ok, why = False, "the values are zipped with the states by position but one of the two sequences skips elements: %s" % show(loop["src"])[:120]
        ctx.inst("R07.1", "step:commit-positional", ok, u["sp"], "%s: %s" % (why, show(u)), sample=show(loop["src"])[:120] if loop and loop.get("src") else None)


def init(ctx):
    f = ctx.fn("patronus", IMPL + "::init")
    ix = Index(f["body"])
    defs = local_defs(f)
    D = iterdesc.Desc(ix, defs, call_names=(EVAL_EXPR,))
    evals = [n for n in ix.nodes if is_eval(n)]
    ctx.floor("R07.2", "eval_expr calls in init", len(evals), 1)
    first_eval = min(evals, key=lambda n: ix.pre[id(n)]) if evals else None
    clears = [n for n in ix.nodes if n.get("k") == "mcall" and n["name"] == "clear" and self_field(n["recv"], "data")]
    # allocation sites: init_signal(ctx, &mut self.data, symbol, ..) or self.data.define_bv / define_array(symbol, ..)
    allocs = []
    for n in ix.nodes:
        if n.get("k") == "call" and callee(n) == INIT_SIGNAL and self_field(n["args"][1], "data"):
            allocs.append((n, n["args"][2], "both"))
        elif n.get("k") == "mcall" and n["name"] in ("define_bv", "define_array") and (callee(n) or "").startswith(STORE + "::") and self_field(n["recv"], "data"):
            allocs.append((n, n["args"][0], n["name"]))
    ctx.inst("R07.2", "init:clear", len(clears) == 1 and bool(allocs) and all(ix.dominates(clears[0], a) for a, _, _ in allocs), f["span"], "self.data.clear() must dominate the allocation of all symbols (found %d clear calls)" % len(clears))
    covered = {}
    for a, sym, kind in allocs:
        loop = norm_.iter_context(ix, a)
        if loop is None or loop["kind"] != "for":
            continue
        alts, filtered = D.source(loop["src"])
        if filtered or any(x.get("k") in ("continue", "break") for x in walk(loop["body"])):
            continue
        if first_eval is None or not ix.dominates(loop["node"], first_eval):
            continue
        depth = len(ix.regions[id(a)]) - len(ix.regions[id(loop["node"])])
        # init_signal directly in the loop body; define_bv / define_array in the two arms of the match on the generated value
        if not ((kind == "both" and depth == 1) or (kind != "both" and depth == 2)):
            continue
        d = D.of(sym)
        for which, want in (("states", ("field", STATES, "symbol")), ("inputs", INPUTS)):
            if d == want or (d[0] == "oneof" and want in d[1:]):
                covered.setdefault(which, set()).add(kind)
    for w in ("states", "inputs"):
        got = covered.get(w, set())
        ok = "both" in got or {"define_bv", "define_array"} <= got
        ctx.inst("R07.2", "init:alloc-%s" % w, ok, f["span"], "no unconditional loop allocating every element of self.sys.%s in the live store before the first init expression is evaluated" % w)
    # init expressions are evaluated against the live store, in state order, and committed to their own state right away
    ups = [n for n in ix.nodes if is_update(n) and n["name"] == "update"]
    for i, e in enumerate(evals):
        loop = norm_.iter_context(ix, e)
        ok = False
        if loop is not None and loop["kind"] == "for":
            de = D.of(e["args"][2])
            src_ok = de == ("payload", ("field", STATES, "init"))
            up_ok = False
            for u in ups:
                if not contains(loop["body"], u):
                    continue
                dv = D.of(u["args"][1])
                if D.of(u["args"][0]) == ("field", STATES, "symbol") and dv[:2] == ("call", EVAL_EXPR) and norm_.value_source(ix, defs, u["args"][1]) is e and ix.precedes(e, u) and ix.regions[id(u)] == ix.regions[id(e)]:
                    up_ok = True
            alts, _ = D.source(loop["src"])
            in_order = len(alts) == 1 and iterdesc.mentions(alts[0], STATES) and not any(m_[0] in ("rev",) for m_ in chain(loop["src"])[1])
            ok = src_ok and up_ok and in_order and self_field(e["args"][1], "data") and self_field(e["args"][0], "ctx")
        ctx.inst("R07.2", "init:eval#%d" % (i + 1), ok, e["sp"], "init expressions must be evaluated against the live store in state order and committed to their own state immediately: %s" % show(e), sample=show(e))


def snapshots(ctx):
    c = ctx.facts.lib("patronus")
    take = ctx.fn("patronus", IMPL + "::take_snapshot")
    rest = ctx.fn("patronus", IMPL + "::restore_snapshot")
    # take
    ix = Index(take["body"])
    pushes = [n for n in ix.nodes if n.get("k") == "mcall" and n["name"] == "push" and self_field(n["recv"], "snapshots")]
    ok = len(pushes) == 1
    if ok:
        a = resolve(pushes[0]["args"][0])
        ok = a.get("k") == "mcall" and a["name"] == "clone" and self_field(a["recv"], "data")
    ctx.inst("R07.3", "take_snapshot:push-clone", ok, take["span"], "take_snapshot must push exactly one clone of self.data (found: %s)" % [show(p) for p in pushes], sample=show(pushes[0]) if pushes else None)
    lens = [n for n in ix.nodes if n.get("k") == "mcall" and n["name"] == "len" and self_field(n["recv"], "snapshots")]
    # the id is the index of the pushed element: len() taken before the push, or len() - 1 taken after it
    ok = False
    if len(lens) == 1 and pushes:
        par = ix.parent.get(id(lens[0]))
        while par is not None and par.get("k") in ("blockexpr",):
            par = ix.parent.get(id(par))
        minus_one = par is not None and par.get("k") == "binary" and par["op"] == "-" and peel(par["r"]).get("v") == 1 and peel(par["l"]) is lens[0]
        ok = (ix.precedes(lens[0], pushes[0]) and not minus_one) or (ix.precedes(pushes[0], lens[0]) and minus_one)
    ctx.inst("R07.3", "take_snapshot:id", bool(ok), take["span"], "the returned id must be the snapshot list length taken before the push")
    # restore
    uses = [n for n in walk(rest["body"]) if n.get("k") == "field" and n["name"] == "snapshots"]
    assigns = [n for n in walk(rest["body"]) if n.get("k") == "assign"]
    ok = len(assigns) == 1 and self_field(assigns[0]["l"], "data")
    if ok:
        r = resolve(assigns[0]["r"])
        ok = r.get("k") == "mcall" and r["name"] == "clone"
        if ok:
            src = resolve(r["recv"])
            ok = src.get("k") == "index" and self_field(src["e"], "snapshots")
    ctx.inst("R07.3", "restore_snapshot:assign-clone", ok, rest["span"], "restore_snapshot must assign self.data = self.snapshots[id].clone(): %s" % show(rest["body"]), sample=show(rest["body"]))
    mut_uses = []
    for n, parents in walk_parents(rest["body"]):
        if n.get("k") == "field" and n["name"] == "snapshots":
            # any &mut borrow / mutable adjustment of the snapshot list or an element of it
            chain_ = [n] + list(reversed(parents))
            for a in [n] + list(parents[::-1][:3]):
                if a.get("k") == "ref" and a.get("mut"):
                    mut_uses.append(a)
                if "refmut" in (a.get("adj") or []):
                    mut_uses.append(a)
    ctx.inst("R07.3", "restore_snapshot:no-mut-access", not mut_uses and len(uses) == 1, rest["span"],
             "restore_snapshot takes mutable access to the snapshot list (%s): a swap/take leaves the slot holding other data, so a second restore of the same id yields different values" % [show(m) for m in mut_uses])
    # who touches snapshots
    allowed = {IMPL + "::take_snapshot", IMPL + "::restore_snapshot", "patronus::sim::interpreter::Interpreter::internal_new"}
    for path, fl in c.fns.items():
        if "sim::interpreter" not in path:
            continue
        for f in fl:
            touches = [n for n in walk(f["body"]) if (n.get("k") == "field" and n["name"] == "snapshots" and (n["e"].get("ty") or "").lstrip("&mut ").startswith("patronus::sim::interpreter::Interpreter"))]
            if touches or path in allowed:
                ctx.inst("R07.3", "snapshots-access:%s" % path.split("::")[-1], (not touches) or path in allowed, f["span"], "%s accesses Interpreter.snapshots" % path, nontrivial=bool(touches))
            out = f.get("output") or ""
            if "&mut" in out and ("SymbolValueStore" in out or "Vec<" in out):
                ctx.violation("R07.3", "mut-handle:%s" % path.split("::")[-1], f["span"], "%s returns a mutable reference into the simulator state: %s" % (path, out))
    # ownership of the store
    adt = c.adts.get(STORE)
    if adt is None:
        ctx.violation("R07.3", "store:missing", None, "type SymbolValueStore not found")
    else:
        bad = [(fl["name"], fl["ty"]) for v in adt["variants"] for fl in v["fields"] if any(t in fl["ty"] for t in ("Rc<", "Arc<", "RefCell<", "Cell<", "*const", "*mut", "&", "Cow<", "Mutex<"))]
        ctx.inst("R07.3", "store:owned-fields", not bad, adt["span"], "SymbolValueStore has shared-ownership fields %s: its Clone is not a deep copy" % bad, sample=[(fl["name"], fl["ty"]) for v in adt["variants"] for fl in v["fields"]])
        derived = [i for i in c.impls if i["self_ty"] == STORE and i["trait"] == "core::clone::Clone"]
        ctx.inst("R07.3", "store:derived-clone", len(derived) == 1 and derived[0]["derived"], adt["span"], "SymbolValueStore's Clone is not the derived field-wise clone")


def getset(ctx):
    g = ctx.fn("patronus", IMPL + "::get")
    b = peel(peel_block(g["body"]))
    P = {name: i for p in g["params"] for name, i in pat_bindings(p)}
    ok = is_eval(b) and self_field(b["args"][0], "ctx") and self_field(b["args"][1], "data") and is_local(b["args"][2], P.get("expr"))
    ctx.inst("R07.4", "get", ok, g["span"], "get must be eval_expr(&self.ctx, &self.data, expr): %s" % show(g["body"]), sample=show(g["body"]))
    s_ = ctx.fn("patronus", IMPL + "::set")
    calls = [n for n in walk(s_["body"]) if n.get("k") in ("mcall", "call")]
    P = {name: i for p in s_["params"] for name, i in pat_bindings(p)}
    ok = len(calls) == 1 and calls[0].get("name") == "update_bv" and self_field(calls[0]["recv"], "data") and is_local(calls[0]["args"][0], P.get("expr")) and is_local(calls[0]["args"][1], P.get("value"))
    ctx.inst("R07.4", "set", ok, s_["span"], "set must only call self.data.update_bv(expr, value): %s" % show(s_["body"]), sample=show(s_["body"]))
