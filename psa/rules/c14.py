"""C14 - SMT-LIB reader: token table vs. SMT-LIB meaning, writer∘reader identity, literal table, command table,
abort inventory on the response path."""
import re
from ..tree import *  # noqa
from .. import norm as psanorm
from ..flow import Index
from ..tables import *  # noqa
from .. import builders, semterm, fmtstr, callgraph, panics
from ..semterm import norm, fmt, Opaque
from . import c05, c09
from .c02 import binding_of_pat

Pm = "patronus::smt::parser::"

EXPLANATION = ("Static table analysis of smt::parser against smt::serialize and the SMT-LIB standard (rustc HIR facts): every operator row of parse_pattern is reduced to a builder term and compared with the operator's "
               "SMT-LIB meaning and arity class; for every variant and every operator token the writer can emit, the reader's row composed with the checked builder contract yields the same variant over the same operands "
               "(parameterised forms extract/zero_extend/sign_extend/as const and sorts included); the literal regex alternatives are paired by index with the arms that read them; the command-name tables of reader and "
               "writer compose to the identity on SmtCommand; explicit abort sites reachable from the response/expression/command readers are inventoried against a reviewed allow-list.")
ASSUMPTIONS = ["value-level equivalence of coerced forms ((ite x #b1 #b0), (= x #b1), zero-extend-of-Bool as ite) is not decided", "list-valued check-sat-assuming is read as a single expression (documented TODO in the code)",
               "baa::BitVecValue::from_bit_str / from_hex_str parse correctly"]
LEVEL_TEXT = ("Exhaustive table composition (reader row ∘ writer token = identity per variant; reader row = SMT-LIB meaning per operator) plus an abort-site inventory with a reviewed allow-list on the untrusted-input path: decides "
              "operator identity, operand order, arity class, literal forms and command names for everything the writer can emit, and that malformed text reaches an error return rather than an explicit abort."
              " Quoted symbols never reach literal/keyword recognition; let-bound names shadow declared ones; stream loops end at end of file; lexer slices are ordered.")
LEVEL_NOTE = "Oracle = SMT-LIB 2.6 operator meanings; coercion forms are equivalent-not-identical and are listed as not analysed; the ordering start <= end of the lexer's token slices is decided (state-distance fixed point), other indexing is inventoried, not proven."
TECHNIQUE = "pattern-row extraction + builder-term abstract interpretation vs. oracle; table composition with the writer; panic-site inventory over call-graph reachability; must-exit-on-EOF loop rule; least-fixed-point distance analysis of the lexer state machine"

A, B = ("arg", 0), ("arg", 1)
ORACLE = {
    "not": (("not", A), None), "bvnot": (("not", A), None), "bvneg": (("neg", A), None),
    "=": (("eq", A, B), "Chainable"), "=>": (("implies", A, B), "RightAssoc"),
    "bvugt": (("cmp", "gt", "u", A, B), "Binary"), "bvsgt": (("cmp", "gt", "s", A, B), "Binary"), "bvuge": (("cmp", "ge", "u", A, B), "Binary"), "bvsge": (("cmp", "ge", "s", A, B), "Binary"),
    "bvult": (("cmp", "gt", "u", B, A), "Binary"), "bvslt": (("cmp", "gt", "s", B, A), "Binary"), "bvule": (("cmp", "ge", "u", B, A), "Binary"), "bvsle": (("cmp", "ge", "s", B, A), "Binary"),
    "concat": (("concat", A, B), "Binary"),
    "and": (("and", A, B), "LeftAssoc"), "bvand": (("and", A, B), "LeftAssoc"), "or": (("or", A, B), "LeftAssoc"), "bvor": (("or", A, B), "LeftAssoc"),
    "xor": (("xor", A, B), "LeftAssoc"), "bvxor": (("xor", A, B), "LeftAssoc"), "bvadd": (("add", A, B), "LeftAssoc"), "bvmul": (("mul", A, B), "LeftAssoc"),
    "bvshl": (("shl", A, B), "Binary"), "bvashr": (("ashr", A, B), "Binary"), "bvlshr": (("lshr", A, B), "Binary"),
    "bvsdiv": (("sdiv", A, B), "Binary"), "bvudiv": (("udiv", A, B), "Binary"), "bvsmod": (("smod", A, B), "Binary"), "bvsrem": (("srem", A, B), "Binary"), "bvurem": (("urem", A, B), "Binary"),
    "bvsub": (("sub", A, B), "Binary"), "distinct": (("not", ("eq", A, B)), "Pairwise"),
    "select": (("select", A, B), None), "ite": (("ite", A, B, ("arg", 2)), None), "store": (("store", A, B, ("arg", 2)), None),
}
# n-ary classes the code may use for an operator: the standard's class, or plain Binary (rejecting more arguments is an error, not a wrong value)
LEFT_ASSOC_OK = {"and", "or", "xor", "bvand", "bvor", "bvxor", "bvadd", "bvmul"}


def pattern_rows(ctx):
    """rows of parse_pattern: [{head, head_binds, elems, body, arm}]"""
    f = ctx.fn("patronus", Pm + "parse_pattern")
    P = {name: i for p in f["params"] for name, i in pat_bindings(p)}
    m = find_match_on(f["body"], lambda s_: is_local(s_, P.get("pattern")))
    rows = []
    if m is None:
        return f, None
    for arm in m["arms"]:
        p = arm["pat"]
        while p.get("k") in ("pref", "pderef"):
            p = p["pat"]
        if p.get("k") != "pslice":
            rows.append({"kind": "other", "arm": arm})
            continue
        elems = p["before"]
        rest = "mid" in p
        rows.append({"kind": "slice", "elems": elems, "rest": rest, "restbind": binding_of_pat(p["mid"]) if rest and p["mid"].get("k") == "pbind" else None, "arm": arm})
    return f, rows


def head_token(e):
    """Sym(b"tok") -> ('sym', tok); ZExt(by) -> ('ZExt', [bind]) ..."""
    while e.get("k") in ("pref", "pderef"):
        e = e["pat"]
    if e.get("k") == "por":
        # `Sym(b"not") | Sym(b"bvnot")`: one row per spelling
        hs = [head_token(a) for a in e["alts"]]
        if hs and all(h[0] in ("sym", "syms") for h in hs):
            return ("syms", [t_ for h in hs for t_ in ([h[1]] if h[0] == "sym" else h[1])])
    if e.get("k") == "pvariant":
        name = e["path"].split("::")[-1]
        if name == "Sym" and e["subs"] and e["subs"][0].get("k") == "plit" and e["subs"][0].get("lk") == "bytestr":
            return ("sym", e["subs"][0]["v"])
        if name == "Sym" and e["subs"] and e["subs"][0].get("k") == "por" and all(a.get("k") == "plit" and a.get("lk") == "bytestr" for a in e["subs"][0]["alts"]):
            return ("syms", [a["v"] for a in e["subs"][0]["alts"]])
        return (name, [binding_of_pat(x) for x in e["subs"]])
    return ("?", None)


def run(ctx):
    ctx.rule("T2", "builder contract (shared)")
    ctx.rule("R14.1", "each operator row of parse_pattern builds the SMT-LIB meaning of its operator (incl. bvult/bvslt by operand swap, distinct) with an arity class the standard allows")
    ctx.rule("R14.2", "for every variant and every operator token the writer emits for it, the reader's row composed with the builder contract yields the same variant over the same operand order; parameterised forms and sorts round-trip through the pattern rows")
    ctx.rule("R14.3", "the literal regex alternatives are paired by index with the arms of early_parse_single_token: #b -> from_bit_str(text after 2 bytes), #x -> from_hex_str, true/false -> get_true/get_false")
    ctx.rule("R14.4", "parse_command's name table composed with serialize_cmd's is the identity on SmtCommand variants")
    ctx.rule("R14.5", "explicit abort sites (todo!/panic!/unreachable!, unwrap/expect, unchecked unsigned decrement) reachable from the response/expression/command readers are on the reviewed allow-list")
    t0 = T0(ctx)
    t1 = T1(ctx, t0)
    builders.check_t2(ctx, t0)
    c = ctx.facts.lib("patronus")
    f, rows = pattern_rows(ctx)
    if rows is None:
        ctx.violation("R14.1", "parse_pattern:shape", f["span"], "UNRECOGNISED: parse_pattern is not a match on its pattern slice")
        return
    defs = local_defs(f)
    reader = {}
    param_rows = {}
    type_rows = []
    rows2 = []
    for r in rows:
        if r["kind"] != "slice" or not r["elems"]:
            continue
        ht = head_token(r["elems"][0])
        if ht[0] == "syms":
            rows2 += [(r, ("sym", t_)) for t_ in ht[1]]       # Sym(b"not" | b"bvnot"): one row per spelling
        else:
            rows2.append((r, ht))
    for r, ht in rows2:
        arm = r["arm"]
        body = strip_try(peel_block(arm["body"]))
        if body.get("k") == "blockexpr" and "tail" in body["b"]:
            # `{ let a = expr(st, a)?; PExpr(ctx.op(a)) }`: evaluate the block with the payload of the result as its value
            t_ = strip_try(peel_block(body["b"]["tail"]))
            if t_.get("k") == "ctor" and callee(t_).endswith("ParserItem::PExpr") and len(t_["args"]) == 1:
                inner = dict(body, b=dict(body["b"], tail=t_["args"][0]))
                body = dict(t_, args=[inner])
        if ht[0] == "sym":
            tok = ht[1]
            if r["rest"]:
                # bin_op(st, "name", args, |a, b| <term>, Kind)
                if not (body.get("k") == "call" and callee(body) == Pm + "bin_op" and r["restbind"] and is_local(body["args"][2], r["restbind"][1])):
                    ctx.violation("R14.1", "row:%s" % tok, arm["sp"], "UNRECOGNISED n-ary row for `%s`: %s" % (tok, show(body)[:100]))
                    continue
                cl = peel(body["args"][3])
                kind = peel(body["args"][4])
                kname = (kind.get("path") or "").split("::")[-1]
                ps = [binding_of_pat(p) for p in cl["params"]]
                env = {ps[0][1]: A, ps[1][1]: B}
                ex = semterm.Extractor(defs, lambda n, e_: None)
                try:
                    term = ex.ev(cl["body"], env)
                except Opaque as e:
                    ctx.violation("R14.1", "row:%s" % tok, arm["sp"], "UNRECOGNISED lowering of `%s` (%s)" % (tok, e.why))
                    continue
                reader[tok] = (term, kname, arm)
            else:
                # fixed arity: remaining elems are PExpr(x) or bare bindings passed through expr(st, e)?
                names = {}
                ok_shape = True
                for j, el in enumerate(r["elems"][1:]):
                    h = head_token(el)
                    if h[0] == "PExpr" and h[1] and h[1][0]:
                        names[h[1][0][1]] = ("arg", j)
                    elif el.get("k") == "pbind":
                        names[el["id"]] = ("arg", j)
                    elif h[0] == "sym":
                        pass
                    else:
                        ok_shape = False
                heads = [head_token(el) for el in r["elems"]]
                if all(h[0] == "sym" for h in heads[:2]) and len(heads) >= 2 and heads[0][1] in ("_", "as", "Array") or heads[0][1] in ("_", "as", "Array"):
                    param_rows[tuple(h[1] if h[0] == "sym" else h[0] for h in heads)] = (r, arm)
                    continue
                if body.get("k") != "ctor" or not callee(body).endswith("ParserItem::PExpr"):
                    continue

                def leaf(n, e_):
                    if n.get("k") == "call" and callee(n) == Pm + "expr":
                        a = peel(n["args"][1])
                        if a.get("k") == "local" and a["id"] in names:
                            return names[a["id"]]
                    if n.get("k") == "local" and n["id"] in names:
                        return names[n["id"]]
                    return None
                ex = semterm.Extractor(defs, leaf)
                try:
                    term = ex.ev(body["args"][0], {})
                except Opaque as e:
                    ctx.violation("R14.1", "row:%s" % tok, arm["sp"], "UNRECOGNISED lowering of `%s` (%s: %s)" % (tok, e.why, show(e.node)[:60]))
                    continue
                reader[tok] = (term, None, arm)
        elif ht[0] in ("ZExt", "SExt", "Extract", "AsConst"):
            param_rows[(ht[0],)] = (r, arm)
        elif ht[0] == "Let":
            pass
    table_driven_rows(ctx, c, f, reader)
    ctx.floor("R14.1", "operator rows of parse_pattern", len(reader), 33)
    for tok, (term, kname, arm) in sorted(reader.items()):
        want = ORACLE.get(tok)
        if want is None:
            ctx.violation("R14.1", "row:%s" % tok, arm["sp"], "the reader accepts operator `%s`, which has no row in the SMT-LIB oracle" % tok)
            continue
        ok = norm(term) == norm(want[0])
        ctx.inst("R14.1", "row:%s" % tok, ok, arm["sp"], "SMT-LIB `%s` is read as %s, the standard defines it as %s" % (tok, fmt(norm(term)), fmt(norm(want[0]))), sample={"operator": tok, "read_as": fmt(term), "arity": kname})
        if kname is not None:
            okk = kname == want[1] or kname == "Binary" or (kname == "LeftAssoc" and tok in LEFT_ASSOC_OK)
            if kname == "LeftAssoc" and tok not in LEFT_ASSOC_OK:
                okk = False
            ctx.inst("R14.1", "row:%s:arity" % tok, okk, arm["sp"], "`%s` is folded as %s; SMT-LIB declares it %s" % (tok, kname, want[1]))
    binop(ctx)
    roundtrip(ctx, c, t0, t1, reader, param_rows, defs)
    literals(ctx, c)
    commands(ctx, c)
    symbol_binding(ctx)
    aborts(ctx)
    stream_loops(ctx)
    lexer_slices(ctx)
    quoted_symbols(ctx, c)
    let_shadowing(ctx, c)
    quoted_symbol_end(ctx, c)


def quoted_symbol_end(ctx, c):
    """R14.11: SMT-LIB has no escape inside `|..|`: a quoted symbol ends at the next bar, whatever precedes it.  The writer puts names between bars
    verbatim, so a lexer that lets some bars pass (after a backslash, say) does not read back a name that ends in that character."""
    ctx.rule("R14.11", "in the lexer state for a quoted symbol the token ends under exactly one condition, the current byte being `|`")
    found = 0
    for path, fl in sorted(c.fns.items()):
        if not path.startswith(("<" + Pm + "Lexer", Pm + "Lexer")):
            continue
        f = fl[0]
        ix = Index(f["body"])
        for m in ix.nodes:
            if m.get("k") != "match":
                continue
            for arm in m["arms"]:
                if not any(q.get("k") == "pvariant" and str(q.get("path", "")).endswith("LexState::ParsingEscapedToken") for q in walk(arm["pat"])):
                    continue
                for site in [x for x in walk(arm["body"]) if x.get("k") == "ctor" and callee(x).endswith("Token::EscapedValue")]:
                    found += 1
                    conds = psanorm.path_conditions(ix, site, upto=m, arms=True)
                    extra, bar = [], False
                    for c_, pol in conds:
                        if c_.get("k") == "armpat":
                            alts = pat_alts(c_["pat"])
                            if pol and alts and all(a_.get("k") == "plit" and a_.get("v") in (124, "|") for a_ in alts):
                                bar = True
                                continue
                            if any(q.get("k") == "pvariant" and str(q.get("path", "")).endswith("LexState::ParsingEscapedToken") for q in walk(c_["pat"])):
                                continue
                            extra.append(("" if pol else "!") + "match " + show(c_["scrut"])[:30])
                            continue
                        c0 = resolve(c_)
                        if pol and c0.get("k") == "binary" and c0["op"] == "==" and any(peel(x_).get("k") == "lit" and peel(x_).get("v") in (124, "|") for x_ in (c0["l"], c0["r"])):
                            bar = True
                            continue
                        extra.append(("" if pol else "!") + show(c0)[:50])
                    ctx.inst("R14.11", "%s:quoted-symbol-ends-at-bar#%d" % (path.split("::")[-1], found), bar and not extra, site["sp"],
                             "a quoted symbol ends at the next `|`; here the token ends only if also %s: the writer emits names between bars verbatim, so a name for which this extra condition fails at its closing bar is not read back" % extra,
                             sample={"conditions": [("" if p_ else "!") + (show(c_)[:40] if c_.get("k") != "armpat" else "armpat") for c_, p_ in conds]})
    ctx.floor("R14.11", "sites that end a quoted symbol", found, 1)


def let_shadowing(ctx, c):
    """R14.10: "let-bound sub-terms are read as exactly the values they denote": inside `(let ((x v)) body)` the name x means v even when a
    declared symbol is called x too, i.e. the table that push_let writes is consulted before any other"""
    ctx.rule("R14.10", "NestedSymbolTable::get consults the table written by push_let first and falls back to the declared symbols only when the name is not let-bound")
    NST = Pm + "NestedSymbolTable::"
    g, pl = ctx.fn_opt("patronus", NST + "get"), ctx.fn_opt("patronus", NST + "push_let")
    if g is None or pl is None:
        ctx.inst("R14.10", "lookup-order", False, None, "UNRECOGNISED: NestedSymbolTable::get / push_let not found", nontrivial=False)
        return
    written = set()
    for n in walk(pl["body"]):
        if n.get("k") == "mcall" and n["name"] in ("insert", "push", "entry"):
            fp = field_path(n["recv"])
            if fp and fp[0] == "self" and len(fp[2]) == 1:
                written.add(fp[2][0])
    # the order in which `get` consults the fields of self: receivers of look-ups (`get`, `contains_key`, indexing) in evaluation order;
    # a look-up inside `or_else(|| ..)` / `unwrap_or_else` / the None arm of a match runs after the one it hangs on
    order = []
    gix = Index(g["body"])
    for n in gix.nodes:
        if n.get("k") == "mcall" and n["name"] in ("get", "get_mut", "contains_key") and len(n.get("args", [])) == 1:
            fp = field_path(n["recv"])
            if fp and fp[0] == "self" and len(fp[2]) == 1:
                order.append((gix.pre[id(n)] if hasattr(gix, "pre") else 0, fp[2][0], n))
    # evaluation order: a look-up that is (inside) an argument of a method called on another look-up comes second
    def runs_after(a, b):
        """look-up a is evaluated only after look-up b answered (a sits in an argument / closure of a call whose receiver chain contains b)"""
        for anc in gix.ancestors(a):
            if anc.get("k") == "mcall" and contains(anc["recv"], b) and not contains(anc["recv"], a):
                return True
            if anc.get("k") == "match" and contains(anc["scrut"], b) and not contains(anc["scrut"], a):
                return True
            if anc.get("k") == "if" and contains(anc["cond"], b) and not contains(anc["cond"], a):
                return True
        return False
    lets_first = None
    let_lookups = [n for _, fld, n in order if fld in written]
    other_lookups = [n for _, fld, n in order if fld not in written]
    if let_lookups and other_lookups:
        lets_first = all(runs_after(o, l) for o in other_lookups for l in let_lookups[:1]) and not any(runs_after(l, o) for l in let_lookups for o in other_lookups)
    ctx.inst("R14.10", "lookup-order", lets_first is True, g["span"],
             "NestedSymbolTable::get looks a name up in %s before %s (push_let writes %s): a let-bound name that is also a declared symbol is read as the declared symbol, not as the value the let gives it" % (
                 [fld for _, fld, _ in order][:1], sorted(written), sorted(written)), sample={"consulted": [fld for _, fld, _ in order], "let table": sorted(written)})


def quoted_symbols(ctx, c):
    """R14.9: the text of a quoted symbol `|..|` is a name whatever it looks like (`|true|`, `|#b01|`, `|let|` are symbols): it must never reach the
    literal / keyword recognition (the function that consults the literal regex set)"""
    ctx.rule("R14.9", "the payload of Token::EscapedValue never flows into the literal/keyword recognition (the function consulting NUM_LIT_REGEX): quoted symbols are resolved as symbols only")
    recognisers = set()
    for p, fl in c.fns.items():
        if p.startswith(Pm) and "__static_ref_initialize" not in p and "NUM_LIT_REGEX" not in p:
            if any("NUM_LIT_REGEX" in (x.get("path") or "") or "NUM_LIT_REGEX" in (callee(x) or "") for x in walk(fl[0]["body"])):
                recognisers.add(p)
    ctx.inst("R14.9", "recogniser", len(recognisers) >= 1, None, "UNRECOGNISED: no function of smt::parser consults NUM_LIT_REGEX", sample=sorted(recognisers), nontrivial=False)
    n = 0
    for p, fl in sorted(c.fns.items()):
        if not p.startswith(Pm):
            continue
        f = fl[0]
        per = 0
        for m in walk(f["body"]):
            if m.get("k") != "match":
                continue
            for arm in m["arms"]:
                bound = set()
                for alt in pat_alts(arm["pat"]):
                    for v in walk(alt):
                        if v.get("k") == "pvariant" and v.get("path", "").endswith("Token::EscapedValue"):
                            bound |= {i_ for _, i_ in pat_bindings(v)}
                if not bound:
                    continue
                n += 1
                per += 1
                # the payload and its plain copies
                names = set(bound)
                for _ in range(3):
                    for st in walk(arm["body"]):
                        if st.get("k") == "let" and "init" in st and st["pat"].get("k") == "pbind" and peel(st["init"]).get("k") == "local" and peel(st["init"])["id"] in names:
                            names.add(st["pat"]["id"])
                bad = [x for x in walk(arm["body"]) if x.get("k") in ("call", "mcall") and (callee(x) or "") in recognisers
                       and any(peel(a_).get("k") == "local" and peel(a_)["id"] in names for a_ in call_args(x))]
                ctx.inst("R14.9", "%s:EscapedValue#%d" % (p.split("::")[-1], per), not bad, arm.get("sp") or m.get("sp"),
                         "%s hands the text of a quoted symbol to %s, which recognises literals and keywords: `|true|`, `|#b01|` or `|let|` would be read as a value / keyword instead of the symbol of that name" % (
                             p, sorted({callee(x) for x in bad})), sample=show(arm["body"])[:120])
    ctx.floor("R14.9", "arms binding the text of a quoted symbol", n, 3)


def table_driven_rows(ctx, c, f, reader):
    """n-ary operators dispatched through two tables instead of one arm each: a look-up `symbol -> (operation, .., arity class)` in parse_pattern
    and an `operation -> builder term` match in bin_op.  Their composition gives the same rows (operator -> term over (A, B), arity class)."""
    lookup = None
    for n in walk(f["body"]):
        if n.get("k") == "match" and n.get("src", "match") == "match":
            lits = [alt for arm in n["arms"] for alt in pat_alts(arm["pat"]) if alt.get("k") == "plit" and alt.get("lk") == "bytestr"]
            if len(lits) >= 10 and (lookup is None or len(lits) > lookup[1]):
                lookup = (n, len(lits))
    if lookup is None:
        return
    calls = [n for n in walk(f["body"]) if n.get("k") == "call" and callee(n) == Pm + "bin_op"]
    g = ctx.fn_opt("patronus", Pm + "bin_op")
    if not calls or g is None:
        return
    # bin_op's operation table: a match on a local whose arms are builder terms over the two operands of the fold
    gx = Index(g["body"])
    folds = [n for n in gx.nodes if n.get("k") == "mcall" and n["name"] in ("fold", "reduce") and n["args"] and resolve(n["args"][-1]).get("k") == "closure" and len(resolve(n["args"][-1])["params"]) == 2]
    if len(folds) != 1:
        return
    cl = resolve(folds[0]["args"][-1])
    pa, pb = [pat_bindings(p_) for p_ in cl["params"]]
    if len(pa) != 1 or len(pb) != 1:
        return
    acc_id, b_id = pa[0][1], pb[0][1]
    optab = None
    for n in walk(cl["body"]):
        if n.get("k") == "match" and n.get("src", "match") == "match" and len(n["arms"]) >= 10 and all(alt.get("k") in ("pvariant", "pconst", "ppath") for arm in n["arms"] for alt in pat_alts(arm["pat"])):
            optab = n
    if optab is None:
        return

    def leaf(n, e_):
        if n.get("k") == "local" and canon(n["id"]) == canon(acc_id):
            return A
        if n.get("k") == "local" and canon(n["id"]) == canon(b_id):
            return B
        return None
    gdefs = local_defs(g)
    terms = {}
    for arm in optab["arms"]:
        for alt in pat_alts(arm["pat"]):
            ex = semterm.Extractor(gdefs, leaf)
            try:
                terms[alt.get("path")] = ex.ev(arm["body"], {})
            except Opaque as e:
                terms[alt.get("path")] = ("?opaque", e.why)
    for arm in lookup[0]["arms"]:
        for alt in pat_alts(arm["pat"]):
            if not (alt.get("k") == "plit" and alt.get("lk") == "bytestr"):
                continue
            tok = alt["v"]
            leafv = peel(psanorm.tail_value(arm["body"]))
            comps = leafv["es"] if leafv.get("k") == "tuple" else [leafv]
            opv = kname = None
            for x in comps:
                x = peel(x)
                if x.get("k") == "def" and str(x.get("dk", "")).startswith("ctor"):
                    if "::NAry::" in x["path"]:
                        kname = x["path"].split("::")[-1]
                    elif x["path"] in terms:
                        opv = x["path"]
            if opv is None or kname is None:
                ctx.violation("R14.1", "row:%s" % tok, arm.get("sp"), "UNRECOGNISED table row for `%s`: %s" % (tok, show(leafv)[:80]))
                continue
            t = terms[opv]
            if isinstance(t, tuple) and t and t[0] == "?opaque":
                ctx.violation("R14.1", "row:%s" % tok, arm.get("sp"), "UNRECOGNISED lowering of `%s` (%s)" % (tok, t[1]))
                continue
            reader.setdefault(tok, (t, kname, arm))


def binop(ctx):
    """bin_op: LeftAssoc reduces left-to-right over the arguments in order; other classes apply op(a, b) to exactly two"""
    f = ctx.fn("patronus", Pm + "bin_op")
    ix = Index(f["body"])
    defs = local_defs(f)
    if fold_form(ctx, f, ix, defs):
        return
    pid = param_ids(f) + [None] * 5
    p_st, p_args, p_op, p_nary = pid[0], pid[2], pid[3], pid[4]         # bin_op(st, name, args, op, n_ary)
    regions = psanorm.enum_regions(f["body"], p_nary, Pm + "NAry::")

    def converts(e, elem_id):
        """e is expr(st, <elem>) (through `?` and lets)"""
        e = strip_try(resolve(strip_try(e)))
        return e.get("k") == "call" and callee(e) == Pm + "expr" and is_local(e["args"][0], p_st) and is_local(e["args"][1], elem_id)

    def converted_args(e):
        """e is the list of all arguments, each converted with expr(st, a), in order"""
        el = psanorm.elementwise(ix, defs, e)
        if el is None:
            return False
        b_, ms_ = chain(el["src"])
        eb = pat_bindings(el["pat"])
        in_order = is_local(b_, p_args) and [m[0] for m in ms_] in (["iter"], ["into_iter"], [])
        return in_order and len(eb) == 1 and converts(psanorm.tail_value(el["elem"]) if el["form"] == "map" else el["elem"], eb[0][1])
    ok = False
    left = regions.get("LeftAssoc") if regions else None
    if left:
        for n in left:
            # form A: <converted args>.into_iter().reduce(op)
            if n.get("k") == "mcall" and n["name"] == "reduce" and is_local(n["args"][0], p_op):
                b_, ms_ = chain(n["recv"])
                if [m[0] for m in ms_] in (["into_iter"], ["iter", "copied"], ["iter", "cloned"]) and converted_args(b_):
                    ok = True
            # form B: acc = first; for x in rest { acc = op(acc, x) }
            if n.get("k") == "assign" and peel(n["l"]).get("k") == "local":
                acc = peel(n["l"])["id"]
                r = peel(n["r"])
                lp = ix.enclosing(n, ("for",))
                if r.get("k") == "callv" and is_local(r["f"], p_op) and len(r["args"]) == 2 and is_local(r["args"][0], acc) and lp is not None:
                    lb = pat_bindings(lp["pat"])
                    it = peel(lp["iter"])
                    acc_init = simple_let_init(defs, acc)
                    ab, ams = chain(acc_init) if acc_init is not None else ({}, [])
                    if len(lb) == 1 and is_local(r["args"][1], lb[0][1]) and it.get("k") == "local" and is_local(ab, it["id"]) and [m[0] for m in ams] in (["next", "unwrap"], ["next", "expect"]):
                        it_init = simple_let_init(defs, it["id"])
                        ib, ims = chain(it_init) if it_init is not None else ({}, [])
                        if [m[0] for m in ims] == ["into_iter"] and converted_args(ib) and len(ix.regions[id(n)]) == len(ix.regions[id(lp)]) + 1:
                            ok = True
    if left and not ok:
        # form D: `let mut it = <converted args>.into_iter(); let first = it.next().unwrap(); it.fold(first, op)` - reduce written out
        for n in left:
            if n.get("k") == "mcall" and n["name"] == "fold" and len(n["args"]) == 2 and is_local(n["args"][1], p_op) and peel(n["recv"]).get("k") == "local" and peel(n["args"][0]).get("k") == "local":
                it_id = peel(n["recv"])["id"]
                f_init = simple_let_init(defs, peel(n["args"][0])["id"])
                fb, fms = chain(f_init) if f_init is not None else ({}, [])
                it_init = simple_let_init(defs, it_id)
                ib, ims = chain(it_init) if it_init is not None else ({}, [])
                if is_local(fb, it_id) and [m[0] for m in fms] in (["next", "unwrap"], ["next", "expect"]) and [m[0] for m in ims] == ["into_iter"] and converted_args(ib) \
                        and ix.precedes(defs[peel(n["args"][0])["id"]][1], n):
                    ok = True
    if left and not ok:
        # form C: `[first, rest @ ..]` on the arguments; acc = expr(first); for x in <rest, each converted, in order> { acc = op(acc, x) }
        def slice_parts():
            """(id bound to the first argument, id bound to the remaining arguments) from a slice pattern on the argument list"""
            for n in left:
                pats = []
                if n.get("k") == "match" and is_local(n["scrut"], p_args):
                    pats = [arm["pat"] for arm in n["arms"]]
                elif n.get("k") in ("letexpr", "let") and "init" in n and is_local(n["init"], p_args):
                    pats = [n["pat"]]
                for p_ in pats:
                    while p_.get("k") in ("pref", "pderef"):
                        p_ = p_["pat"]
                    if p_.get("k") == "pslice" and len(p_["before"]) == 1 and "mid" in p_ and not p_.get("after"):
                        fb, rb = binding_of_pat(p_["before"][0]), binding_of_pat(p_["mid"])
                        if fb and rb:
                            yield fb[1], rb[1]

        def rest_converted(e, rest_id, depth=0):
            """e enumerates expr(st, x) for every x of `rest`, in order"""
            b_, ms_ = chain(e)
            if [m[0] for m in ms_] not in ([], ["iter"], ["into_iter"], ["iter", "copied"], ["iter", "cloned"]) or peel(b_).get("k") != "local" or depth > 2:
                return False
            bl = psanorm.built_by_loop(ix, defs, peel(b_)["id"])
            if bl is not None:
                it, pat, el, lp = bl
                ib, ims = chain(it)
                eb = pat_bindings(pat)
                return is_local(ib, rest_id) and [m[0] for m in ims] in ([], ["iter"], ["into_iter"]) and len(eb) == 1 and converts(el, eb[0][1])
            el = psanorm.elementwise(ix, defs, b_)
            if el is not None:
                ib, ims = chain(el["src"])
                eb = pat_bindings(el["pat"])
                return is_local(ib, rest_id) and [m[0] for m in ims] in ([], ["iter"], ["into_iter"]) and len(eb) == 1 \
                    and converts(psanorm.tail_value(el["elem"]) if el["form"] == "map" else el["elem"], eb[0][1])
            return False
        for first_id, rest_id in slice_parts():
            for n in left:
                if n.get("k") == "assign" and peel(n["l"]).get("k") == "local":
                    acc = peel(n["l"])["id"]
                    r = peel(n["r"])
                    lp = ix.enclosing(n, ("for",))
                    if not (r.get("k") == "callv" and is_local(r["f"], p_op) and len(r["args"]) == 2 and is_local(r["args"][0], acc) and lp is not None):
                        continue
                    lb = pat_bindings(lp["pat"])
                    acc_init = simple_let_init(defs, acc)
                    uncond = len(ix.regions[id(n)]) == len(ix.regions[id(lp)]) + 1 and not any(x.get("k") in ("break", "continue") for x in walk(lp["body"]))
                    others = [x for x in ix.nodes if x.get("k") == "assign" and is_local(x["l"], acc) and x is not n]
                    if len(lb) == 1 and acc_init is not None and converts(acc_init, first_id) and uncond and not others:
                        ib, ims = chain(lp["iter"])
                        direct = is_local(ib, rest_id) and [m[0] for m in ims] in ([], ["iter"], ["into_iter"]) and converts(r["args"][1], lb[0][1])
                        if direct or (is_local(r["args"][1], lb[0][1]) and rest_converted(lp["iter"], rest_id)):
                            ok = True
    ctx.inst("R14.1", "bin_op:left-assoc-fold", ok, f["span"], "left-associative operators must be folded left to right over the arguments in order")
    ok2 = False
    other = regions.get("other") if regions else None
    for n in (other or []):
        # a two-element slice pattern on the arguments: match arm or if-let
        pats = []
        if n.get("k") == "match" and is_local(n["scrut"], p_args):
            pats = [(arm["pat"], arm["body"]) for arm in n["arms"]]
        elif n.get("k") == "if" and peel(n["cond"]).get("k") == "letexpr" and is_local(peel(n["cond"])["init"], p_args):
            pats = [(peel(n["cond"])["pat"], n["then"])]
        elif n.get("k") == "let" and "els" in n and "init" in n and is_local(n["init"], p_args):
            # `let [lhs, rhs] = args else { return Err(TooManyArgs) };`: the rest of the region runs under the pattern
            pats = [(n["pat"], [x for x in other if id(x) in ix.pre and ix.precedes(n, x)])]
        for p, body in pats:
            while p.get("k") in ("pref", "pderef"):
                p = p["pat"]
            if p.get("k") == "pslice" and len(p["before"]) == 2 and "mid" not in p and not p.get("after"):
                a, b = [binding_of_pat(x) for x in p["before"]]
                calls = list({id(x): x for x in (body if isinstance(body, list) else walk(body)) if x.get("k") == "callv" and is_local(x["f"], p_op)}.values())
                if a and b and len(calls) == 1 and len(calls[0]["args"]) == 2 and converts(calls[0]["args"][0], a[1]) and converts(calls[0]["args"][1], b[1]):
                    ok2 = True
    ctx.inst("R14.1", "bin_op:binary-order", ok2, f["span"], "binary operators must apply op to (first argument, second argument)")


def fold_form(ctx, f, ix, defs):
    """the table-driven bin_op: every argument converted in order, then `rest.iter().fold(first, |acc, b| OP(acc, b))`; more than two arguments
    are rejected unless the class is LeftAssoc, fewer than two always.  Returns True when this form was recognised (and judged)."""
    folds = [n for n in ix.nodes if n.get("k") == "mcall" and n["name"] == "fold" and len(n["args"]) == 2 and resolve(n["args"][1]).get("k") == "closure"]
    if len(folds) != 1:
        return False
    fo = folds[0]
    P = {name: i for p in f["params"] for name, i in pat_bindings(p)}
    p_args = next((i for p in f["params"] for name, i in pat_bindings(p) if "[" in (p.get("ty") or "") and "ParserItem" in (p.get("ty") or "")), None)
    p_nary = next((i for p in f["params"] for name, i in pat_bindings(p) if (p.get("ty") or "").endswith("NAry")), None)
    p_st = next((i for p in f["params"] for name, i in pat_bindings(p) if "SymbolTable" in (p.get("ty") or "")), None)
    if p_args is None or p_nary is None:
        return False
    # rest / first come from split_first() of the vector of converted arguments
    rb, rms = chain(fo["recv"])
    rest = peel(rb)
    first = peel(fo["args"][0])
    src = None
    for n in ix.nodes:
        if n.get("k") == "let" and "init" in n and n["pat"].get("k") == "ptuple" and len(n["pat"]["subs"]) == 2:
            b0 = pat_bindings(n["pat"]["subs"][0])
            b1 = pat_bindings(n["pat"]["subs"][1])
            ib, ims = chain(n["init"])
            if len(b0) == 1 and len(b1) == 1 and [m_[0] for m_ in ims][:1] == ["split_first"] and is_local(first, b0[0][1]) and is_local(rest, b1[0][1]):
                src = ib
    ok_src = False
    if src is not None and peel(src).get("k") == "local":
        # the vector: one expr(st, arg)? per element of args, in order
        vid = peel(src)["id"]
        bl = psanorm.built_by_loop(ix, defs, vid)
        if bl is not None:
            it, pat, el, lp = bl
            ib, ims = chain(it)
            eb = pat_bindings(pat)
            e0 = strip_try(resolve(strip_try(el)))
            ok_src = is_local(ib, p_args) and [m_[0] for m_ in ims] in ([], ["iter"], ["into_iter"]) and len(eb) == 1 and e0.get("k") == "call" and callee(e0) == Pm + "expr" \
                and is_local(e0["args"][1], eb[0][1]) and (p_st is None or is_local(e0["args"][0], p_st))
        else:
            el = psanorm.elementwise(ix, defs, src)
            if el is not None:
                ib, ims = chain(el["src"])
                eb = pat_bindings(el["pat"])
                e0 = strip_try(resolve(strip_try(psanorm.tail_value(el["elem"]) if el["form"] == "map" else el["elem"])))
                ok_src = is_local(ib, p_args) and len(eb) == 1 and e0.get("k") == "call" and callee(e0) == Pm + "expr" and is_local(e0["args"][1], eb[0][1])
    in_order = [m_[0] for m_ in rms] in (["iter"], ["iter", "copied"], ["iter", "cloned"], ["into_iter"])
    # the closure applies the operation to (accumulator, next argument) - the operand order inside is judged row by row against the oracle
    cl = resolve(fo["args"][1])
    ok_cl = len(cl["params"]) == 2
    ctx.inst("R14.1", "bin_op:left-assoc-fold", ok_src and in_order and ok_cl, f["span"], "left-associative operators must be folded left to right over the arguments in order")
    # classes other than LeftAssoc: exactly two arguments, i.e. more than two are rejected before the fold
    guards = []
    for cnd, pol in psanorm.path_conditions(ix, fo):
        if pol:
            continue
        txt = show(cnd)
        has_nary = any(x.get("k") == "local" and canon(x["id"]) == canon(p_nary) for x in walk(resolve(cnd))) and "NAry::LeftAssoc" in txt
        has_gt2 = any(x.get("k") == "binary" and x["op"] in (">", ">=") and peel(x["r"]).get("v") in (2, 3) for x in walk(resolve(cnd)))
        if has_nary and has_gt2 and resolve(cnd).get("k") == "binary" and resolve(cnd)["op"] == "&&":
            guards.append(cnd)
    ctx.inst("R14.1", "bin_op:binary-order", ok_src and in_order and len(guards) == 1, f["span"], "binary operators must apply op to (first argument, second argument): more than two arguments must be rejected unless the operator is left-associative")
    return True


def roundtrip(ctx, c, t0, t1, reader, param_rows, defs):
    f = ctx.fn("patronus", c05.S + "serialize_expr")
    model = c05.extract_model(core_shadow(ctx), c, f, t0)
    if model is None:
        ctx.violation("R14.2", "writer-model", f["span"], "UNRECOGNISED: the writer's token table could not be extracted")
        return
    n = 0
    for vn, info in t0.variants.items():
        if not info["child_keys"]:
            continue
        want = c09.canonical(vn, t0, t1)
        rows = model["table"].get(vn, {}).get("rows", [])
        toks = sorted({c05.token_of(r["fmt"]) for r in rows if r["fmt"] and c05.token_of(r["fmt"])})
        for tok in toks:
            if vn == "BVZeroExt" and tok == "ite":
                ctx.skipped("R14.2 BVZeroExt of a Bool is written as (ite c #b0..1 #b0..0): read back as an equivalent ite, not the same node")
                continue
            n += 1
            if tok in ("zero_extend", "sign_extend", "extract", "as const"):
                ok, why = param_form(ctx, tok, param_rows, want, defs)
                ctx.inst("R14.2", "roundtrip:%s:%s" % (vn, tok), ok, model["table"][vn]["sp"], "%s written with `%s` is not read back as the same node: %s" % (vn, tok, why), sample={"variant": vn, "token": tok})
                continue
            r = reader.get(tok)
            if r is None:
                ctx.inst("R14.2", "roundtrip:%s:%s" % (vn, tok), False, model["table"][vn]["sp"], "the writer emits `%s` for %s but the reader has no row for it" % (tok, vn))
                continue
            got = c09.subst(r[0], {("arg", i): "c%d" % i for i in range(3)})
            ok = norm(got) == norm(want)
            ctx.inst("R14.2", "roundtrip:%s:%s" % (vn, tok), ok, r[2]["sp"], "%s is written as `%s` and read back as %s, expected %s" % (vn, tok, fmt(norm(got)), fmt(norm(want))), sample={"variant": vn, "token": tok, "read_back": fmt(got)})
    ctx.floor("R14.2", "writer tokens composed with the reader", n, 34)
    # sorts
    ok_bv = False
    ok_arr = False
    for key, (r, arm) in param_rows.items():
        b = show(arm["body"]).replace(" ", "")
        if key == ("_", "BitVec", "Sym"):
            wb = head_token(r["elems"][2])[1][0]
            ok_bv = "Type::BV(parser::parse_width(%s)?)" % wb[0] in b
        if key[0] == "Array":
            # `[Sym(b"Array"), PType(BV(i)), PType(BV(d))] => ArrayType { index_width: i, data_width: d }`: by position in the pattern and by field name
            # in the struct literal (the order in which the fields are written does not matter)
            els = r["elems"]
            pos_b = [pat_bindings(e_) for e_ in els[1:3]] if len(els) == 3 else []
            st = [x for x in walk(arm["body"]) if x.get("k") == "struct" and x["path"].endswith("ArrayType")]
            ok_arr = False
            if len(pos_b) == 2 and all(len(b_) == 1 for b_ in pos_b) and len(st) == 1:
                fs = {f_["name"]: f_["e"] for f_ in st[0]["fields"]}
                ok_arr = set(fs) == {"index_width", "data_width"} and is_local(fs["index_width"], pos_b[0][0][1]) and is_local(fs["data_width"], pos_b[1][0][1])
    ctx.inst("R14.2", "sort:(_ BitVec w)", ok_bv, None, "`(_ BitVec w)` must be read as Type::BV(w)")
    ctx.inst("R14.2", "sort:(Array I D)", ok_arr, None, "`(Array I D)` must be read as ArrayType{index_width: I, data_width: D} in that order")
    g = ctx.fn("patronus", Pm + "early_parse_single_token")
    gv = (param_ids(g) + [None] * 3)[2]          # early_parse_single_token(ctx, st, value)
    disp = psanorm.literal_dispatch(g["body"], gv)
    rb = psanorm.result_value(disp["Bool"]) if "Bool" in disp else {}
    tb = peel(rb["args"][0]) if rb.get("k") == "ctor" and callee(rb).endswith("ParserItem::PType") and rb.get("args") else {}
    okb = tb.get("k") == "ctor" and callee(tb).endswith("Type::BV") and len(tb["args"]) == 1 and peel(tb["args"][0]).get("v") == 1
    ctx.inst("R14.2", "sort:Bool", okb, g["span"], "`Bool` must be read as Type::BV(1)")


class core_shadow:
    """a Ctx look-alike that swallows the writer model's own rule instances (they are C05's); anchors still resolve"""

    def __init__(self, ctx):
        self._c = ctx
        self.facts = ctx.facts
        self.tier = ctx.tier

    def inst(self, *a, **k):
        return True

    def violation(self, *a, **k):
        return False

    def floor(self, *a, **k):
        pass

    def fn(self, *a, **k):
        return self._c.fn(*a, **k)

    def fn_opt(self, *a, **k):
        return self._c.fn_opt(*a, **k)

    def skipped(self, *a):
        pass

    def note(self, *a):
        pass


def param_form(ctx, tok, param_rows, want, defs):
    """((_ zero_extend by) e) etc.: the head row builds the parameter item from the parameter tokens in order (each through parse_width) and the
    application row builds the node from the item's payload in order and the operand.  Both rows are evaluated (lets, blocks), not compared as text."""
    heads = {"zero_extend": ("ZExt", ("_", "zero_extend", "Sym"), "zext"), "sign_extend": ("SExt", ("_", "sign_extend", "Sym"), "sext"),
             "extract": ("Extract", ("_", "extract", "Sym", "Sym"), "extract"), "as const": ("AsConst", ("as", "const", "PType"), "constarray")}
    item, key, tname = heads[tok]
    hr = param_rows.get(key)
    ar = param_rows.get((item,))
    if hr is None or ar is None:
        return False, "reader rows for `%s` not found (%s)" % (tok, sorted(param_rows))
    hrow, harm = hr
    arow, aarm = ar
    shown = "%s / %s" % (show(harm["body"]).replace(" ", "")[:90], show(aarm["body"]).replace(" ", "")[:90])

    def value_of(body):
        """the expression an arm yields, with its immutable lets substituted"""
        b = strip_try(peel_block(body))
        for _ in range(4):
            if b.get("k") == "blockexpr" and "tail" in b["b"]:
                b = strip_try(peel_block(b["b"]["tail"]))
        return b
    # the head row: Item(parse_width(tok_2)?, parse_width(tok_3)?) / AsConst(*tpe) with tpe bound by PType(Type::Array(tpe))
    hv = value_of(harm["body"])
    if not (hv.get("k") == "ctor" and callee(hv).endswith("ParserItem::" + item)):
        return False, shown
    tokb = []
    for el in hrow["elems"][2:]:
        bs = pat_bindings(el)
        if len(bs) != 1:
            return False, shown
        tokb.append(bs[0][1])
    if len(hv["args"]) != len(tokb):
        return False, shown
    for a, b_ in zip(hv["args"], tokb):
        a = strip_try(resolve(strip_try(a)))
        if tok == "as const":
            pt = hrow["elems"][2]
            inner = pt["subs"][0] if pt.get("k") == "pvariant" and pt["path"].endswith("ParserItem::PType") and pt.get("subs") else {}
            while inner.get("k") in ("pref", "pderef"):
                inner = inner["pat"]
            if not (inner.get("k") == "pvariant" and inner["path"].endswith("Type::Array") and is_local(a, b_)):
                return False, shown
        elif not (a.get("k") == "call" and callee(a) == Pm + "parse_width" and is_local(a["args"][0], b_)):
            return False, shown
    # the application row: the node built from (operand, payload in order)
    payload = [x for x in (head_token(arow["elems"][0])[1] or [])]
    if len(arow["elems"]) != 2 or any(x is None for x in payload):
        return False, shown
    ob = pat_bindings(arow["elems"][1])
    if len(ob) != 1:
        return False, shown
    names = {ob[0][1]: ("arg", 0)}
    for k_, pb_ in enumerate(payload):
        names[pb_[1]] = ("param", k_)
    av = value_of(aarm["body"])
    body = strip_try(peel_block(aarm["body"]))
    if not (av.get("k") == "ctor" and callee(av).endswith("ParserItem::PExpr") and len(av["args"]) == 1):
        return False, shown

    def leaf(n, e_):
        if n.get("k") == "call" and callee(n) == Pm + "expr":
            a = peel(n["args"][1])
            if a.get("k") == "local" and a["id"] in names:
                return names[a["id"]]
        if n.get("k") == "local" and n["id"] in names:
            return names[n["id"]]
        if n.get("k") == "field" and peel(n["e"]).get("k") == "local" and peel(n["e"])["id"] in names:
            return ("fieldof", names[peel(n["e"])["id"]], n["name"])
        return None
    ex = semterm.Extractor(defs, leaf)
    try:
        if body.get("k") == "blockexpr" and body is not av:
            inner = body
            # evaluate the block with the payload of PExpr as its value
            t_ = strip_try(peel_block(body["b"]["tail"]))
            # (only the lets matter for the value: assertions and other statements are dropped)
            inner = dict(body, b=dict(body["b"], stmts=[s_ for s_ in body["b"]["stmts"] if s_.get("k") == "let"], tail=t_["args"][0])) if t_ is av else None
            term = ex.ev(inner, {}) if inner is not None else ex.ev(av["args"][0], {})
        else:
            term = ex.ev(av["args"][0], {})
    except Opaque as e:
        return False, "%s (%s: %s)" % (shown, e.why, show(e.node)[:50])
    wants = {"zext": ("zext", ("arg", 0), ("param", 0)), "sext": ("sext", ("arg", 0), ("param", 0)), "extract": ("extract", ("arg", 0), ("param", 0), ("param", 1)),
             "constarray": ("constarray", ("arg", 0), ("fieldof", ("param", 0), "index_width"))}
    return norm(term) == norm(wants[tname]), "%s: read as %s" % (shown, fmt(term))


def literals(ctx, c):
    # the regex set
    lits = None
    for p, fl in c.fns.items():
        if "NUM_LIT_REGEX" in p and "__static_ref_initialize" in p:
            for n in walk(fl[0]["body"]):
                if n.get("k") == "array" and all(peel(x).get("k") == "lit" for x in n["es"]):
                    lits = [peel(x)["v"] for x in n["es"]]
    ctx.inst("R14.3", "regex-set", lits is not None and len(lits) == 5, None, "UNRECOGNISED: NUM_LIT_REGEX is not a RegexSet over five literal patterns: %s" % lits, sample=lits)
    if not lits:
        return
    f = ctx.fn("patronus", Pm + "early_parse_single_token")
    m = None
    for n in walk(f["body"]):
        if n.get("k") == "match" and any(a["pat"].get("k") == "plit" and a["pat"].get("lk") == "int" for a in n["arms"]):
            m = n
    if m is None:
        ctx.violation("R14.3", "arms", f["span"], "UNRECOGNISED: no match over the regex alternative index")
        return
    # the matched index is the first match of the set
    fix = Index(f["body"])
    fdefs = local_defs(f)
    p_value = (param_ids(f) + [None] * 3)[2]
    arms = {a["pat"]["v"]: a for a in m["arms"] if a["pat"].get("k") == "plit"}
    want = {}
    for i, rx in enumerate(lits):
        if rx.startswith("^#b"):
            want[i] = "bin"
        elif rx.startswith("^#x"):
            want[i] = "hex"
        elif rx == "^true$":
            want[i] = "true"
        elif rx == "^false$":
            want[i] = "false"
        else:
            want[i] = "other"

    def pexpr_payload(arm):
        """the expression wrapped as PExpr(..) that the arm yields (through Ok / a block / lets); None unless every non-error exit of the arm yields it"""
        vals = [psanorm.result_value(arm["body"])] + [psanorm.result_value(x["e"]) for x in walk(arm["body"]) if x.get("k") == "return" and "e" in x]
        vals = [v for v in vals if not (v.get("k") == "ctor" and callee(v).endswith("Result::Err")) and v.get("ty") != "!" and v.get("k") not in ("return",)]
        if len(vals) != 1:
            return None
        v = vals[0]
        if v.get("k") == "ctor" and callee(v).endswith("ParserItem::PExpr") and len(v["args"]) == 1:
            return strip_try(resolve(v["args"][0]))
        return None
    for i, kind in want.items():
        arm = arms.get(i)
        if arm is None:
            ctx.violation("R14.3", "alt#%d" % i, m["sp"], "regex alternative #%d (%s) has no arm" % (i, lits[i]))
            continue
        pay = pexpr_payload(arm)
        if kind in ("bin", "hex"):
            fn_ = "from_bit_str" if kind == "bin" else "from_hex_str"
            # PExpr(ctx.bv_lit(&BitVecValue::from_X(str::from_utf8(&value[2..])?)?)), possibly through lets
            ok = False
            if pay is not None and pay.get("k") == "mcall" and pay["name"] == "bv_lit" and (callee(pay) or "").startswith(builders.CTX + "::"):
                lit_ = strip_try(resolve(strip_try(pay["args"][0])))
                if lit_.get("k") == "call" and (callee(lit_) or "").endswith("BitVecValue::" + fn_) and len(lit_["args"]) == 1:
                    txt = strip_try(resolve(strip_try(lit_["args"][0])))
                    if txt.get("k") == "call" and (callee(txt) or "").endswith("from_utf8") and len(txt["args"]) == 1:
                        sl = peel(txt["args"][0])
                        rng = peel(sl["i"]) if sl.get("k") == "index" else {}
                        start = {f_["name"]: f_["e"] for f_ in rng.get("fields", [])}.get("start") if rng.get("k") == "struct" and rng["path"].endswith("RangeFrom") else None
                        ok = sl.get("k") == "index" and is_local(sl["e"], p_value) and start is not None and peel(start).get("v") == 2
            anchored = lits[i].endswith("$") and lits[i].startswith("^") and ("[01]+" in lits[i] if kind == "bin" else "xdigit" in lits[i])
            ctx.inst("R14.3", "alt#%d:%s" % (i, kind), ok and anchored, arm["sp"], "a `%s` literal (alternative #%d `%s`) must be read as %s(text after the 2-byte prefix) and interned as is: %s" % ("#b" if kind == "bin" else "#x", i, lits[i], fn_, show(arm["body"])[:160]), sample=show(arm["body"])[:120])
        elif kind in ("true", "false"):
            ok = pay is not None and pay.get("k") == "mcall" and pay["name"] == "get_" + kind and (callee(pay) or "").startswith(builders.CTX + "::")
            ctx.inst("R14.3", "alt#%d:%s" % (i, kind), ok, arm["sp"], "`%s` (alternative #%d) must be read as Context::get_%s(): %s" % (kind, i, kind, show(arm["body"])[:100]))
        else:
            ok = any(x.get("k") == "ctor" and callee(x).endswith("Result::Err") for x in walk(arm["body"]))
            ctx.inst("R14.3", "alt#%d:unsupported" % i, ok, arm["sp"], "alternative #%d (%s) must be rejected with an error" % (i, lits[i]), nontrivial=False)
    # the index matched on is the first match of the regex set on the token
    sc = peel(m["scrut"])
    src = None
    if sc.get("k") == "local":
        d = fdefs.get(sc["id"])
        if d and d[0] in ("letexpr", "let") and "init" in d[1]:
            pat = d[1]["pat"]
            if pat.get("k") == "pvariant" and pat["path"].endswith("Option::Some"):
                src = psanorm.value_source(fix, fdefs, d[1]["init"])
    ok = False
    if src is not None:
        b_, ms_ = chain(src)
        ok = [x[0] for x in ms_][-3:] == ["matches", "into_iter", "next"] and "NUM_LIT_REGEX" in show(b_) + show(ms_[0][2]["recv"]) and is_local(ms_[-3][1][0], p_value)
    ctx.inst("R14.3", "match-index", ok, f["span"], "the alternative index must be the first match of NUM_LIT_REGEX on the token")


def commands(ctx, c):
    f = ctx.fn("patronus", Pm + "parse_command")
    rows = {}
    m = None
    best = 0
    for n in walk(f["body"]):
        if n.get("k") == "match":
            cnt = len([alt for a in n["arms"] for alt in pat_alts(a["pat"]) if alt.get("k") == "plit" and alt.get("lk") == "bytestr"])
            if cnt > best:
                m, best = n, cnt          # the dispatch on the command name: the match that names the most commands
    if m is None:
        ctx.violation("R14.4", "parse_command:shape", f["span"], "UNRECOGNISED: no match over command names")
        return
    fix_ = Index(f["body"])
    for arm in m["arms"]:
        names = [alt["v"] for alt in pat_alts(arm["pat"]) if alt.get("k") == "plit"]
        if not names:
            continue
        built = []
        for x in walk(arm["body"]):
            p = None
            if x.get("k") == "ctor":
                p = callee(x)
            elif x.get("k") == "def" and x.get("dk") == "ctor_variant":
                p = x["path"]
            elif x.get("k") == "def" and (x.get("path") or "").startswith("patronus::smt::solver::SmtCommand::"):
                p = x["path"]
            if p and p.startswith("patronus::smt::solver::SmtCommand::"):
                built.append((p.split("::")[-1], x))
        sid = local_id(m["scrut"])
        ix = Index(arm["body"])
        for nm in names:
            if len({b for b, _ in built}) == 1:
                rows[nm] = built[0][0]
            elif len(names) == 1:
                rows[nm] = None
            else:
                # selected by `name == b"..."` on the matched token
                sel = []
                for vn, x in built:
                    for c_, pol in psanorm.path_conditions(ix, x):
                        if c_.get("k") == "binary" and c_["op"] in ("==", "!="):
                            for a_, b_ in ((c_["l"], c_["r"]), (c_["r"], c_["l"])):
                                lit = peel(b_)
                                if sid is not None and is_local(a_, sid) and lit.get("k") == "lit" and lit.get("v") in names:
                                    holds_for = (lit["v"] == nm) == (pol == (c_["op"] == "=="))
                                    if holds_for:
                                        sel.append(vn)
                if not sel:
                    # selected by a nested `match name { b"push" => .., _ => .. }` on the same token
                    for vn, x in built:
                        consistent, tested = True, False
                        for c_, pol in psanorm.path_conditions(fix_, x, upto=m, arms=True):
                            if c_.get("k") == "armpat" and sid is not None and is_local(c_["scrut"], sid):
                                alts_ = pat_alts(c_["pat"])
                                if any(a_.get("k") in ("pwild", "pbind") for a_ in alts_):
                                    continue
                                lits_ = {a_.get("v") for a_ in alts_ if a_.get("k") == "plit"}
                                tested = True
                                if (nm in lits_) != pol:
                                    consistent = False
                        if consistent and tested:
                            sel.append(vn)
                rows[nm] = sel[0] if len(set(sel)) == 1 else None
    _, wrows = c05.cmd_table(ctx, c)
    adt = c.adts.get("patronus::smt::solver::SmtCommand")
    for v in adt["variants"]:
        vn = v["name"]
        wtok = (wrows or {}).get(vn, (None, None))[0]
        back = rows.get(wtok)
        ctx.inst("R14.4", "command:%s" % vn, back == vn, f["span"], "SmtCommand::%s is written as `%s`, which parse_command reads as %s" % (vn, wtok, back if wtok in rows else "an unknown command (error)"),
                 sample={"command": vn, "written": wtok, "read_back": back})
    ctx.extra["reader_command_names"] = rows


def symbol_binding(ctx):
    """read_command (re)binds the symbol of every declare/define command unconditionally, under its own name"""
    ctx.rule("R14.6", "read_command binds the symbol introduced by declare-const/define-fun in the symbol table unconditionally (a re-declaration after pop replaces the old binding), keyed by the symbol's own name")
    f = ctx.fn("patronus", Pm + "read_command")
    ix = Index(f["body"])
    P = {name: i for p in f["params"] for name, i in pat_bindings(p)}
    ins = [n for n in ix.nodes if n.get("k") == "mcall" and n["name"] in ("insert", "entry", "or_insert", "or_insert_with", "try_insert") and is_local(n["recv"], P.get("st"))]
    ok = len(ins) == 1 and ins[0]["name"] == "insert"
    why = "expected exactly one st.insert(..) in read_command, found %s" % [show(n)[:60] for n in ins]
    if ok:
        n = ins[0]
        conds = [a for a in ix.ancestors(n) if a.get("k") in ("match", "if", "for", "while", "loop", "closure")]
        ok = len(conds) == 1 and conds[0].get("k") in ("match", "if") and len(ix.regions[id(n)]) == 1
        why = "the binding is conditional (%s): re-declaring a name after pop would keep the stale symbol" % [show(a.get("cond", a.get("scrut", {})))[:60] for a in conds]
        if ok:
            a = conds[0]
            if a.get("k") == "match":
                pat = [x for x in a["arms"] if contains(x["body"], n)][0]["pat"]
                guard = "guard" in [x for x in a["arms"] if contains(x["body"], n)][0]
            else:
                c_ = peel(a["cond"])
                pat = c_["pat"] if c_.get("k") == "letexpr" and contains(a["then"], n) else {"k": "pwild"}
                guard = c_.get("k") != "letexpr"
            vs = sorted(vname(variant_pat(alt)[0]) for alt in pat_alts(pat) if variant_pat(alt))
            binds = {i for _, i in pat_bindings(pat)}
            val = peel(n["args"][1])
            kb, kms = chain(n["args"][0])
            if [x[0] for x in kms] == ["into"] and kb.get("k") == "local":
                kb, kms2 = chain(resolve(kb))
                kms = kms2 + kms
            key_ok = [x[0] for x in kms] == ["get_symbol_name", "unwrap", "into"] and val.get("k") == "local" and is_local(kms[0][1][0], val["id"])
            ok = not guard and vs == ["DeclareConst", "DefineConst"] and val.get("k") == "local" and val["id"] in binds and key_ok
            why = "the symbol-table update is `%s` in the branch for %s" % (show(n)[:100], vs)
    ctx.inst("R14.6", "read_command:bind-declared-symbol", ok, f["span"], why, sample=show(ins[0])[:100] if ins else None)


ALLOW = {
    "pop_let:unwrap:unwrap#1": "pop_let is only called when closing an Open(true) scope, which is only created after push_let pushed onto undo_stack",
    "bin_op:unwrap:unwrap#1": "reduce over at least two arguments (args.len() < 2 returns MissingArgs first)",
    "early_parse_single_token:macro:unreachable#1": "NUM_LIT_REGEX has exactly the five alternatives 0..=4 handled above (checked by R14.3)",
    "parse_expr_or_type:unwrap:unwrap#1": "inside `if let Some(Let(..)) = stack.last()`: the stack is non-empty",
    "parse_expr_or_type:unwrap:unwrap#2": "inside a match arm on `stack.last()` = Some(LetScopeOpenMissingClose): the stack is non-empty",
    "read_command:unwrap:unwrap#1": "the payload of a DeclareConst/DefineConst command is the symbol parse_command just created with ctx.symbol/bv_symbol/array_symbol: it has a name (R14.6 checks that this is the arm's binding)",
}
ROOTS = [Pm + "parse_get_value_response", Pm + "parse_get_unsat_assumptions_response", Pm + "parse_expr", Pm + "parse_command", Pm + "read_command"]


def aborts(ctx):
    g, fns = callgraph.build(ctx.facts, {"patronus"})
    reach = sorted(p for p in callgraph.reachable(g, ROOTS) if p in fns and "smt::parser" in p)
    ctx.floor("R14.5", "parser functions reachable from the readers", len(reach), 18)
    inv = []
    for p in reach:
        for s_ in panics.keyed(p, panics.sites(fns[p])):
            inv.append((p, s_))
    ctx.extra["abort_site_inventory"] = [{"fn": p, "key": s_["key"], "at": s_["node"].get("sp")} for p, s_ in inv]
    armed = 0
    for p, s_ in inv:
        if s_["kind"] in ("index", "unwrap-in-debug_assert"):
            continue
        if s_["kind"] == "macro" and s_["what"].startswith("debug_assert"):
            continue
        armed += 1
        ok = s_["key"] in ALLOW
        if s_["kind"] == "decrement" and not ok:
            # guarded decrement: an `if x == 0 {return ..}` on the same local earlier in the enclosing block
            ok = guarded_decrement(fns[p], s_["node"])
        ctx.inst("R14.5", s_["key"], ok, s_["node"].get("sp"),
                 "%s: `%s` can abort the process on malformed input (not on the reviewed allow-list): a malformed or truncated solver reply must yield an error" % (p, show(s_["node"])[:100]),
                 sample={"site": s_["key"], "reason": ALLOW.get(s_["key"], "guarded")})
    ctx.floor("R14.5", "armed abort sites", armed, 5)


def guarded_decrement(f, n):
    """`x -= 1` on an unsigned local that is known to be at least 1 at that point"""
    lid = local_id(n["l"])
    r = peel(n["r"])
    if not (r.get("k") == "lit" and r.get("v") == 1) or (lid is None and field_path(n["l"]) is None):
        return False
    return psanorm.nonzero_at(Index(f["body"]), n, lid, n["l"])


def stream_loops(ctx):
    """R14.7: a truncated command stream ends the reader's loops"""
    from .c15 import count_used_to_exit
    ctx.rule("R14.7", "every loop in smt::parser that calls BufRead::read_line uses the returned byte count to leave the loop at end of stream (a truncated / unbalanced command must not spin the reader)")
    c = ctx.facts.lib("patronus")
    n = 0
    for path, fl in c.fns.items():
        if not path.startswith(Pm) or "::tests::" in path:
            continue
        for f in fl:
            ix = Index(f["body"])
            per = 0
            for x in ix.nodes:
                if x.get("k") == "mcall" and x["name"] == "read_line":
                    loop = ix.enclosing(x, ("while", "loop", "for"))
                    if loop is None:
                        continue
                    n += 1
                    per += 1
                    ok, why = count_used_to_exit(x, ix, loop)
                    ctx.inst("R14.7", "%s:read_line-in-loop#%d" % (path.split("::")[-1], per), ok, x["sp"],
                             "%s reads text in a loop and %s: on a stream that ends inside an unbalanced command read_line keeps returning Ok(0) and the loop never ends" % (path, why),
                             sample={"fn": path, "call": show(x)[:80], "exit": why})
    ctx.floor("R14.7", "read_line calls inside loops in smt::parser", n, 2)


LEXER_NEXT = "<patronus::smt::parser::Lexer<'a> as core::iter::traits::iterator::Iterator>::next"


def lexer_slices(ctx):
    """R14.8: the token slices of the lexer are well-formed ranges"""
    from .. import lexbounds
    ctx.rule("R14.8", "every token slice `input[start..pos - k]` of the lexer has start <= end: the distance between the cursor and the start recorded in the lexer state, "
                      "computed as a least fixed point over the state machine's transitions, is at least k at the slice (an empty comment, an empty |..| symbol, an empty string literal included)")
    c = ctx.facts.lib("patronus")
    cands = [p for p in c.fns if p.startswith("<patronus::smt::parser::Lexer") and p.endswith("::next")]
    if not cands:
        ctx.violation("ANCHOR", "Lexer::next", None, "the Iterator impl of smt::parser::Lexer was not found")
        return
    f = c.fns[cands[0]][0]
    st_field, cur_field, src_field = "state", "pos", "input"
    sites, unmodelled, lb, ndisp, max_inc = lexbounds.analyse(f, cur_field, st_field, src_field)
    ctx.extra["lexer_state_distances"] = {k: (v if v < lexbounds.INF else "unreachable") for k, v in sorted(lb.items())}
    per = {}
    for s_ in sites:
        base = "%s:%s" % (s_["variant"], s_["form"].split("-")[0] if s_["form"].startswith("start") else s_["form"])
        per[base] = per.get(base, 0) + 1
        ctx.inst("R14.8", "Lexer::next:%s#%d" % (base, per[base]), s_["ok"], s_["node"].get("sp"),
                 "in state %s the slice `%s` needs the cursor to be at least %s past the recorded start, but only %s is guaranteed (e.g. right after the state was entered): start > end aborts the lexer"
                 % (s_["variant"], show(s_["node"])[:80], s_["need"], s_["have"]),
                 sample={"state": s_["variant"], "slice": show(s_["node"])[:80], "guaranteed_distance": s_["have"], "needed": s_["need"]})
    ctx.inst("R14.8", "Lexer::next:one-increment-per-character", max_inc <= 1, f["span"],
             "a visit of the state dispatch advances the cursor by %d, more than the one character the loop consumed: the cursor can run past the input" % max_inc)
    for n_, why in unmodelled:
        ctx.not_analysed.append("R14.8: `%s` - %s" % (show(n_)[:60], why))
    # the cursor and the state are written elsewhere only as a pair restored from a snapshot of the same lexer
    others = 0
    for path, fl in c.fns.items():
        if not path.startswith("patronus::smt::parser::Lexer::") and not path.startswith("<patronus::smt::parser::Lexer"):
            continue
        if path == cands[0]:
            continue
        for g in fl:
            for x in walk(g["body"]):
                if x.get("k") in ("assign", "assignop") and peel(x["l"]).get("k") == "field" and peel(x["l"])["name"] in (st_field, cur_field) and peel(peel(x["l"])["e"]).get("name") == "self":
                    others += 1
                    fld = peel(x["l"])["name"]
                    ok = x.get("k") == "assign" and _restores(x["r"], fld, g)
                    ctx.inst("R14.8", "%s:writes-%s#%d" % (path.split("::")[-1], fld, others), ok, x.get("sp"),
                             "%s writes the lexer's `%s` with `%s`, which is not a value saved from the same field: the distance invariant of the state machine is computed from Lexer::next alone" % (path, fld, show(x["r"])[:60]))
    ctx.floor("R14.8", "token slices in Lexer::next", len(sites), 6)
    ctx.floor("R14.8", "token slices whose state has a computed entry distance", len([s_ for s_ in sites if s_["have"] is not None]), 6)


def _restores(r, fld, g):
    r0 = resolve(peel(r))
    if r0.get("k") == "field" and r0["name"] == fld and peel(r0["e"]).get("name") == "self":
        return True
    # `prev.0` / `prev.1` of `let prev = (self.pos, self.state)`
    if r0.get("k") == "field" and peel(r0["e"]).get("k") == "local":
        init = simple_let_init(local_defs(g), peel(r0["e"])["id"])
        if init is not None and peel(init).get("k") == "tuple":
            try:
                el = peel(init)["es"][int(r0["name"])]
            except (ValueError, IndexError):
                return False
            el = peel(el)
            return el.get("k") == "field" and el["name"] == fld and peel(el["e"]).get("name") == "self"
    return False
