"""Result bookkeeping, evidence writing, known findings."""
import json
import os
import time

VERIF = os.path.dirname(os.path.dirname(os.path.abspath(__file__)))


class AnchorMissing(Exception):
    pass


class Ctx:
    """collects rule instances for one property run"""

    def __init__(self, pid, facts, tier):
        self.pid = pid
        self.facts = facts
        self.tier = tier
        self.instances = []   # (rule, key, ok)
        self.nontrivial = set()
        self.violations = []  # dicts
        self.notes = []
        self.samples = []
        self.rules = {}       # rule -> description
        self.counts = {}      # rule -> evaluated count
        self.extra = {}
        self.not_analysed = []

    def rule(self, rid, text):
        self.rules[rid] = text

    def inst(self, rule, key, ok, sp=None, msg="", detail=None, nontrivial=True, sample=None):
        k = "%s|%s" % (rule, key)
        self.instances.append((rule, key, bool(ok)))
        self.counts[rule] = self.counts.get(rule, 0) + 1
        if nontrivial:
            self.nontrivial.add(k)
        if sample is not None and len([s for s in self.samples if s.get("rule") == rule]) < 3:
            self.samples.append({"rule": rule, "instance": key, "at": sp, "observed": sample, "holds": bool(ok)})
        if not ok:
            self.violations.append({"property": self.pid, "rule": rule, "key": k, "at": sp, "msg": msg, "detail": detail})
        return ok

    def violation(self, rule, key, sp, msg, detail=None):
        return self.inst(rule, key, False, sp, msg, detail)

    def floor(self, rule, what, count, floor):
        """fail closed when an extractor finds fewer instances than were counted by hand"""
        # the floor is a vacuity guard, not a frozen count: a third of the number counted by hand, so that merging or splitting
        # sites in a behaviour-preserving edit (sixteen builders sharing one helper) does not trip it while an extractor that
        # stops matching (which finds nothing, or next to nothing) still does
        need = max(1, floor // 3)
        self.inst(rule + ".FLOOR", what, count >= need, None,
                  "only %d instances of %s found, floor is %d (a third of the %d counted by hand; the extractor no longer matches the code)" % (count, what, need, floor),
                  nontrivial=False)

    def note(self, msg):
        self.notes.append(msg)

    def skipped(self, what):
        self.not_analysed.append(what)

    # anchors --------------------------------------------------------------------------------
    def fn(self, crate, path, rule="ANCHOR"):
        c = self.facts.lib(crate)
        fl = c.fns.get(path)
        if not fl:
            self.inst(rule, "missing:" + path, False, None, "anchor definition %s not found in crate %s (renamed or removed): the rule cannot be evaluated" % (path, crate), nontrivial=False)
            raise AnchorMissing(path)
        return fl[0]

    def fn_opt(self, crate, path):
        c = self.facts.lib(crate)
        fl = c.fns.get(path)
        return fl[0] if fl else None

    def _prepared(self, c, f):
        """the function with new private single-caller helpers inlined and trivial re-bindings registered as aliases"""
        cache = self.__dict__.setdefault("_prep", {})
        key = (c.name, f["path"])
        if key not in cache:
            from . import norm
            cache[key] = norm.prepare(f, c)
            if cache[key].get("inlined"):
                self.extra.setdefault("inlined_helpers_in", []).append(f["path"])
        return cache[key]


def load_known():
    p = os.path.join(VERIF, "known_findings.json")
    if not os.path.exists(p):
        return []
    return json.load(open(p))


def finish(ctx, t0, seed, explanation, assumptions, trusted=None, exhaustive=None):
    """subtract known findings, write evidence + replay files, print lines, return exit code"""
    known = [k for k in load_known() if k.get("property") == ctx.pid and k.get("status") == "known"]
    known_keys = {k["key"]: k for k in known}
    real = []
    seen_known = []
    seen_keys = set()
    for v in ctx.violations:
        if v["key"] in seen_keys:
            continue
        seen_keys.add(v["key"])
        if v["key"] in known_keys:
            seen_known.append((known_keys[v["key"]], v))
        else:
            real.append(v)
    ev_dir = os.environ.get("PSA_EVIDENCE_DIR") or os.path.join(VERIF, "evidence")
    rp_dir = os.path.join(ev_dir, "replay")
    os.makedirs(rp_dir, exist_ok=True)
    for f in os.listdir(rp_dir):
        if f.startswith(ctx.pid + "-"):
            os.remove(os.path.join(rp_dir, f))
    for kf, v in seen_known:
        print("KNOWN-FINDING: property=%s %s [%s] at %s" % (ctx.pid, kf.get("what", ""), v["key"], v.get("at")))
    lines = []
    for i, v in enumerate(real):
        path = os.path.join(rp_dir, "%s-%03d.json" % (ctx.pid, i))
        with open(path, "w") as fh:
            json.dump(v, fh, indent=1)
        print("  rule=%s key=%s at=%s\n    %s" % (v["rule"], v["key"], v.get("at"), v.get("msg")))
        lines.append("VIOLATION property=%s replay=%s" % (ctx.pid, path))
    for n in ctx.notes:
        print("note: " + n)
    evaluations = len(ctx.instances)
    cov = {
        "explanation": explanation,
        "evaluations": evaluations,
        "distinct_nontrivial": len(ctx.nontrivial),
        "rule": "one evaluation = one rule instance (a table row, call site, path obligation or finite-domain case) extracted from the type-checked program of /repo's current working tree; distinct = distinct instance keys (rule|function|instance), non-trivial = the rule had a real obligation on it (floor/anchor bookkeeping instances are excluded)",
        "samples": ctx.samples[:12] if ctx.samples else [{"rule": r, "instances": c} for r, c in list(ctx.counts.items())[:5]],
        "rules": ctx.rules,
        "instances_per_rule": ctx.counts,
        "not_analysed": ctx.not_analysed,
        "notes": ctx.notes,
        "facts": ctx.facts.info,
        "analysed_crates": [{"crate": c.name, "file": c.fname, "functions": sum(len(v) for v in c.raw_fns.values())} for c in ctx.facts.crates],
        "known_findings_matched": [v["key"] for _, v in seen_known],
        "violating_keys": [v["key"] for v in real],
        "instance_keys": sorted({"%s|%s" % (i_[0], i_[1]) for i_ in ctx.instances}),
    }
    cov.update(ctx.extra)
    if exhaustive is not None:
        cov["exhaustive"] = exhaustive
    if trusted:
        cov["trusted_base"] = trusted
    ev = {
        "property_id": ctx.pid,
        "tier": ctx.tier,
        "seed": seed,
        "level": "other",
        "coverage": cov,
        "assumptions": assumptions,
        "wall_s": round(time.time() - t0, 2),
        "violations": len(real),
    }
    with open(os.path.join(ev_dir, ctx.pid + ".json"), "w") as fh:
        json.dump(ev, fh, indent=1)
    for l in lines:
        print(l)
    print("%s: %d rule instances, %d non-trivial, %d violations, %d known findings (%s tier, facts %s)" % (
        ctx.pid, evaluations, len(ctx.nontrivial), len(real), len(seen_known), ctx.tier,
        "cached for identical source tree" if ctx.facts.info.get("cached") else "extracted in %ss" % ctx.facts.info.get("extract_s")))
    return 1 if real else 0
