"""Semantic term language over the IR variants, extraction of builder terms from straight-line code,
and the normal form used when comparing a lowering with an oracle (DESIGN appendix C)."""
from .tree import *  # noqa
from . import builders

CTX = builders.CTX
BUILDER = builders.BUILDER

# builder name -> generic operator name of the semantic language
OP = {"not": "not", "negate": "neg", "and": "and", "or": "or", "xor": "xor", "add": "add", "sub": "sub", "mul": "mul",
      "div": "udiv", "signed_div": "sdiv", "signed_mod": "smod", "signed_remainder": "srem", "remainder": "urem",
      "shift_left": "shl", "shift_right": "lshr", "arithmetic_shift_right": "ashr",
      "implies": "implies", "equal": "eq", "ite": "ite", "concat": "concat", "slice": "extract", "zero_extend": "zext", "sign_extend": "sext",
      "array_store": "store", "array_const": "constarray", "array_read": "select", "distinct": "distinct",
      "zero": "zero", "one": "one", "ones": "ones", "get_true": "true", "get_false": "false", "bv_lit": "lit", "bit_vec_val": "lit2"}
CMP_BUILDERS = {"greater": ("gt", "u"), "greater_signed": ("gt", "s"), "greater_or_equal": ("ge", "u"), "greater_or_equal_signed": ("ge", "s")}
VARIANT_OP = {"BVNot": "not", "BVNegate": "neg", "BVAnd": "and", "BVOr": "or", "BVXor": "xor", "BVAdd": "add", "BVSub": "sub", "BVMul": "mul",
              "BVUnsignedDiv": "udiv", "BVSignedDiv": "sdiv", "BVSignedMod": "smod", "BVSignedRem": "srem", "BVUnsignedRem": "urem",
              "BVShiftLeft": "shl", "BVShiftRight": "lshr", "BVArithmeticShiftRight": "ashr", "BVImplies": "implies", "BVEqual": "eq", "ArrayEqual": "eq",
              "BVIte": "ite", "ArrayIte": "ite", "BVConcat": "concat", "BVSlice": "extract", "BVZeroExt": "zext", "BVSignExt": "sext",
              "ArrayStore": "store", "ArrayConstant": "constarray", "BVArrayRead": "select"}
VARIANT_CMP = {"BVGreater": ("gt", "u"), "BVGreaterSigned": ("gt", "s"), "BVGreaterEqual": ("ge", "u"), "BVGreaterEqualSigned": ("ge", "s")}
COMM = {"and", "or", "xor", "add", "mul", "eq", "distinct"}


class Opaque(Exception):
    def __init__(self, node, why=""):
        self.node, self.why = node, why


def builder_call(n):
    """name of the Context/Builder builder a call resolves to, else None"""
    c = callee(n) or ""
    if c.startswith(CTX + "::") or c.startswith(BUILDER + "::"):
        return c.split("::")[-1]
    return None


def mk(name, args):
    if name in CMP_BUILDERS:
        rel, sg = CMP_BUILDERS[name]
        return ("cmp", rel, sg, args[0], args[1])
    if name == "distinct":
        return ("not", ("eq", args[0], args[1]))
    if name in OP:
        return (OP[name],) + tuple(args)
    return ("?" + name,) + tuple(args)


def norm(t):
    if not isinstance(t, tuple):
        return t
    t = tuple(norm(x) for x in t)
    if t[0] == "not" and isinstance(t[1], tuple) and t[1][0] == "cmp":
        _, rel, sg, x, y = t[1]
        return ("cmp", "ge" if rel == "gt" else "gt", sg, y, x)
    if t[0] == "not" and isinstance(t[1], tuple) and t[1][0] == "not":
        return t[1][1]
    if t[0] in COMM:
        return (t[0],) + tuple(sorted(t[1:], key=repr))
    return t


def fmt(t):
    if not isinstance(t, tuple):
        return str(t)
    return "%s(%s)" % (t[0], ", ".join(fmt(x) for x in t[1:]))


class _Thunk:
    """a let binding that is evaluated when (and only if) it is used"""
    def __init__(self, init, env, proj=None):
        self.init, self.env, self.proj = init, env, proj


class Extractor:
    """abstract interpretation of straight-line code into builder terms.
    leaf(node, env) -> term or None lets the client name leaves (tokens, pattern variables, ...);
    transparent(node) -> True for statements/calls that only check."""

    def __init__(self, defs, leaf, transparent=lambda n: False, passthrough=lambda n: None):
        self.defs = defs
        self.leaf = leaf
        self.transparent = transparent
        self.passthrough = passthrough   # call that returns one of its args unchanged -> index of that arg
        self.spec = None                 # spec(expr) -> literal value the expression is specialised to (e.g. the operator token), or None

    def _arm_checks_only(self, arm):
        b = arm["body"]
        for st in stmts_of(b):
            st = unsemi(st)
            if st.get("k") == "let":
                init = st.get("init")
                if init is None:
                    return False
                i2 = strip_try(init)
                if i2.get("k") == "match" and all(a["body"].get("ty") == "!" or peel(peel_block(a["body"])).get("k") in ("mcall", "local", "field") for a in i2["arms"]):
                    continue
                if i2.get("k") in ("mcall", "tuple", "local") or self.transparent(i2):
                    continue
                return False
            s2 = strip_try(st)
            if self.transparent(s2) or (s2.get("k") == "if" and "else" not in s2 and s2["then"].get("ty") == "!"):
                continue
            if s2.get("k") == "blockexpr" and not stmts_of(s2):
                continue
            if s2.get("k") == "tuple" and not s2["es"]:
                continue
            return False
        return True

    def decide(self, cond, depth=0):
        """value of a condition on the specialised subject (the operator token): `x == "lit"`, `x != "lit"`, `x.starts_with("lit")`, through `!`,
        && / || and immutable bool lets; None when it depends on anything else"""
        if self.spec is None or depth > 8:
            return None
        c = resolve(cond)
        if c.get("k") == "unary" and c["op"] == "!":
            v = self.decide(c["e"], depth + 1)
            return None if v is None else (not v)
        if c.get("k") == "binary" and c["op"] in ("&&", "||"):
            a, b = self.decide(c["l"], depth + 1), self.decide(c["r"], depth + 1)
            if c["op"] == "&&":
                return False if (a is False or b is False) else (True if (a and b) else None)
            return True if (a is True or b is True) else (False if (a is False and b is False) else None)
        if c.get("k") == "binary" and c["op"] in ("==", "!="):
            for a_, b_ in ((c["l"], c["r"]), (c["r"], c["l"])):
                v = self.spec(a_)
                if v is None and peel(a_).get("k") == "local":
                    v = getattr(self, "_bound_lits", {}).get(peel(a_)["id"])
                lit = peel(b_)
                if v is not None and lit.get("k") == "lit":
                    return (lit.get("v") == v) == (c["op"] == "==")
        if c.get("k") == "mcall" and c["name"] in ("starts_with", "ends_with") and len(c["args"]) == 1:
            v = self.spec(c["recv"])
            lit = peel(c["args"][0])
            if isinstance(v, str) and lit.get("k") == "lit" and isinstance(lit.get("v"), str):
                return v.startswith(lit["v"]) if c["name"] == "starts_with" else v.endswith(lit["v"])
        return None

    @staticmethod
    def _discarded_helper(s_):
        x = s_
        while x.get("k") in ("try", "semi"):
            x = x["e"]
        # an inlined helper called for its checks, or a block statement (e.g. one pass of an unrolled loop over a literal array): the value is
        # discarded and nothing is assigned, so the term built from the locals cannot change
        return x.get("k") == "blockexpr" and ("inl_id" in x or x.get("unrolled_for") or any(s2.get("unrolled") for s2 in x["b"]["stmts"] if isinstance(s2, dict))) \
            and not any(y.get("k") in ("assign", "assignop") for y in walk(x))

    def ev(self, n, env, depth=0):
        if depth > 30:
            raise Opaque(n, "too deep")
        n0 = n
        n = strip_try(n)
        k = n.get("k")
        t = self.leaf(n, env)
        if t is not None:
            return t
        if k == "local":
            if n["id"] in env:
                v = env[n["id"]]
                if isinstance(v, _Thunk):
                    t2 = self.ev(v.init, v.env, depth + 1)
                    if v.proj is not None:
                        if not (isinstance(t2, tuple) and t2 and t2[0] == "tuple" and len(t2) > v.proj + 1):
                            raise Opaque(n, "destructured value is not a tuple")
                        t2 = t2[v.proj + 1]
                    env[n["id"]] = t2
                    return t2
                return v
            init = simple_let_init(self.defs, n["id"])
            if init is not None:
                return self.ev(init, env, depth + 1)
            raise Opaque(n, "free local `%s`" % n["name"])
        if k == "lit":
            return ("lit", n.get("v"))
        if k == "def" and resolve(n).get("k") == "lit":
            return ("lit", resolve(n).get("v"))
        if k == "tuple":
            return ("tuple",) + tuple(self.ev(x, env, depth + 1) for x in n["es"])
        if k == "ctor" and callee(n).endswith(("Result::Ok", "Option::Some")):
            if getattr(self, "_keep_some", 0) and callee(n).endswith("Option::Some"):
                keep, self._keep_some = self._keep_some, 0
                try:
                    return ("some", self.ev(n["args"][0], env, depth + 1))
                finally:
                    self._keep_some = keep
            return self.ev(n["args"][0], env, depth + 1)
        if k == "def" and (n.get("path") or "").endswith("Option::None") and getattr(self, "_keep_some", 0):
            return ("none",)
        if k in ("mcall", "call"):
            pt = self.passthrough(n)
            if pt is not None:
                return self.ev(call_args(n)[pt], env, depth + 1)
            if k == "mcall" and n["name"] == "build" and (callee(n) or "") == CTX + "::build":
                cl = peel(n["args"][0])
                if cl.get("k") == "closure":
                    return self.ev(cl["body"], env, depth + 1)
            b = builder_call(n)
            if b is not None:
                args = n["args"] if k == "mcall" else n["args"][1:]
                if k == "call" and (callee(n) or "").startswith(CTX + "::"):
                    args = n["args"][1:]
                return mk(b, [self.ev(a, env, depth + 1) for a in args])
            if k == "mcall" and n["name"] in ("clone", "into", "to_owned"):
                return self.ev(n["recv"], env, depth + 1)
            if k == "mcall" and n["name"] == "map" and len(n["args"]) == 1 and ("Result" in (n.get("path") or "") or "Option" in (n.get("path") or "")):
                # `check(x).map(|checked| (checked, 6))`: the closure applied to the (Ok / Some) value
                cl = resolve(n["args"][0])
                if cl.get("k") == "closure" and len(cl.get("params", [])) == 1:
                    v_ = self.ev(n["recv"], env, depth + 1)
                    env2 = dict(env)
                    for _, i_ in pat_bindings(cl["params"][0]):
                        env2[i_] = v_
                    return self.ev(cl["body"], env2, depth + 1)
            if k == "mcall" and n["name"] == "build" and (callee(n) or "") == CTX + "::build":
                cl = peel(n["args"][0])
                if cl.get("k") == "closure":
                    return self.ev(cl["body"], env, depth + 1)
            raise Opaque(n, "call %s" % (callee(n) or show(n)[:40]))
        if k == "blockexpr":
            env = dict(env)
            st = n["b"]["stmts"]
            for s_ in st:
                s_ = unsemi(s_)
                if s_.get("k") == "let":
                    bs = pat_bindings(s_["pat"])
                    if s_["pat"].get("k") == "pbind" and "init" in s_:
                        env[s_["pat"]["id"]] = _Thunk(s_["init"], env)
                    elif "init" in s_ and self.transparent(strip_try(s_["init"])):
                        pass
                    elif "init" in s_ and s_["pat"].get("k") == "ptuple" and all(x.get("k") in ("pbind", "pwild") for x in s_["pat"]["subs"]):
                        for i_, x in enumerate(s_["pat"]["subs"]):
                            if x.get("k") == "pbind":
                                env[x["id"]] = _Thunk(s_["init"], env, i_)
                    else:
                        raise Opaque(s_, "destructuring let")
                elif self.transparent(strip_try(s_)):
                    continue
                elif s_.get("k") == "if" and "else" not in s_ and s_["then"].get("ty") == "!":
                    continue  # a guard that only rejects (`if bad { report; return Err }`) does not change the value built
                elif s_.get("k") == "match" and all(self._arm_checks_only(a) for a in s_["arms"]):
                    continue  # a dispatch whose arms only perform checks
                elif s_.get("k") == "if" and all(self._arm_checks_only({"body": b_}) for b_ in [s_["then"]] + ([s_["else"]] if "else" in s_ else [])):
                    continue  # a conditional block of checks
                elif s_.get("k") in ("for", "while", "loop") and not any(y.get("k") in ("assign", "assignop") for y in walk(s_)):
                    continue  # a loop whose value is discarded and that assigns nothing cannot change the term built from the locals
                elif self._discarded_helper(s_):
                    continue  # an inlined helper called for its checks only: its value is discarded and it assigns nothing
                else:
                    raise Opaque(s_, "statement `%s`" % show(s_)[:60])
            if "tail" in n["b"]:
                return self.ev(n["b"]["tail"], env, depth + 1)
            raise Opaque(n, "block without value")
        if k == "closure":
            raise Opaque(n, "closure")
        if k == "if" and self.spec is not None and peel(n["cond"]).get("k") == "letexpr":
            # `if let Some(x) = lookup(op) { A } else { B }` with a lookup that is decided by the specialised subject
            c_ = peel(n["cond"])
            pt = c_["pat"]
            while pt.get("k") in ("pref", "pderef"):
                pt = pt["pat"]
            if pt.get("k") == "pvariant" and pt["path"].endswith("Option::Some") and len(pt["subs"]) == 1:
                keep = getattr(self, "_keep_some", 0)
                self._keep_some = 1
                try:
                    ov = self.ev(c_["init"], dict(env), depth + 1)
                except Opaque:
                    ov = None
                finally:
                    self._keep_some = keep
                if isinstance(ov, tuple) and ov and ov[0] == "some":
                    env2 = dict(env)
                    for _, i_ in pat_bindings(pt["subs"][0]):
                        env2[i_] = ov[1]
                    return self.ev(n["then"], env2, depth + 1)
                if ov == ("none",) and "else" in n:
                    return self.ev(n["else"], env, depth + 1)
        if k == "match" and self.spec is not None and any(("Option::Some" in (x.get("path") or "") or "Option::None" in (x.get("path") or "")) for arm in n["arms"] for x in pat_alts(arm["pat"])):
            # `match lookup(op) { Some(x) => A, None => B }` with a lookup that is decided by the specialised subject
            keep = getattr(self, "_keep_some", 0)
            self._keep_some = 1
            try:
                ov = self.ev(n["scrut"], dict(env), depth + 1)
            except Opaque:
                ov = None
            finally:
                self._keep_some = keep
            if isinstance(ov, tuple) and ov and ov[0] in ("some", "none"):
                for arm in n["arms"]:
                    for alt in pat_alts(arm["pat"]):
                        while alt.get("k") in ("pref", "pderef"):
                            alt = alt["pat"]
                        if "guard" in arm:
                            g_ = self.decide(arm["guard"])
                            if g_ is None:
                                raise Opaque(n, "guarded arm")
                            if not g_:
                                continue
                        if alt.get("k") == "pvariant" and alt["path"].endswith("Option::Some") and ov[0] == "some" and len(alt["subs"]) == 1:
                            env2 = dict(env)
                            for _, i_ in pat_bindings(alt["subs"][0]):
                                env2[i_] = ov[1]
                            return self.ev(arm["body"], env2, depth + 1)
                        if alt.get("k") in ("pvariant", "pconst", "ppath") and alt.get("path", "").endswith("Option::None") and ov[0] == "none":
                            return self.ev(arm["body"], env, depth + 1)
                        if alt.get("k") in ("pwild",):
                            return self.ev(arm["body"], env, depth + 1)
        if k == "match" and self.spec is not None:
            v = None
            sc0 = peel(n["scrut"])
            bound = False
            if sc0.get("k") == "local" and sc0["id"] in env:
                # a local that was bound to a literal on this path (payload of a decided lookup, parameter of an inlined helper) wins over the subject
                try:
                    ev_ = self.ev(sc0, env, depth + 1)
                except Opaque:
                    ev_ = None
                if isinstance(ev_, tuple) and len(ev_) == 2 and ev_[0] == "lit" and isinstance(ev_[1], (str, int)):
                    v, bound = ev_[1], True
            if v is None and not bound:
                v = self.spec(n["scrut"])
            if v is None:
                # a scrutinee that evaluates to a literal (e.g. the base operator found by a lookup on the specialised token)
                try:
                    sv = self.ev(n["scrut"], dict(env), depth + 1)
                except Opaque:
                    sv = None
                if isinstance(sv, tuple) and len(sv) == 2 and sv[0] == "lit" and isinstance(sv[1], (str, int)):
                    v = sv[1]
            if v is not None:
                for arm in n["arms"]:
                    for alt in pat_alts(arm["pat"]):
                        while alt.get("k") in ("pref", "pderef"):
                            alt = alt["pat"]
                        hit = (alt.get("k") == "plit" and alt.get("v") == v) or alt.get("k") == "pwild" or (alt.get("k") == "pbind" and "sub" not in alt)
                        if hit:
                            if "guard" in arm:
                                raise Opaque(n, "guarded arm for `%s`" % v)
                            if alt.get("k") == "pbind":
                                env = dict(env)
                                env[alt["id"]] = ("lit", v)
                            top = arm["pat"]
                            while top.get("k") in ("pref", "pderef"):
                                top = top["pat"]
                            if top.get("k") == "pbind" and "sub" in top:
                                # `ext @ ("uext" | "sext") => .. if ext == "uext" ..`: the name holds the literal that selected the arm
                                env = dict(env)
                                env[top["id"]] = ("lit", v)
                                self._bound_lits = getattr(self, "_bound_lits", {})
                                self._bound_lits[top["id"]] = v
                            return self.ev(arm["body"], env, depth + 1)
                raise Opaque(n, "no arm for `%s`" % v)
        if k == "if" and self.spec is not None and "else" in n:
            dec = self.decide(n["cond"])
            if dec is not None:
                return self.ev(n["then"] if dec else n["else"], env, depth + 1)
        if k in ("if", "match", "for", "while", "loop"):
            raise Opaque(n, "data-dependent control flow (%s)" % k)
        if k == "cast":
            return self.ev(n["e"], env, depth + 1)
        raise Opaque(n, "construct %s" % k)
