import re
"""T4: the type-rule table of `<Expr as TypeCheck>::type_check` / `get_type` vs. the IR's typing rules (O-ir)."""
from .tree import *  # noqa
from .tables import *  # noqa

TC = "<patronus::expr::nodes::Expr as patronus::expr::types::TypeCheck>::type_check"
GT = "<patronus::expr::nodes::Expr as patronus::expr::types::TypeCheck>::get_type"
T = "patronus::expr::types::"

# oracle: variant -> (set of constraints, result type term).  Children/attributes are named by field key.
SAMEW = lambda a, b: ("same_width", a, b)


def bin_of(w):
    return ({("same_width", 0, 1), ("result_of", w)}, ("BV", "@%s" % w))


ORACLE = {
    "BVSymbol": (set(), ("BV", "@width")),
    "BVLiteral": (set(), ("BV", "value.width()")),
    "BVZeroExt": ({("bv_of", "e", "(width-by)")}, ("BV", "@width")),
    "BVSignExt": ({("bv_of", "e", "(width-by)")}, ("BV", "@width")),
    "BVSlice": ({("bv", "e"), ("reject", "hi>=w(e)"), ("reject", "hi<lo")}, ("BV", "((hi-lo)+1)")),
    "BVNot": ({("bv_of", 0, "width")}, ("same", 0)),
    "BVNegate": ({("bv_of", 0, "width")}, ("same", 0)),
    "BVEqual": ({SAMEW(0, 1)}, ("BV", "1")),
    "BVImplies": ({("bv_of", 0, "1"), ("bv_of", 1, "1")}, ("BV", "1")),
    "BVGreater": ({SAMEW(0, 1)}, ("BV", "1")),
    "BVGreaterSigned": ({SAMEW(0, 1)}, ("BV", "1")),
    "BVGreaterEqual": ({SAMEW(0, 1)}, ("BV", "1")),
    "BVGreaterEqualSigned": ({SAMEW(0, 1)}, ("BV", "1")),
    "BVConcat": ({("bv", 0), ("bv", 1), ("result_of", "width")}, ("BV", "(w(0)+w(1))")),
    "BVIte": ({("bv_of", "cond", "1"), SAMEW("tru", "fals")}, ("same", "tru")),
    "BVArrayRead": ({("array", "array"), ("bv", "index"), ("reject", "array.index_width!=w(index)"), ("reject", "array.data_width!=width")}, ("BV", "array.data_width")),
    "ArraySymbol": (set(), ("Array", "@index_width", "@data_width")),
    "ArrayConstant": ({("bv_of", "e", "data_width")}, ("Array", "@index_width", "@data_width")),
    "ArrayEqual": ({("same_arrays", 0, 1)}, ("BV", "1")),
    "ArrayStore": ({("array", "array"), ("bv_of", "index", "array.index_width"), ("bv_of", "data", "array.data_width")}, ("Array", "array")),
    "ArrayIte": ({("bv_of", "cond", "1"), ("same_arrays", "tru", "fals")}, ("same", "tru")),
}
for _v in ("BVAnd", "BVOr", "BVXor", "BVShiftLeft", "BVArithmeticShiftRight", "BVShiftRight", "BVAdd", "BVMul", "BVSignedDiv", "BVUnsignedDiv", "BVSignedMod", "BVSignedRem", "BVUnsignedRem", "BVSub"):
    ORACLE[_v] = ({("same_width_of", 0, 1, "width")}, ("same", 0))

GET_TYPE = {  # what get_type may return without checking: must agree with the Ok type of type_check on well-typed nodes
    "BVIte": ("type_of", "fals"), "ArrayIte": ("type_of", "fals"), "ArrayStore": ("type_of", "array"),
}


def _subst(t, names):
    for nm, rep in sorted(names.items(), key=lambda y: -len(y[0])):
        t = re.sub(r"(?<![\w.])%s(?![\w])" % re.escape(nm), rep.replace("\\", "\\\\"), t)
    return t


def _key_of(n, binds):
    n = resolve(peel(n))
    n = peel(n)
    if n.get("k") == "local":
        if n["id"] in binds:
            return binds[n["id"]]
        for i, kk in binds.items():
            if canon(i) == canon(n["id"]):
                return kk
    return None


def arm_constraints(arm, binds):
    """abstract the statements of a type_check arm into constraint tuples + result"""
    cons = set()
    result = None
    env = {}   # local id -> meaning ('w', key) | ('arr', key)

    def width_expr(n):
        n = peel(n)
        t = show(n).replace(" ", "")
        for i, m in env.items():
            pass
        return t

    def rename(t):
        # replace local names bound to widths/arrays by canonical terms
        for nm, rep in sorted(names.items(), key=lambda x: -len(x[0])):
            t = t.replace(nm, rep)
        return t
    names = {}
    body = arm["body"]
    stmts = stmts_of(body)
    for i, st in enumerate(stmts):
        last = i == len(stmts) - 1
        s_ = unsemi(st)
        target = None
        expr = s_
        if s_.get("k") == "if" and "else" not in s_ and not last and any(x.get("k") == "ctor" and callee(x).endswith("Result::Err") for x in walk(s_["then"])) \
                and any(x.get("k") in ("return",) for x in walk(s_["then"])):
            # `if cond { return Err(..) }`: an early rejection
            cons.add(("reject", normcmp(s_["cond"], names)))
            continue
        if s_.get("k") == "let" and s_["pat"].get("k") == "pstruct" and "init" in s_:
            # `let ArrayType { index_width: iw, data_width: dw } = array_tpe;` (or `= x.get_type(ctx).expect_array(..)?`): the bindings name the fields of that value
            if peel(s_["init"]).get("k") == "local":
                src = names.get(peel(s_["init"])["name"], peel(s_["init"])["name"])
            else:
                src = analyse(s_["init"], binds, names, cons)
            if isinstance(src, str):
                for fl in s_["pat"]["fields"]:
                    b = binding_of(fl["pat"])
                    if b:
                        names[b[0]] = "%s.%s" % (src, fl["name"])
                continue
        if s_.get("k") == "let":
            b = binding_of(s_["pat"])
            target = b[0] if b else None
            expr = s_["init"]
            ini = strip_try(expr)
            if target and ini.get("k") == "mcall" and ini["name"] == "get_type" and _key_of(ini["recv"], binds) is not None:
                # `let a_tpe = a.get_type(ctx);` names the type of that child; uses are resolved where they occur
                continue
        res = analyse(expr, binds, names, cons)
        if target and res:
            names[target] = res if isinstance(res, str) else "%s(%s)" % (res[0], ",".join(str(x) for x in res[1:]))
        elif target and s_.get("k") == "let" and peel(expr).get("k") == "field" and not s_["pat"].get("mut"):
            # `let array_index_width = tpe.index_width;`: another name of that field
            names[target] = _subst(show(peel(expr)).replace(" ", ""), names)
        if last:
            result = res if res else analyse_result(expr, binds, names, cons)
    return cons, result, names


def tail_of(e):
    e = peel(e)
    while e.get("k") == "blockexpr" and not e["b"]["stmts"] and "tail" in e["b"]:
        e = peel(e["b"]["tail"])
    return e


def analyse(n, binds, names, cons):
    """records the constraint a (possibly `?`-wrapped) check expression imposes; returns a term naming its value"""
    inner = strip_try(n)
    k = inner.get("k")

    def key(x):
        kk = _key_of(x, binds)
        return kk

    def wtxt(x):
        return _subst(show(peel(x)).replace(" ", ""), names)
    if k == "mcall" and inner["name"] == "map" and "Result" in (inner.get("path") or "") and len(inner["args"]) == 1:
        # `check(..).map(|_| T)`: the constraint of the check, the value T
        cl = resolve(inner["args"][0])
        analyse(inner["recv"], binds, names, cons)
        if cl.get("k") == "closure":
            v = resolve(cl["body"])
            if v.get("k") == "ctor" and callee(v).endswith("Type::BV"):
                return ("BV", _subst(show(peel(v["args"][0])).replace(" ", ""), names))
            if v.get("k") == "ctor" and callee(v).endswith("Type::Array"):
                return ("Array", _subst(show(peel(v["args"][0])).replace(" ", ""), names))
        return None
    if k == "mcall" and inner["name"] == "and_then" and "Result" in (inner.get("path") or "") and len(inner["args"]) == 1:
        # `check1(..).and_then(|_| check2(..))`: both constraints, the value of the second
        cl = resolve(inner["args"][0])
        analyse(inner["recv"], binds, names, cons)
        if cl.get("k") == "closure":
            return analyse(tail_of(cl["body"]), binds, names, cons)
        return None
    if k == "mcall" and inner["name"] in ("expect_bv", "expect_bv_of", "expect_array"):
        r = strip_try(resolve(strip_try(inner["recv"])))
        if r.get("k") == "ctor" and callee(r).endswith("Type::BV") and inner["name"] == "expect_bv_of":
            # `Type::BV(w).expect_bv_of(width, ..)`: yields BV(w) when w equals the annotated width
            cons.add(("result_of", wtxt(inner["args"][0])))
            return ("BV", wtxt(r["args"][0]))
        if r.get("k") == "mcall" and r["name"] == "get_type":
            child = key(r["recv"])
            if child is None:
                # tpe.expect_bv_of(width) on a computed type (concat)
                if inner["name"] == "expect_bv_of":
                    cons.add(("result_of", wtxt(inner["args"][0])))
                    return None
                return None
            if inner["name"] == "expect_bv":
                cons.add(("bv", child))
                return "w(%s)" % child
            if inner["name"] == "expect_bv_of":
                cons.add(("bv_of", child, wtxt(inner["args"][0])))
                return "type(%s)" % child
            cons.add(("array", child))
            return "%s" % child
        if r.get("k") == "local" and inner["name"] == "expect_bv_of":
            cons.add(("result_of", wtxt(inner["args"][0])))
            return None
        if r.get("k") == "call":
            sub = analyse(r, binds, names, cons)
            if inner["name"] == "expect_bv_of":
                cons.add(("result_of", wtxt(inner["args"][0])))
            return sub
    if k == "call":
        c = (callee(inner) or "")
        if c == T + "expect_same_width_bvs":
            cons.add(("same_width", key(inner["args"][2]), key(inner["args"][3])))
            return "type(%s)" % key(inner["args"][2])
        if c == T + "expect_same_width_bvs_of":
            cons.add(("same_width_of", key(inner["args"][3]), key(inner["args"][4]), wtxt(inner["args"][1])))
            return "type(%s)" % key(inner["args"][3])
        if c == T + "expect_same_size_arrays":
            cons.add(("same_arrays", key(inner["args"][2]), key(inner["args"][3])))
            return "type(%s)" % key(inner["args"][2])
    if k == "ctor" and callee(inner).endswith("Type::BV"):
        return ("BV", wtxt(inner["args"][0]))
    return None


def analyse_result(n, binds, names, cons):
    inner = strip_try(n)
    k = inner.get("k")

    def wtxt(x):
        return _subst(show(peel(x)).replace(" ", ""), names)
    if k == "ctor" and callee(inner).endswith("Result::Ok"):
        a = resolve(inner["args"][0])
        if a.get("k") == "ctor" and callee(a).endswith("Type::BV"):
            return ("BV", wtxt(a["args"][0]))
        if a.get("k") == "ctor" and callee(a).endswith("Type::Array"):
            st = peel(a["args"][0])
            if st.get("k") == "local" and resolve(st).get("k") == "struct":
                st = resolve(st)              # `let tpe = ArrayType { .. }; Ok(Type::Array(tpe))`
            if st.get("k") == "struct":
                fs = {f_["name"]: wtxt(f_["e"]) for f_ in st["fields"]}
                return ("Array", "@" + fs.get("index_width", "?"), "@" + fs.get("data_width", "?"))
            return ("Array", wtxt(st))
        if a.get("k") == "local":
            return ("same_named", wtxt(a))
        r = analyse(a, binds, names, cons)
        return ("okwrap", r)
    if k == "if":
        # if-chain of rejections ending in Ok
        cur = inner
        while cur is not None and cur.get("k") == "if":
            is_err = any(x.get("k") == "ctor" and callee(x).endswith("Result::Err") for x in walk(cur["then"]))
            if not is_err:
                return ("?", "if-branch is not a rejection")
            cons.add(("reject", normcmp(cur["cond"], names)))
            cur = peel_block(cur["else"]) if "else" in cur else None
        return analyse_result(cur, binds, names, cons) if cur is not None else ("?", "no final branch")
    r = analyse(inner, binds, names, cons)
    if r:
        return ("via", r)
    return ("?", show(inner)[:60])


def normcmp(c, names):
    c = peel(c)
    t = show(c).replace(" ", "")
    for nm, rep in sorted(names.items(), key=lambda y: -len(y[0])):
        t = t.replace(nm, rep)
    if c.get("k") == "binary":
        l, r = _subst(show(peel(c["l"])).replace(" ", ""), names), _subst(show(peel(c["r"])).replace(" ", ""), names)
        op = c["op"]
        if op in ("<=", ">"):
            l, r, op = r, l, {"<=": ">=", ">": "<"}[op]
        return "%s%s%s" % (l, op, r)
    return t


def sym_reject(c):
    """`a != b` and `b != a` (likewise ==) are the same rejection: order the operands"""
    if len(c) == 2 and c[0] == "reject":
        for op in ("!=", "=="):
            if op in c[1] and c[1].count(op) == 1 and "<" not in c[1] and ">" not in c[1]:
                l, r = c[1].split(op)
                return ("reject", op.join(sorted([l, r])))
    return tuple(c)


def canon_cons(cons, info):
    """rename field keys so that positional (0,1,..) and named keys compare with the oracle"""
    return {tuple(str(x) for x in c) for c in cons}


def check(ctx, t0, rule="T4"):
    f = ctx.fn("patronus", TC)
    g = ctx.fn("patronus", GT)
    ms = [n for n in walk(f["body"]) if n.get("k") == "match" and n.get("src") == "match" and len(n["arms"]) > 20]
    if not ms:
        ctx.violation(rule, "type_check:shape", f["span"], "UNRECOGNISED: type_check is not a match over the variants")
        return
    seen = set()
    for alt, arm in match_arms(ms[0]):
        vp = variant_pat(alt)
        if vp is None:
            ctx.violation(rule, "type_check:wildcard", arm["sp"], "type_check has a catch-all arm")
            continue
        vn = vname(vp[0])
        if vn in seen:
            continue
        seen.add(vn)
        binds = {}
        for kk, sp in vp[1].items():
            b = binding_of(sp)
            if b:
                binds[b[1]] = kk
        cons, result, names = arm_constraints(arm, binds)
        want = ORACLE.get(vn)
        if want is None:
            ctx.violation(rule, "type_check:%s" % vn, arm["sp"], "no typing rule in the oracle for %s" % vn)
            continue
        wc, wr = want
        got_c = {sym_reject(c) for c in canon_cons(cons, None)}
        want_c = {sym_reject(tuple(str(x) for x in c)) for c in wc}
        # normalise reject texts of the oracle for slice / array read
        got_c = {tuple(x.replace("w(e)", "w(e)") for x in c) for c in got_c}
        # `same_width_of(a,b,W)` subsumes `same_width` + result_of
        okc = got_c == want_c or (vn in ("BVConcat",) and {("bv", "0"), ("bv", "1")} <= got_c and any(c[0] == "result_of" for c in got_c))
        # result
        okr = result_matches(result, wr, names)
        ctx.inst(rule, "type_check:%s" % vn, okc and okr, arm["sp"],
                 "type_check(%s) enforces %s and yields %s; the IR's typing rule requires %s and %s" % (vn, sorted(got_c), result, sorted(want_c), wr),
                 sample={"variant": vn, "constraints": sorted(map(list, got_c)), "result": str(result)})
    for vn in t0.variants:
        if vn not in seen:
            ctx.violation(rule, "type_check:%s" % vn, f["span"], "variant %s has no arm in type_check" % vn)
    ctx.floor(rule, "type_check arms", len(seen), 35)
    # get_type agrees
    ms2 = [n for n in walk(g["body"]) if n.get("k") == "match" and n.get("src") == "match" and len(n["arms"]) > 20]
    if not ms2:
        ctx.violation(rule, "get_type:shape", g["span"], "UNRECOGNISED: get_type is not a match over the variants")
        return
    seen2 = set()
    for alt, arm in match_arms(ms2[0]):
        vp = variant_pat(alt)
        if vp is None:
            continue
        vn = vname(vp[0])
        if vn in seen2:
            continue
        seen2.add(vn)
        binds = {}
        for kk, sp in vp[1].items():
            b = binding_of(sp)
            if b:
                binds[b[1]] = kk
        b = peel(peel_block(arm["body"]))
        want = ORACLE[vn][1]
        ok = False
        got = show(b)
        if vn in GET_TYPE:
            ok = b.get("k") == "mcall" and b["name"] == "get_type" and _key_of(b["recv"], binds) == GET_TYPE[vn][1]
        elif b.get("k") == "ctor" and callee(b).endswith("Type::BV"):
            a = peel(b["args"][0])
            txt = show(a).replace(" ", "")
            if want[0] == "BV":
                ok = ("@" + txt == want[1]) or txt == want[1] or (want[1] == "(w(0)+w(1))" and txt == "width") or (want[1] == "array.data_width" and txt == "width")
            elif want[0] == "same":
                ok = txt == "width"
        elif b.get("k") == "ctor" and callee(b).endswith("Type::Array"):
            st = peel(b["args"][0])
            if st.get("k") == "struct" and want[0] == "Array":
                fs = {f_["name"]: show(peel(f_["e"])) for f_ in st["fields"]}
                ok = fs.get("index_width") == "index_width" and fs.get("data_width") == "data_width"
        ctx.inst(rule, "get_type:%s" % vn, ok, arm["sp"], "get_type(%s) returns `%s`, which is not the type type_check assigns to a well-typed %s (%s)" % (vn, got[:80], vn, want), sample={"variant": vn, "get_type": got[:60]})
    ctx.floor(rule, "get_type arms", len(seen2), 35)


def result_matches(result, want, names):
    if result is None:
        return False
    if want[0] == "BV":
        if result[0] == "BV":
            r = result[1]
            return r == want[1] or "@" + r == want[1] or (want[1] == "(w(0)+w(1))" and r in ("(w(0)+w(1))",)) or (want[1] == "array.data_width" and r in ("array.data_width",))
        if result[0] == "same_named":
            return result[1] == "BV(%s)" % want[1]
        return False
    if want[0] == "same":
        if isinstance(result, str):
            return result == "type(%s)" % want[1]
        return result[0] in ("via", "okwrap") and result[1] == "type(%s)" % want[1]
    if want[0] == "Array":
        if len(want) == 3:
            return result == want
        return result[0] == "Array" and result[1] == want[1]
    return False
