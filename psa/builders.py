"""T2: the Context builder table (builder -> variant, operand map, attribute formulas) extracted from
expr::context and checked against the O-ir contract; plus Builder-wrapper forwarding."""
from .tree import *  # noqa
from .tables import *  # noqa

CTX = "patronus::expr::context::Context"
BUILDER = "patronus::expr::context::Builder"
ADD_EXPR = CTX + "::add_expr"

W_ANY = "width of an operand"
SAME_WIDTH_BIN = {
    "and": "BVAnd", "or": "BVOr", "xor": "BVXor", "add": "BVAdd", "sub": "BVSub", "mul": "BVMul",
    "div": "BVUnsignedDiv", "signed_div": "BVSignedDiv", "signed_mod": "BVSignedMod", "signed_remainder": "BVSignedRem", "remainder": "BVUnsignedRem",
    "shift_left": "BVShiftLeft", "shift_right": "BVShiftRight", "arithmetic_shift_right": "BVArithmeticShiftRight",
    "greater_signed": "BVGreaterSigned", "greater_or_equal_signed": "BVGreaterEqualSigned",
}
# builder -> (variants, child field -> param index, attr field -> spec)
CONTRACT = {
    "not": (["BVNot"], {0: 0}, {1: ("width_of", {0})}),
    "negate": (["BVNegate"], {0: 0}, {1: ("width_of", {0})}),
    "greater": (["BVGreater"], {0: 0, 1: 1}, {}),
    "greater_or_equal": (["BVGreaterEqual"], {0: 0, 1: 1}, {}),
    "implies": (["BVImplies"], {0: 0, 1: 1}, {}),
    "equal": (["BVEqual", "ArrayEqual"], {0: 0, 1: 1}, {}),
    "ite": (["BVIte", "ArrayIte"], {"cond": 0, "tru": 1, "fals": 2}, {}),
    "concat": (["BVConcat"], {0: 0, 1: 1}, {2: ("sum_width", {0, 1})}),
    "slice": (["BVSlice"], {"e": 0}, {"hi": ("param", 1), "lo": ("param", 2)}),
    "zero_extend": (["BVZeroExt"], {"e": 0}, {"by": ("param", 1), "width": ("width_plus", 0, 1)}),
    "sign_extend": (["BVSignExt"], {"e": 0}, {"by": ("param", 1), "width": ("width_plus", 0, 1)}),
    "array_store": (["ArrayStore"], {"array": 0, "index": 1, "data": 2}, {}),
    "array_const": (["ArrayConstant"], {"e": 0}, {"index_width": ("param", 1), "data_width": ("width_of", {0})}),
    "array_read": (["BVArrayRead"], {"array": 0, "index": 1}, {"width": ("array_data_width", 0)}),
}
for _b, _v in SAME_WIDTH_BIN.items():
    CONTRACT[_b] = ([_v], {0: 0, 1: 1}, {2: ("width_of", {0, 1})})


class _ParamIndex(dict):
    """parameter id -> position; looked up through aliases (a parameter of an inlined helper that is bound to the builder's parameter)"""

    def __contains__(self, i):
        return dict.__contains__(self, i) or (i is not None and any(canon(k) == canon(i) for k in dict.keys(self)))

    def get(self, i, d=None):
        if dict.__contains__(self, i):
            return dict.__getitem__(self, i)
        if i is not None:
            for k, v in dict.items(self):
                if canon(k) == canon(i):
                    return v
        return d

    def __getitem__(self, i):
        v = self.get(i, None)
        if v is None:
            raise KeyError(i)
        return v


def classify_attr(e, pidx, defs, depth=0):
    """abstract value of an attribute expression in a builder body"""
    e = peel(e)
    if e.get("k") == "local":
        if e["id"] in pidx:
            return ("param", pidx[e["id"]])
        init = simple_let_init(defs, e["id"])
        if init is not None and depth < 4:
            return classify_attr(init, pidx, defs, depth + 1)
        return ("?", show(e))
    b, ms = chain(e)
    names = [m[0] for m in ms]
    if b.get("k") == "local" and b["id"] in pidx:
        if names in (["get_bv_type", "unwrap"], ["get_bv_type", "expect"]):
            return ("width_of", pidx[b["id"]])
        if names in (["get_type", "get_array_data_width", "unwrap"],):
            return ("array_data_width", pidx[b["id"]])
        if names in (["get_type", "get_bit_vector_width", "unwrap"],):
            return ("width_of", pidx[b["id"]])
    if e.get("k") == "binary" and e["op"] == "+":
        l, r = classify_attr(e["l"], pidx, defs, depth + 1), classify_attr(e["r"], pidx, defs, depth + 1)
        if l[0] == "width_of" and r[0] == "width_of":
            return ("sum_width", {l[1], r[1]})
        if l[0] == "width_of" and r[0] == "param":
            return ("width_plus", l[1], r[1])
        if r[0] == "width_of" and l[0] == "param":
            return ("width_plus", r[1], l[1])
    return ("?", show(e))


def attr_ok(got, want):
    if want[0] == "width_of":
        return got[0] == "width_of" and got[1] in want[1]
    if want[0] == "sum_width":
        return got[0] == "sum_width" and got[1] == want[1]
    return tuple(got) == tuple(want)


def _follow_delegation(c, f):
    """a builder that interns nothing itself but calls a sibling Context method (`zero_extend` -> `extend(e, by, false)`) is analysed with that sibling inlined"""
    if any(n.get("k") == "mcall" and callee(n) == ADD_EXPR for n in walk(f["body"])):
        return f
    sib = {callee(n) for n in walk(f["body"]) if n.get("k") in ("mcall", "call") and (callee(n) or "").startswith(CTX + "::") and callee(n) not in (ADD_EXPR, f.get("path"))}
    raw = (c.raw_fns.get(f.get("path")) or [None])[0]
    if not sib or raw is None:
        return f
    from . import norm as norm_
    return norm_.prepare(raw, c, force=tuple(sib))


def symbol_builders(ctx, c, rule):
    """bv_symbol / array_symbol / symbol / Expr::symbol: the symbol node carries the name and the widths it was asked for, index and data width
    in their own fields (directly, or through Type / ArrayType values whose fields are matched by name)"""
    from . import norm as norm_
    NODES = "patronus::expr::nodes::"

    def pidx_of(f):
        out, k = {}, 0
        for p in f["params"]:
            b = binding_of(p)
            if b and b[0] != "self":
                out[b[1]] = k
                k += 1
        return out

    def src(e, pidx, defs, binds, depth=0):
        """("param", k) | ("named", k) for string(param k) | ("bound", field name) for a pattern binding of that field | ("?", text)"""
        e = peel(e)
        if e.get("k") == "local":
            if e["id"] in pidx:
                return ("param", pidx[e["id"]])
            if e["id"] in binds:
                return binds[e["id"]]
            init = simple_let_init(defs, e["id"])
            if init is not None and depth < 4:
                return src(init, pidx, defs, binds, depth + 1)
        if e.get("k") == "mcall" and callee(e) == CTX + "::string" and len(e["args"]) == 1:
            b_, ms_ = chain(e["args"][0])
            if peel(b_).get("k") == "local" and peel(b_)["id"] in pidx and [m[0] for m in ms_] in ([], ["into"], ["to_string"], ["to_owned"], ["into", "into"]):
                return ("named", pidx[peel(b_)["id"]])
        if e.get("k") == "field" and peel(e["e"]).get("k") == "local" and peel(e["e"])["id"] in binds and binds[peel(e["e"])["id"]] == ("bound", "<array type>"):
            return ("bound", e["name"])
        return ("?", show(e)[:40])

    def node_of(e, pidx, defs, binds):
        """(variant, {field: src}) of a symbol node expression, or a delegation ("symbol", name src, type value)"""
        e = peel(e)
        if e.get("k") == "struct" and e["path"].startswith(NODES + "Expr::"):
            return (e["path"].split("::")[-1], {x["name"]: src(x["e"], pidx, defs, binds) for x in e["fields"]})
        return None

    def type_value(e, pidx, defs, binds):
        """("BV", width src) | ("Array", iw src, dw src) for a Type constructed in place"""
        e = peel(e)
        if e.get("k") == "local":
            init = simple_let_init(defs, e["id"])
            if init is not None:
                return type_value(init, pidx, defs, binds)
        if e.get("k") == "ctor" and callee(e).endswith("Type::BV") and len(e["args"]) == 1:
            return ("BV", src(e["args"][0], pidx, defs, binds))
        if e.get("k") == "ctor" and callee(e).endswith("Type::Array") and len(e["args"]) == 1:
            a = peel(e["args"][0])
            if a.get("k") == "local":
                init = simple_let_init(defs, a["id"])
                a = peel(init) if init is not None else a
            if a.get("k") == "struct" and a["path"].endswith("ArrayType"):
                fs = {x["name"]: src(x["e"], pidx, defs, binds) for x in a["fields"]}
                return ("Array", fs.get("index_width"), fs.get("data_width"))
        return None
    # Expr::symbol(name, tpe): one arm per kind of type, widths matched by field name
    g = (c.fns.get(NODES + "Expr::symbol") or [None])[0]
    sym_ok = False
    if g is not None:
        gp = pidx_of(g)
        gdefs = local_defs(g)
        ms = [n for n in walk(g["body"]) if n.get("k") == "match" and peel(n["scrut"]).get("k") == "local" and gp.get(peel(n["scrut"])["id"]) == 1]
        got = {}
        for arm in (ms[0]["arms"] if len(ms) == 1 else []):
            pt = arm["pat"]
            while pt.get("k") in ("pref", "pderef"):
                pt = pt["pat"]
            binds = {}
            if pt.get("k") == "pvariant" and pt["path"].endswith("Type::BV") and len(pt["subs"]) == 1:
                for _, i_ in pat_bindings(pt["subs"][0]):
                    binds[i_] = ("bound", "width")
            elif pt.get("k") == "pvariant" and pt["path"].endswith("Type::Array") and len(pt["subs"]) == 1:
                sp = pt["subs"][0]
                while sp.get("k") in ("pref", "pderef"):
                    sp = sp["pat"]
                if sp.get("k") == "pstruct":
                    for fl_ in sp["fields"]:
                        for _, i_ in pat_bindings(fl_["pat"]):
                            binds[i_] = ("bound", fl_["name"])
                else:
                    for _, i_ in pat_bindings(sp):
                        binds[i_] = ("bound", "<array type>")
            nd = node_of(norm_.tail_value(arm["body"]), gp, gdefs, binds)
            if nd:
                got[nd[0]] = nd[1]
        sym_ok = got.get("BVSymbol") == {"name": ("param", 0), "width": ("bound", "width")} and \
            got.get("ArraySymbol") == {"name": ("param", 0), "index_width": ("bound", "index_width"), "data_width": ("bound", "data_width")}
        ctx.inst(rule, "builder:Expr::symbol", sym_ok, g["span"], "Expr::symbol must build BVSymbol{name, width} for Type::BV(width) and ArraySymbol{name, index_width, data_width} from the like-named fields of the array type: %s" % got,
                 sample=str(got))
    for name, want_direct, want_type in (
            ("bv_symbol", ("BVSymbol", {"name": ("named", 0), "width": ("param", 1)}), ("BV", ("param", 1))),
            ("array_symbol", ("ArraySymbol", {"name": ("named", 0), "index_width": ("param", 1), "data_width": ("param", 2)}), ("Array", ("param", 1), ("param", 2))),
            ("symbol", None, None)):
        fl = c.fns.get(CTX + "::" + name)
        if not fl:
            ctx.inst(rule, "builder:%s:missing" % name, False, None, "builder Context::%s not found (renamed or removed)" % name, nontrivial=False)
            continue
        f = fl[0]
        pidx = pidx_of(f)
        defs = local_defs(f)
        ok = False
        got = None
        res = norm_.tail_value(stmts_of(f["body"])[-1]) if stmts_of(f["body"]) else {}
        res = peel(res)
        if res.get("k") == "mcall" and callee(res) == ADD_EXPR and len(res["args"]) == 1:
            a = peel(res["args"][0])
            if a.get("k") == "local":
                init = simple_let_init(defs, a["id"])
                a = peel(init) if init is not None else a
            nd = node_of(a, pidx, defs, {})
            if nd is not None:
                got = nd
                ok = want_direct is not None and nd == want_direct
            elif a.get("k") == "call" and callee(a) == NODES + "Expr::symbol" and len(a["args"]) == 2:
                tv = type_value(a["args"][1], pidx, defs, {})
                ns = src(a["args"][0], pidx, defs, {})
                got = ("Expr::symbol", ns, tv if tv is not None else src(a["args"][1], pidx, defs, {}))
                ok = sym_ok and ((name == "symbol" and got == ("Expr::symbol", ("param", 0), ("param", 1))) or (want_type is not None and ns == ("named", 0) and tv == want_type))
        elif res.get("k") == "mcall" and callee(res) == CTX + "::symbol" and len(res["args"]) == 2 and name != "symbol":
            tv = type_value(res["args"][1], pidx, defs, {})
            ns = src(res["args"][0], pidx, defs, {})
            got = ("Context::symbol", ns, tv)
            ok = ns == ("named", 0) and tv == want_type
        ctx.inst(rule, "builder:%s" % name, ok, f["span"],
                 "Context::%s must create the symbol with the name and the widths it was given, index and data width in their own fields: builds %s" % (name, got), sample=str(got))


def check_t2(ctx, t0, rule="T2"):
    """returns {builder: row}; records contract violations under `rule`"""
    c = ctx.facts.lib("patronus")
    rows = {}
    n_sites = 0
    for name, (variants, childmap, attrs) in CONTRACT.items():
        fl = c.fns.get(CTX + "::" + name)
        if not fl:
            ctx.inst(rule, "builder:%s:missing" % name, False, None, "builder Context::%s not found (renamed or removed): readers and rewriters that rely on it cannot be checked" % name, nontrivial=False)
            continue
        f = _follow_delegation(c, fl[0])
        defs = local_defs(f)
        pidx = _ParamIndex()
        k = 0
        for p in f["params"]:
            b = binding_of(p)
            if b and b[0] != "self":
                pidx[b[1]] = k
                k += 1
        from . import norm as norm_
        from .flow import Index
        ix = Index(f["body"])
        sites = []
        for n in walk(f["body"]):
            if n.get("k") == "mcall" and callee(n) == ADD_EXPR:
                # the node built may be selected before the call: `let node = if c { A } else { B }; self.add_expr(node)`
                for conds, v_ in norm_.value_alternatives(n["args"][0]):
                    sites.append((n, conds, v_))
        n_sites += len(sites)
        seen_variants = []
        problems = []
        for s_, pre_conds, v in sites:
            v = peel(v)
            if v.get("k") == "struct":
                vp, fields = v["path"], {(int(x["name"]) if x["name"].isdigit() else x["name"]): x["e"] for x in v["fields"]}
            elif v.get("k") == "ctor":
                vp, fields = callee(v), {i: a for i, a in enumerate(v["args"])}
            else:
                problems.append("add_expr argument is not a direct Expr construction: %s" % show(v)[:60])
                continue
            vn = vname(vp)
            seen_variants.append(vn)
            if vn not in variants:
                problems.append("constructs %s, contract says %s" % (vn, "/".join(variants)))
                continue
            info = t0.variants[vn]
            for ck in info["child_keys"]:
                e = peel(fields.get(ck, {}))
                want = childmap.get(ck)
                got = pidx.get(e.get("id")) if e.get("k") == "local" else None
                if got != want:
                    problems.append("%s.%s receives parameter #%s, contract says #%s" % (vn, ck, got, want))
            for ak in info["attr_keys"]:
                if ak not in attrs:
                    continue
                got = classify_attr(fields.get(ak, {}), pidx, defs)
                if not attr_ok(got, attrs[ak]):
                    problems.append("%s.%s is %s, contract says %s" % (vn, ak, got, attrs[ak]))
            # type dispatch for two-variant builders
            if len(variants) == 2:
                okd = False
                for c_, pol in list(norm_.path_conditions(ix, s_)) + [(resolve(c0), p0) for c0, p0 in pre_conds]:
                    cb, cms = chain(c_)
                    if [m[0] for m in cms] == ["get_type", "is_bit_vector"] and cb.get("k") == "local" and cb["id"] in pidx:
                        okd = pol == vn.startswith("BV")
                    if [m[0] for m in cms] == ["get_type", "is_array"] and cb.get("k") == "local" and cb["id"] in pidx:
                        okd = pol == vn.startswith("Array")
                    if c_.get("k") == "armpat" and pol:
                        # `match x.get_type(ctx) { Type::BV(_) => .., Type::Array(_) => .. }`
                        sb, sms = chain(resolve(c_["scrut"]))
                        pp = c_["pat"]
                        while pp.get("k") in ("pref", "pderef"):
                            pp = pp["pat"]
                        if [m[0] for m in sms] == ["get_type"] and sb.get("k") == "local" and sb["id"] in pidx and pp.get("k") == "pvariant":
                            okd = (pp["path"].endswith("Type::BV") and vn.startswith("BV")) or (pp["path"].endswith("Type::Array") and vn.startswith("Array"))
                if not okd:
                    problems.append("%s is not selected by the operand's type (is_bit_vector)" % vn)
        if sorted(seen_variants) != sorted(variants):
            problems.append("constructs %s, contract says %s" % (seen_variants, variants))
        rows[name] = {"variants": variants, "children": childmap}
        ctx.inst(rule, "builder:%s" % name, not problems, f["span"], "Context::%s violates its contract: %s" % (name, "; ".join(problems)),
                 sample={"builder": name, "constructs": seen_variants})
    # normalising early returns (R05.4 depends on these): slice full range, extension by 0
    for name, shape in (("slice", "full"), ("zero_extend", "by0"), ("sign_extend", "by0")):
        fl = c.fns.get(CTX + "::" + name)
        if not fl:
            continue
        f = _follow_delegation(c, fl[0])
        pidx = {}
        k = 0
        for p in f["params"]:
            b = binding_of(p)
            if b and b[0] != "self":
                pidx[b[1]] = k
                k += 1
        from . import norm as norm_
        from .flow import Index
        ix = Index(f["body"])
        rev = {v_: k_ for k_, v_ in pidx.items()}

        def trivial(cs_):
            """the list of conjuncts is exactly the trivial-case test"""
            cj = []
            for c_ in cs_:
                cj += conjuncts(c_)
            if shape == "by0":
                c_ = cj[0] if len(cj) == 1 else {}
                return c_.get("k") == "binary" and c_["op"] == "==" and ((is_local(c_["l"], rev.get(1)) and peel(c_["r"]).get("v") == 0) or (is_local(c_["r"], rev.get(1)) and peel(c_["l"]).get("v") == 0))
            got = set()
            for x in cj:
                if x.get("k") != "binary" or x["op"] != "==":
                    continue
                for l, r in ((x["l"], x["r"]), (x["r"], x["l"])):
                    if is_local(l, rev.get(2)) and peel(r).get("v") == 0:
                        got.add("lo")
                    ll = resolve(l)
                    if ll.get("k") == "binary" and ll["op"] == "+" and ((is_local(ll["l"], rev.get(1)) and peel(ll["r"]).get("v") == 1) or (is_local(ll["r"], rev.get(1)) and peel(ll["l"]).get("v") == 1)):
                        wb, wms = chain(resolve(r))
                        if [m_[0] for m_ in wms][:1] == ["get_bv_type"] and is_local(wb, rev.get(0)):
                            got.add("hi")
            return len(cj) == 2 and got == {"lo", "hi"}
        # the operand itself is returned exactly under the trivial-case test, the node is built exactly otherwise
        leaves = [n for n in ix.nodes if n.get("k") == "local" and is_local(n, rev.get(0)) and ((ix.parent.get(id(n)) or {}).get("k") in ("return", "ireturn", "block", "blockexpr", "if"))]
        returns_operand = []
        for n in leaves:
            par = ix.parent.get(id(n))
            is_result = par.get("k") in ("return", "ireturn") or (par.get("k") == "block" and par.get("tail") is n)
            if is_result:
                returns_operand.append(n)
        adds = [n for n in ix.nodes if n.get("k") == "mcall" and callee(n) == ADD_EXPR]
        ok = len(returns_operand) == 1 and len(adds) == 1
        if ok:
            c1 = norm_.path_conditions(ix, returns_operand[0])
            c2 = norm_.path_conditions(ix, adds[0])
            ok = bool(c1) and all(pol for _, pol in c1) and trivial([c_ for c_, _ in c1]) and any((not pol) and trivial([c_]) for c_, pol in c2)
        b = {"cond": (norm_.path_conditions(ix, returns_operand[0]) or [({}, True)])[0][0]} if returns_operand else {}
        ctx.inst(rule, "builder:%s:normalises" % name, ok, f["span"], "Context::%s must return its operand unchanged exactly in the trivial case (%s) and build the node otherwise: `%s`" % (name, "full-range slice" if shape == "full" else "extension by 0", show(b.get("cond", {}))[:100]))
    ctx.floor(rule, "add_expr sites in contracted builders", n_sites, 32)
    symbol_builders(ctx, c, rule)
    # Builder wrappers forward to the same-named Context builder with the same argument order
    n_w = 0
    for path, fl in c.fns.items():
        if not path.startswith(BUILDER + "::"):
            continue
        name = path.split("::")[-1]
        if name in ("new",):
            continue
        f = fl[0]
        ps = []
        for p in f["params"]:
            b = binding_of(p)
            if b and b[0] != "self":
                ps.append(b[1])
        b = peel(peel_block(f["body"]))
        if b.get("k") != "mcall":
            continue
        n_w += 1
        tgt = callee(b) or ""
        ok = tgt == CTX + "::" + name and [local_id(a) for a in b["args"]] == ps
        ctx.inst(rule, "wrapper:%s" % name, ok, f["span"], "Builder::%s must forward to Context::%s with its arguments in order: %s" % (name, name, show(b)[:100]), nontrivial=name in CONTRACT)
    ctx.floor(rule, "Builder wrappers", n_w, 30)
    return rows
