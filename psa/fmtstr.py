"""Format-string recovery for write!/writeln!/format!/panic! call sites (from the macro call-site snippet
recorded by the extractor) and a tiny parser for the format string."""
import re
from .tree import *  # noqa


def macro_sites(crate, body, names):
    """ordered list of {site, name, snippet, node} for every distinct outermost macro call in `body`
    whose outermost macro name is in `names` (evaluation/pre-order of first node)"""
    out = []
    seen = {}          # site -> ids of all nodes below an occurrence already recorded
    for n in walk(body):
        m = n.get("mac")
        if not m or "names" not in m:
            continue
        if m["names"][-1] in names:
            below = seen.setdefault(m["site"], set())
            if id(n) in below:
                continue
            # a new occurrence of this call site (the first one, or another copy of an inlined helper)
            below.update(id(x) for x in walk(n))
            out.append({"site": m["site"], "name": m["names"][-1], "snippet": crate.macros.get(m["site"], ""), "node": n})
    return out


def split_args(s):
    """split top-level commas"""
    out, depth, cur, instr, esc = [], 0, "", False, False
    for ch in s:
        if instr:
            cur += ch
            if esc:
                esc = False
            elif ch == "\\":
                esc = True
            elif ch == '"':
                instr = False
            continue
        if ch == '"':
            instr = True
            cur += ch
        elif ch in "([{":
            depth += 1
            cur += ch
        elif ch in ")]}":
            depth -= 1
            cur += ch
        elif ch == "," and depth == 0:
            out.append(cur.strip())
            cur = ""
        else:
            cur += ch
    if cur.strip():
        out.append(cur.strip())
    return out


def parse_call(snippet):
    """`write!(w, "fmt", a, b)` -> (macro name, [args before fmt], fmt string (unescaped), [args after])"""
    m = re.match(r"\s*([A-Za-z_:]+)!\s*[\(\[\{](.*)[\)\]\}]\s*$", snippet, re.S)
    if not m:
        return None
    name, inner = m.group(1), m.group(2)
    args = split_args(inner)
    fi = None
    for i, a in enumerate(args):
        if a.startswith('"') or a.startswith('r"') or a.startswith('r#"'):
            fi = i
            break
    if fi is None:
        return name, args, None, []
    lit = args[fi]
    if lit.startswith('"'):
        body = lit[1:lit.rfind('"')]
        body = body.replace("\\\n", "")
        body = re.sub(r"\\\s*\n\s*", "", body)
        body = body.replace('\\"', '"').replace("\\\\", "\\").replace("\\n", "\n").replace("\\t", "\t")
    else:
        body = lit[lit.find('"') + 1:lit.rfind('"')]
    return name, args[:fi], body, args[fi + 1:]


def pieces(fmt, positional):
    """split a format string into literal text and placeholders.
    returns list of ('lit', text) | ('arg', expr text): `{}`/`{0}` take positional args, `{name}` inline captures"""
    out = []
    i = 0
    pos = 0
    cur = ""
    while i < len(fmt):
        ch = fmt[i]
        if ch == "{":
            if i + 1 < len(fmt) and fmt[i + 1] == "{":
                cur += "{"
                i += 2
                continue
            j = fmt.index("}", i)
            spec = fmt[i + 1:j]
            name = spec.split(":")[0]
            if cur:
                out.append(("lit", cur))
                cur = ""
            if name == "":
                out.append(("arg", positional[pos] if pos < len(positional) else "?"))
                pos += 1
            elif name.isdigit():
                out.append(("arg", positional[int(name)] if int(name) < len(positional) else "?"))
            else:
                out.append(("arg", name))
            i = j + 1
        elif ch == "}" and i + 1 < len(fmt) and fmt[i + 1] == "}":
            cur += "}"
            i += 2
        else:
            cur += ch
            i += 1
    if cur:
        out.append(("lit", cur))
    return out


def tokens(fmt, positional):
    """whitespace-separated tokens of a formatted line; a token is a list of pieces"""
    toks = [[]]
    for kind, v in pieces(fmt, positional):
        if kind == "lit":
            parts = re.split(r"(\s+)", v)
            for p in parts:
                if not p:
                    continue
                if p.isspace():
                    if toks[-1]:
                        toks.append([])
                else:
                    toks[-1].append(("lit", p))
        else:
            toks[-1].append(("arg", v))
    if not toks[-1]:
        toks.pop()
    return toks


def shape(fmt):
    """the format string with every placeholder written as `{}` (so `{x}`, `{0}` and `{}` compare equal)"""
    if fmt is None:
        return None
    out = ""
    for kind, v in pieces(fmt, ["?"] * 16):
        out += v.replace("{", "{{").replace("}", "}}") if kind == "lit" else "{}"
    return out


def arg_nodes(site):
    """HIR argument expressions of a formatting macro site, one per placeholder in placeholder order (None when not resolvable):
    the expansion binds `let args = (&a0, &a1, ..)` - explicit arguments first, then inline captures in order of first use"""
    pc = parse_call(site["snippet"] or "")
    if not pc or pc[2] is None:
        return []
    tup = None
    for n in walk(site["node"]):
        if n.get("k") == "let" and n["pat"].get("k") == "pbind" and n["pat"].get("name") == "args" and "init" in n and peel(n["init"]).get("k") == "tuple":
            tup = [peel(e) for e in peel(n["init"])["es"]]
            break
    if tup is None:
        return []
    positional = [a for a in pc[3] if not re.match(r"^[A-Za-z_][A-Za-z0-9_]*\s*=[^=]", a)]
    order = []
    marks = []
    pos = 0
    fmt = pc[2]
    i = 0
    while i < len(fmt):
        if fmt[i] == "{":
            if i + 1 < len(fmt) and fmt[i + 1] == "{":
                i += 2
                continue
            j = fmt.index("}", i)
            name = fmt[i + 1:j].split(":")[0]
            if name == "":
                marks.append(("pos", pos))
                pos += 1
            elif name.isdigit():
                marks.append(("pos", int(name)))
            else:
                marks.append(("cap", name))
            i = j + 1
        elif fmt[i] == "}" and i + 1 < len(fmt) and fmt[i + 1] == "}":
            i += 2
        else:
            i += 1
    caps = []
    for kind, v in marks:
        if kind == "cap" and v not in caps:
            caps.append(v)
    out = []
    for kind, v in marks:
        idx = v if kind == "pos" else len(positional) + caps.index(v)
        out.append(tup[idx] if idx < len(tup) else None)
    return out
