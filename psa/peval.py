"""A small partial evaluator over the normalised HIR trees: the value a function body yields when one expression (the *subject*) is known
to be a given enum variant (fields unknown) and given slices are known to have a given length.  Everything else stays symbolic.

Symbolic values:
  ("ctor", path, {field key: value})     a struct / tuple-variant construction
  ("child", slice id, i)                 element i of a slice parameter (bound by a slice pattern or indexed by a literal)
  ("attr", key)                          field `key` of the subject (bound by the pattern of the arm that matched it)
  ("subject",)                           the subject itself
  ("some", v) / ("none",)                Option values
  ("lit", v)                             literals
  ("local", id) / ("param", id)          unknown values named by a binding
  ("call", callee, [values])             a call on symbolic values
  ("tuple", [values])
  ("diverge", macro name)                the evaluation ends in panic!/todo!/unreachable!
  ("?", text)                            anything else
"""
from .tree import *  # noqa
from . import norm
from .tables import variant_pat


class Stuck(Exception):
    """the control flow depends on something that is not known"""


class _Return(Exception):
    def __init__(self, inl, value):
        self.inl, self.value = inl, value


class PEval:
    def __init__(self, is_subject, variant_path, slice_lens=None, transparent_calls=()):
        self.is_subject = is_subject              # expr -> bool
        self.variant = variant_path
        self.slice_lens = slice_lens or {}        # canon(param id) -> length
        self.transparent = transparent_calls      # callee paths returning their single interesting argument unchanged
        self.subject_ids = set()
        self.trace = []                           # calls in evaluation order: (kind, callee path / method name / local id of the called closure, [argument values])

    # ---- helpers ---------------------------------------------------------------------------------------------
    def _subject(self, e):
        e0 = peel(e)
        if e0.get("k") == "local" and canon(e0["id"]) in self.subject_ids:
            return True
        return self.is_subject(e)

    def _diverging_macro(self, e):
        for x in walk(e):
            if (x.get("k") in ("call", "mcall")) and (callee(x) or "").startswith("core::panicking"):
                names = [m for m in mac_names(x) if m in ("panic", "todo", "unimplemented", "unreachable", "assert", "assert_eq")]
                return names[-1] if names else "panic"
        return None

    def bind(self, pat, v, env):
        """bind the bindings of pat to (projections of) v; returns True / False (no match) / None (unknown)"""
        while pat.get("k") in ("pref", "pderef"):
            pat = pat["pat"]
        k = pat.get("k")
        if k == "pwild":
            return True
        if k == "pbind":
            env[pat["id"]] = v
            if v == ("subject",):
                self.subject_ids.add(canon(pat["id"]))
            return self.bind(pat["sub"], v, env) if "sub" in pat else True
        if k == "por":
            res = False
            for a in pat["alts"]:
                r = self.bind(a, v, env)
                if r is True:
                    return True
                if r is None:
                    res = None
            return res
        if k == "ptuple":
            if v[0] != "tuple" or len(v[1]) != len(pat["subs"]):
                return None
            out = True
            for sp, x in zip(pat["subs"], v[1]):
                r = self.bind(sp, x, env)
                if r is False:
                    return False
                if r is None:
                    out = None
            return out
        if k == "pslice":
            if v[0] != "slice":
                return None
            n = v[2]
            if "mid" in pat:
                if n < len(pat["before"]) + len(pat.get("after", [])):
                    return False
                for i, sp in enumerate(pat["before"]):
                    self.bind(sp, ("child", v[1], i), env)
                return True
            if len(pat["before"]) != n:
                return False
            for i, sp in enumerate(pat["before"]):
                self.bind(sp, ("child", v[1], i), env)
            return True
        if k in ("pconst", "ppath") and isinstance(v, tuple) and v and v[0] == "ctor":
            return v[1] == pat.get("path")
        vp = variant_pat(pat)
        if vp is not None:
            path, keys, _ = vp
            if v == ("subject",):
                if path != self.variant:
                    return False
                for key, sp in keys.items():
                    self.bind(sp, ("attr", key), env)
                return True
            if v[0] == "some" and path.endswith("Option::Some") and len(keys) == 1:
                return self.bind(list(keys.values())[0], v[1], env)
            if v[0] == "none":
                return True if path.endswith("Option::None") else False
            if v[0] == "some":
                return False if path.endswith("Option::None") else None
            if v[0] == "ctor":
                if v[1] != path:
                    return False
                for key, sp in keys.items():
                    self.bind(sp, v[2].get(key, ("?", "field")), env)
                return True
            return None
        if k == "plit":
            if v[0] == "lit":
                return v[1] == pat.get("v")
            return None
        return None

    # ---- evaluation --------------------------------------------------------------------------------------------
    def ev(self, e, env, depth=0):
        if depth > 60:
            raise Stuck("too deep")
        if self._subject(e):
            return ("subject",)
        # look through & / * wrappers, but never through a block that has statements (the lets of an inlined helper's parameters bind values)
        while True:
            if e.get("k") == "ref" or (e.get("k") == "unary" and e["op"] == "*" and "ovl" not in e):
                e = e["e"]
            elif e.get("k") == "blockexpr" and not e["b"]["stmts"] and "tail" in e["b"] and "inl_id" not in e:
                e = e["b"]["tail"]
            else:
                break
        k = e.get("k")
        if self._subject(e):
            return ("subject",)
        if k == "local":
            if e["id"] in env:
                return env[e["id"]]
            for i, v in env.items():
                if canon(i) == canon(e["id"]):
                    return v
            if canon(e["id"]) in self.slice_lens:
                return ("slice", canon(e["id"]), self.slice_lens[canon(e["id"])])
            return ("local", canon(e["id"]))
        if k == "lit":
            return ("lit", e.get("v"))
        if k == "tuple":
            return ("tuple", [self.ev(x, env, depth + 1) for x in e["es"]])
        if k == "struct":
            return ("ctor", e["path"], {(int(f["name"]) if str(f["name"]).isdigit() else f["name"]): self.ev(f["e"], env, depth + 1) for f in e["fields"]})
        if k == "ctor":
            c = callee(e)
            args = [self.ev(a, env, depth + 1) for a in e.get("args", [])]
            if c.endswith("Option::Some") and len(args) == 1:
                return ("some", args[0])
            if c.endswith(("Result::Ok",)) and len(args) == 1:
                return args[0]
            return ("ctor", c, {i: a for i, a in enumerate(args)})
        if k == "def":
            if (e.get("path") or "").endswith("Option::None"):
                return ("none",)
            if str(e.get("dk", "")).startswith("ctor"):
                return ("ctor", e.get("path"), {})          # a field-less variant
            r = resolve(e)
            if r is not e and r.get("k") == "lit":
                return ("lit", r.get("v"))
            return ("?", e.get("path"))
        if k in ("try", "semi", "cast"):
            return self.ev(e["e"], env, depth + 1)
        if k == "index":
            b = self.ev(e["e"], env, depth + 1)
            i = self.ev(e["i"], env, depth + 1)
            if b[0] == "slice" and i[0] == "lit" and isinstance(i[1], int):
                return ("child", b[1], i[1])
            return ("?", show(e)[:40])
        if k == "field":
            b = self.ev(e["e"], env, depth + 1)
            if b[0] == "ctor":
                key = int(e["name"]) if str(e["name"]).isdigit() else e["name"]
                return b[2].get(key, ("?", "field"))
            if b[0] == "tuple" and str(e["name"]).isdigit() and int(e["name"]) < len(b[1]):
                return b[1][int(e["name"])]
            return ("field", b, e["name"])
        if k in ("blockexpr", "block"):
            blk = e["b"] if k == "blockexpr" else e
            env2 = dict(env)
            try:
                for s_ in blk["stmts"]:
                    r = self.stmt(s_, env2, depth + 1)
                    if r is not None and r[0] == "diverge":
                        return r
                if "tail" in blk:
                    return self.ev(blk["tail"], env2, depth + 1)
                return ("unit",)
            except _Return as r:
                if k == "blockexpr" and "inl_id" in e and r.inl == e["inl_id"]:
                    return r.value
                raise
        if k in ("return", "ireturn"):
            v = self.ev(e["e"], env, depth + 1) if "e" in e else ("unit",)
            raise _Return(e.get("inl") if k == "ireturn" else None, v)
        if k == "match":
            if e.get("src") != "match":
                m = self._diverging_macro(e)
                return ("diverge", m) if m else ("?", "macro match")
            sv = self.ev(e["scrut"], env, depth + 1)
            for arm in e["arms"]:
                env2 = dict(env)
                r = self.bind(arm["pat"], sv, env2)
                if r is None:
                    raise Stuck("cannot decide whether `%s` matches" % show_pat(arm["pat"])[:40])
                if r:
                    if "guard" in arm:
                        g = self.cond(arm["guard"], env2, depth + 1)
                        if g is None:
                            raise Stuck("guard")
                        if not g:
                            continue
                    return self.ev(arm["body"], env2, depth + 1)
            raise Stuck("no arm matches")
        if k == "if":
            c = peel(e["cond"])
            if c.get("k") == "letexpr":
                sv = self.ev(c["init"], env, depth + 1)
                env2 = dict(env)
                r = self.bind(c["pat"], sv, env2)
                if r is None:
                    raise Stuck("if let")
                if r:
                    return self.ev(e["then"], env2, depth + 1)
                return self.ev(e["else"], env, depth + 1) if "else" in e else ("unit",)
            g = self.cond(e["cond"], env, depth + 1)
            if g is None:
                raise Stuck("condition `%s`" % show(e["cond"])[:40])
            if g:
                return self.ev(e["then"], env, depth + 1)
            return self.ev(e["else"], env, depth + 1) if "else" in e else ("unit",)
        if k in ("call", "mcall", "callv"):
            c = callee(e) or ""
            if c.startswith("core::panicking"):
                names = [m for m in mac_names(e) if m in ("panic", "todo", "unimplemented", "unreachable")]
                return ("diverge", names[-1] if names else "panic")
            if k == "mcall" and e["name"] in ("clone", "to_owned", "into", "as_ref", "borrow", "copied", "cloned") and not e["args"]:
                return self.ev(e["recv"], env, depth + 1)
            if k == "mcall" and e["name"] == "len" and not e["args"]:
                rv = self.ev(e["recv"], env, depth + 1)
                if rv[0] == "slice":
                    return ("lit", rv[2])
            args = [self.ev(a, env, depth + 1) for a in (call_args(e) if k == "mcall" else e.get("args", []))]
            for a in args:
                if isinstance(a, tuple) and a and a[0] == "diverge":
                    return a
            target = c or e.get("name")
            if k == "callv" and peel(e.get("f", {})).get("k") == "local":
                target = ("local", canon(peel(e["f"])["id"]))
            self.trace.append((k, target, args))
            return ("call", c or e.get("name"), args)
        m = self._diverging_macro(e) if e.get("ty") == "!" else None
        if m:
            return ("diverge", m)
        return ("?", show(e)[:40])

    def stmt(self, s_, env, depth):
        s_ = unsemi(s_)
        if s_.get("k") == "let":
            if "init" in s_:
                v = self.ev(s_["init"], env, depth)
                if v[0] == "diverge":
                    return v
                r = self.bind(s_["pat"], v, env)
                if "els" in s_ and r is not True:
                    if r is None:
                        raise Stuck("let-else")
                    return self.ev(s_["els"], env, depth)
            return None
        v = self.ev(s_, env, depth)
        return v if v[0] == "diverge" else None

    def cond(self, c, env, depth):
        """True / False / None"""
        c = resolve(c)
        k = c.get("k")
        if k == "lit" and isinstance(c.get("v"), bool):
            return c["v"]
        if k == "unary" and c["op"] == "!":
            v = self.cond(c["e"], env, depth + 1)
            return None if v is None else (not v)
        if k == "binary" and c["op"] in ("&&", "||"):
            a, b = self.cond(c["l"], env, depth + 1), self.cond(c["r"], env, depth + 1)
            if c["op"] == "&&":
                return False if (a is False or b is False) else (True if (a and b) else None)
            return True if (a is True or b is True) else (False if (a is False and b is False) else None)
        if k == "match" and len(c["arms"]) == 2 and peel(c["arms"][0]["body"]).get("v") is True and peel(c["arms"][1]["body"]).get("v") is False:
            # matches!(x, P)
            sv = self.ev(c["scrut"], env, depth + 1)
            r = self.bind(c["arms"][0]["pat"], sv, dict(env))
            return r
        if k == "binary" and c["op"] in ("==", "!=", "<", "<=", ">", ">="):
            a, b = self.ev(c["l"], env, depth + 1), self.ev(c["r"], env, depth + 1)
            if a[0] == "lit" and b[0] == "lit":
                try:
                    return {"==": a[1] == b[1], "!=": a[1] != b[1], "<": a[1] < b[1], "<=": a[1] <= b[1], ">": a[1] > b[1], ">=": a[1] >= b[1]}[c["op"]]
                except TypeError:
                    return None
        if k == "mcall" and c["name"] in ("len", "is_empty"):
            v = self.ev(c["recv"], env, depth + 1)
            if v[0] == "slice":
                return (v[2] == 0) if c["name"] == "is_empty" else None
        return None

    def run(self, f):
        env = {}
        # a parameter that is the subject stays the subject under every alias (inlined helpers re-bind it under their own parameter name)
        for p in f.get("params", []):
            for name, i in pat_bindings(p):
                if self.is_subject({"k": "local", "name": name, "id": i}):
                    self.subject_ids.add(canon(i))
        try:
            return self.ev(f["body"], env)
        except _Return as r:
            return r.value
