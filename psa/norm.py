"""Normalisation of function bodies before rules look at them:
 * inlining of *new* private single-caller helper functions (helpers extracted during maintenance), with renumbered locals
 * alias resolution for trivial re-bindings (`let x = y;`, `let x = &y;`, `let x = *y;`, parameters of inlined helpers)
The set of function paths that existed when the rules were written is kept in psa/known_fns.json: those are never inlined
(rules may name them as anchors); only functions that are new relative to that list are candidates."""
import copy
import json
import os

from .tree import *  # noqa
from . import tree as _tree

_KNOWN = None


def known_fns():
    global _KNOWN
    if _KNOWN is None:
        p = os.path.join(os.path.dirname(os.path.abspath(__file__)), "known_fns.json")
        _KNOWN = set(json.load(open(p))) if os.path.exists(p) else set()
    return _KNOWN


def _offset_ids(n, off):
    stack = [n]
    while stack:
        x = stack.pop()
        if isinstance(x, dict):
            if x.get("k") in ("local", "pbind") and isinstance(x.get("id"), int):
                x["id"] += off
            if x.get("k") == "return":
                x["inl"] = True
            for v in x.values():
                if isinstance(v, (dict, list)):
                    stack.append(v)
        elif isinstance(x, list):
            stack.extend(v for v in x if isinstance(v, (dict, list)))


def callers_of(crate):
    """callee path -> set of caller paths (direct calls only)"""
    out = {}
    for p, fl in crate.fns.items():
        for f in fl:
            for n in walk(f["body"]):
                c = callee(n) if n.get("k") in ("call", "mcall") else None
                if c:
                    out.setdefault(c, set()).add(p)
    return out


def inline_helpers(f, crate, depth=2, _callers=None, _counter=None):
    """returns a copy of f whose body has calls to new private single-caller helpers replaced by their bodies"""
    if _callers is None:
        _callers = crate.__dict__.setdefault("_callers", None) or callers_of(crate)
        crate.__dict__["_callers"] = _callers
    if _counter is None:
        _counter = [0]
    known = known_fns()
    g = dict(f)
    g["body"] = copy.deepcopy(f["body"])
    changed = [False]

    def helper_of(n):
        c = callee(n)
        if not c or c in known or c == f["path"]:
            return None
        fl = crate.fns.get(c)
        if not fl or len(fl) != 1:
            return None
        h = fl[0]
        if h.get("kind") not in ("Fn", "AssocFn") or h.get("vis") == "pub":
            return None
        if _callers.get(c, set()) - {f["path"]}:
            return None   # also used elsewhere: not a helper of this function only
        if c in known:
            return None
        return h

    def rewrite(n, d):
        if isinstance(n, list):
            return [rewrite(x, d) for x in n]
        if not isinstance(n, dict):
            return n
        for k, v in list(n.items()):
            if k != "mac" and isinstance(v, (dict, list)):
                n[k] = rewrite(v, d)
        if n.get("k") in ("call", "mcall") and d > 0:
            h = helper_of(n)
            if h is not None:
                _counter[0] += 1
                off = 100000 * _counter[0]
                body = copy.deepcopy(h["body"])
                params = copy.deepcopy(h["params"])
                _offset_ids(body, off)
                _offset_ids(params, off)
                body = rewrite(body, d - 1)
                args = call_args(n) if n["k"] == "mcall" else n["args"]
                if len(args) != len(params):
                    return n
                stmts = [{"k": "let", "pat": p, "init": a, "sp": n.get("sp"), "inl_param": True} for p, a in zip(params, args)]
                changed[0] = True
                return {"k": "blockexpr", "b": {"k": "block", "stmts": stmts, "tail": body, "sp": n.get("sp")}, "ty": n.get("ty"), "sp": n.get("sp"), "inlined_from": h["path"]}
        return n
    g["body"] = rewrite(g["body"], depth)
    g["inlined"] = changed[0]
    return g


def collect_aliases(f):
    """{id: id} for trivial re-bindings: non-mut `let x = y` / `&y` / `&mut y` / `*y` / `y.clone()` of copy refs, incl. inlined params"""
    al = {}
    for n in walk(f["body"]):
        if n.get("k") == "let" and "init" in n and n["pat"].get("k") == "pbind" and not n["pat"].get("mut") and "sub" not in n["pat"]:
            src = n["init"]
            while True:
                src = src if src.get("k") != "blockexpr" else src
                k = src.get("k")
                if k == "ref" or (k == "unary" and src["op"] == "*" and "ovl" not in src):
                    src = src["e"]
                elif k == "blockexpr" and not src["b"]["stmts"] and "tail" in src["b"]:
                    src = src["b"]["tail"]
                else:
                    break
            if src.get("k") == "local":
                al[n["pat"]["id"]] = src["id"]
    # resolve chains
    def root(i, seen=()):
        while i in al and i not in seen:
            seen = seen + (i,)
            i = al[i]
        return i
    return {i: root(i) for i in al}


def prepare(f, crate):
    """inlined copy + alias registration (idempotent per function object)"""
    g = inline_helpers(f, crate)
    _tree.ALIASES.update(collect_aliases(g))
    return g
