"""Normalisation of function bodies before rules look at them:
 * inlining of *new* private single-caller helper functions (helpers extracted during maintenance), with renumbered locals
 * alias resolution for trivial re-bindings (`let x = y;`, `let x = &y;`, `let x = *y;`, parameters of inlined helpers)
The set of function paths that existed when the rules were written is kept in psa/known_fns.json: those are never inlined
(rules may name them as anchors); only functions that are new relative to that list are candidates."""
import copy
import json
import os

from .tree import *  # noqa
from . import tree as _tree

_KNOWN = None
_FN_COUNTER = [0]


def known_fns():
    """path -> {"params": [names by position], "binds": [[name, type] in source order]} of the tree the rules were written against"""
    global _KNOWN
    if _KNOWN is None:
        p = os.path.join(os.path.dirname(os.path.abspath(__file__)), "known_fns.json")
        _KNOWN = json.load(open(p)) if os.path.exists(p) else {}
    return _KNOWN


def _tokens(e, param_names):
    """name-independent fingerprint of an initialiser: callee / method / field / path / literal tokens and referenced parameters"""
    out = set()
    for x in walk(e):
        k = x.get("k")
        if k in ("call", "ctor"):
            c = callee(x)
            if c:
                out.add("c:" + c.split("::")[-1])
        elif k == "mcall":
            out.add("m:" + x["name"])
        elif k == "field":
            out.add("f:" + str(x["name"]))
        elif k == "def":
            out.add("d:" + (x.get("path") or "").split("::")[-1])
        elif k == "lit" and "v" in x:
            out.add("l:" + str(x["v"]))
        elif k == "local" and x.get("name") in param_names:
            out.add("p:" + x["name"])
        elif k in ("binary", "unary"):
            out.add("o:" + x["op"])
        elif k in ("pvariant",):
            out.add("v:" + x["path"].split("::")[-1])
    return sorted(out)


def binding_table(f):
    """[name, type, kind, tokens] for every binding of the body in source order"""
    pn = set()
    for p in f.get("params", []):
        for name, _ in pat_bindings(p):
            pn.add(name)
    rows = []
    seen = set()

    def add(pat, kind, toks):
        for n in walk(pat):
            if n.get("k") == "pbind" and id(n) not in seen:
                seen.add(id(n))
                rows.append([n["name"], n.get("ty"), kind, toks, n])
    for n in walk(f["body"]):
        k = n.get("k")
        if k == "let":
            add(n["pat"], "let", _tokens(n["init"], pn) if "init" in n else [])
        elif k == "letexpr":
            add(n["pat"], "letexpr", _tokens(n["init"], pn))
        elif k == "for":
            add(n["pat"], "for", _tokens(n["iter"], pn))
        elif k == "match":
            st = _tokens(n["scrut"], pn)
            for arm in n["arms"]:
                add(arm["pat"], "arm", st + ["v:" + x["path"].split("::")[-1] for x in walk(arm["pat"]) if x.get("k") == "pvariant"])
        elif k == "closure":
            for p in n["params"]:
                add(p, "closure", [])
    for n in walk(f["body"]):
        if n.get("k") == "pbind" and id(n) not in seen:
            seen.add(id(n))
            rows.append([n["name"], n.get("ty"), "other", [], n])
    return rows


def signature_of(f):
    params = []
    for p in f.get("params", []):
        b = pat_bindings(p)
        params.append(b[0][0] if len(b) == 1 and p.get("k") == "pbind" else None)
    return {"params": params, "binds": [r[:4] for r in binding_table(f)]}


def rename_to_known(g):
    """names are role labels for the rules: parameters are renamed to the known names by position; local bindings are renamed
       to the known names when (a) the sequence of binding types is unchanged (a pure renaming) or (b) a binding of the same type and
       kind with a sufficiently similar, unambiguous definition fingerprint exists.  Only bindings whose name is not a known name of this
       function are touched.  Works in place on a private copy."""
    k = known_fns().get(g["path"])
    if not k:
        return
    ren = {}
    if len(k["params"]) == len(g.get("params", [])):
        for want, p in zip(k["params"], g["params"]):
            if want and p.get("k") == "pbind" and p["name"] != want:
                ren[p["id"]] = want
    # parameters first (fingerprints mention parameter names)
    if ren:
        for n in list(walk(g["body"])) + [x for p in g.get("params", []) for x in walk(p)]:
            if n.get("k") in ("local", "pbind") and n.get("id") in ren:
                n["name"] = ren[n["id"]]
    cur = binding_table(g)
    kb = k["binds"]
    ren2 = {}
    if len(cur) == len(kb) and all(r[1] == b[1] for r, b in zip(cur, kb)):
        for r, b in zip(cur, kb):
            if r[0] != b[0]:
                ren2[r[4]["id"]] = b[0]
    else:
        known_names = {b[0] for b in kb}
        cur_names = {r[0] for r in cur}
        # candidates: known bindings whose name no longer occurs; current bindings whose name is not a known one
        want = [b for b in kb if b[0] not in cur_names]
        have = [r for r in cur if r[0] not in known_names]
        scored = []
        for bi, b in enumerate(want):
            for ri, r in enumerate(have):
                if r[1] != b[1] or r[2] != b[2]:
                    continue
                A, B = set(b[3]), set(r[3])
                sc = (len(A & B) / float(len(A | B))) if (A | B) else (1.0 if r[2] != "let" else 0.0)
                scored.append((sc, bi, ri))
        scored.sort(reverse=True)
        used_b, used_r = set(), set()
        for sc, bi, ri in scored:
            if bi in used_b or ri in used_r or sc < 0.5:
                continue
            # unambiguous: no other free candidate for this known binding within 0.15
            rivals = [s2 for s2, b2, r2 in scored if b2 == bi and r2 != ri and r2 not in used_r and s2 > sc - 0.15]
            rivals2 = [s2 for s2, b2, r2 in scored if r2 == ri and b2 != bi and b2 not in used_b and s2 > sc - 0.15]
            if rivals or rivals2:
                continue
            used_b.add(bi)
            used_r.add(ri)
            ren2[have[ri][4]["id"]] = want[bi][0]
    if ren2:
        for n in list(walk(g["body"])):
            if n.get("k") in ("local", "pbind") and n.get("id") in ren2:
                n["name"] = ren2[n["id"]]
    if ren or ren2:
        g["renamed"] = sorted(set(ren.values()) | set(ren2.values()))


def _mark_returns(n, inl_id):
    """`return` of an inlined helper leaves only the inlined block: it becomes `ireturn` (returns inside closures stay)"""
    stack = [n]
    while stack:
        x = stack.pop()
        if isinstance(x, dict):
            if x.get("k") == "closure":
                continue
            if x.get("k") == "return":
                x["k"] = "ireturn"
                x["inl"] = inl_id
            for key, v in x.items():
                if key != "mac" and isinstance(v, (dict, list)):
                    stack.append(v)
        elif isinstance(x, list):
            stack.extend(v for v in x if isinstance(v, (dict, list)))


def _offset_ids(n, off, mark_returns=True):
    stack = [n]
    while stack:
        x = stack.pop()
        if isinstance(x, dict):
            if x.get("k") in ("local", "pbind") and isinstance(x.get("id"), int):
                x["id"] += off
            for v in x.values():
                if isinstance(v, (dict, list)):
                    stack.append(v)
        elif isinstance(x, list):
            stack.extend(v for v in x if isinstance(v, (dict, list)))


def callers_of(crate):
    """callee path -> set of caller paths (direct calls only)"""
    out = {}
    for p, fl in crate.raw_fns.items():
        for f in fl:
            for n in walk(f["body"]):
                c = callee(n) if n.get("k") in ("call", "mcall") else None
                if c:
                    out.setdefault(c, set()).add(p)
    return out


def inline_helpers(f, crate, depth=2, _callers=None, _counter=None, force=()):
    """returns a copy of f whose body has calls to new private single-caller helpers replaced by their bodies
    (`force`: callee paths that are inlined although they are known functions - for rules that follow a delegation between siblings)"""
    if _counter is None:
        _counter = [0]
    known = known_fns()
    if force:
        known = {k_: v_ for k_, v_ in known.items() if k_ not in force} if isinstance(known, dict) else set(known) - set(force)
    g = dict(f)
    g["body"] = copy.deepcopy(f["body"])
    g["params"] = copy.deepcopy(f.get("params", []))
    rename_to_known(g)
    # local ids are per-function in the facts: make them globally unique so that alias / let tables can be shared
    _FN_COUNTER[0] += 1
    base = 10000000 * _FN_COUNTER[0]
    _offset_ids(g["body"], base, False)
    _offset_ids(g["params"], base, False)
    changed = [False]

    def helper_of(n):
        c = callee(n)
        if not c or c in known or c == f["path"]:
            return None
        fl = crate.raw_fns.get(c)
        if not fl or len(fl) != 1:
            return None
        h = fl[0]
        if h.get("kind") not in ("Fn", "AssocFn"):
            return None
        if c in known:
            return None
        return h

    # local closures that are only ever called: `let f = |a, b| ..; f(x, y)` is treated like a helper function
    closures = {}
    for n_ in walk(g["body"]):
        if n_.get("k") == "let" and "init" in n_ and n_["pat"].get("k") == "pbind" and not n_["pat"].get("mut") and peel(n_["init"]).get("k") == "closure":
            closures[n_["pat"]["id"]] = peel(n_["init"])
    if closures:
        uses = {}
        for n_, ps in walk_parents(g["body"]):
            if n_.get("k") == "local" and n_["id"] in closures:
                par = ps[-1] if ps else None
                called = par is not None and par.get("k") == "callv" and par.get("f") is n_
                uses.setdefault(n_["id"], []).append(called)
        closures = {i: c_ for i, c_ in closures.items() if uses.get(i) and all(uses[i])}

    def _bound_ids(x):
        return {y["id"] for y in walk(x) if y.get("k") == "pbind"}

    def _offset_some(x, ids, off):
        for y in walk(x):
            if y.get("k") in ("local", "pbind") and y.get("id") in ids:
                y["id"] += off

    def rewrite(n, d):
        if isinstance(n, list):
            return [rewrite(x, d) for x in n]
        if not isinstance(n, dict):
            return n
        for k, v in list(n.items()):
            if k != "mac" and isinstance(v, (dict, list)):
                n[k] = rewrite(v, d)
        if n.get("k") == "callv" and peel(n["f"]).get("k") == "local" and peel(n["f"])["id"] in closures and d > 0:
            cl = closures[peel(n["f"])["id"]]
            if len(cl["params"]) == len(n["args"]):
                _counter[0] += 1
                off = 100000 * _counter[0]
                body = copy.deepcopy(cl["body"])
                params = copy.deepcopy(cl["params"])
                own = set()
                for p_ in params:
                    own |= _bound_ids(p_)
                own |= _bound_ids(body)
                _offset_some(body, own, off)
                for p_ in params:
                    _offset_some(p_, own, off)
                _mark_returns(body, base + off)
                stmts = [{"k": "let", "pat": p_, "init": a, "sp": n.get("sp"), "inl_param": True} for p_, a in zip(params, n["args"])]
                changed[0] = True
                return {"k": "blockexpr", "b": {"k": "block", "stmts": stmts, "tail": body, "sp": n.get("sp")}, "ty": n.get("ty"), "sp": n.get("sp"), "inlined_from": "closure " + str(peel(n["f"]).get("name")), "inl_id": base + off}
        if n.get("k") in ("call", "mcall") and d > 0:
            h = helper_of(n)
            if h is not None:
                _counter[0] += 1
                off = base + 100000 * _counter[0]
                body = copy.deepcopy(h["body"])
                params = copy.deepcopy(h["params"])
                _offset_ids(body, off)
                _offset_ids(params, off)
                _mark_returns(body, off)
                body = rewrite(body, d - 1)
                args = call_args(n) if n["k"] == "mcall" else n["args"]
                if len(args) != len(params):
                    return n
                stmts = [{"k": "let", "pat": p, "init": a, "sp": n.get("sp"), "inl_param": True} for p, a in zip(params, args)]
                changed[0] = True
                return {"k": "blockexpr", "b": {"k": "block", "stmts": stmts, "tail": body, "sp": n.get("sp")}, "ty": n.get("ty"), "sp": n.get("sp"), "inlined_from": h["path"], "inl_id": off}
        return n
    g["body"] = rewrite(g["body"], depth)
    g["inlined"] = changed[0]
    if changed[0]:
        g["body"] = push_continuations(g["body"])
        push_option_adapters(g["body"])
    return g


def _path_tail(p):
    return "::".join(p.split("::")[-2:])


def match_value(pat, v):
    """does the value expression v match pat?  [(binding pattern, value)..] if certainly yes, False if certainly not, None if unknown"""
    while pat.get("k") in ("pref", "pderef"):
        pat = pat["pat"]
    k = pat.get("k")
    if k == "pwild":
        return []
    if k == "pbind" and "sub" not in pat:
        return [(pat, v)]
    v = tail_value(v)
    if k == "pvariant":
        if v.get("k") == "ctor" or (v.get("k") == "def" and str(v.get("dk", "")).startswith("ctor")):
            vp = callee(v) if v.get("k") == "ctor" else v.get("path", "")
            if not vp:
                return None
            if _path_tail(vp) != _path_tail(pat["path"]):
                # a different variant of the same enum: certainly no match; otherwise unknown
                return False if vp.split("::")[-2:-1] == pat["path"].split("::")[-2:-1] else None
            args = v.get("args", [])
            if pat.get("rest") or len(args) != len(pat.get("subs", [])):
                return None if args or pat.get("subs") else []
            out = []
            for sp_, a in zip(pat["subs"], args):
                r = match_value(sp_, a)
                if r is None or r is False:
                    return r
                out += r
            return out
        return None
    if k == "plit":
        if v.get("k") == "lit" and "v" in v and "v" in pat:
            return [] if v["v"] == pat["v"] else False
        return None
    return None


def _tail_leaves(e, out):
    """value leaves in tail position of e (through blocks, if/else, match); appends (holder, key) pairs so that a leaf can be replaced"""
    def rec(holder, key):
        x = holder[key]
        k = x.get("k")
        if k == "blockexpr":
            if "tail" in x["b"]:
                rec(x["b"], "tail")
            else:
                out.append((holder, key, True))
        elif k == "block":
            if "tail" in x:
                rec(x, "tail")
            else:
                out.append((holder, key, True))
        elif k == "if" and "else" in x:
            rec(x, "then")
            rec(x, "else")
        elif k == "match":
            for arm in x["arms"]:
                rec(arm, "body")
        else:
            out.append((holder, key, x.get("ty") == "!" or k in ("return", "ireturn", "break", "continue")))
    rec(e[0], e[1])


def push_option_adapters(root):
    """`<block / match / if whose every value is Some(v) or None>.ok_or_else(|| E)` (also ok_or, unwrap_or, unwrap_or_else) is the same block with
    Some(v) -> Ok(v) / v and None -> Err(E) / the default: the adapter is pushed into the leaves (typical after a lookup helper was inlined)"""
    def leaves(e, out):
        e0 = e
        while e0.get("k") == "blockexpr" and "tail" in e0["b"]:
            holder = e0["b"]
            e0 = holder["tail"]
            last = (holder, "tail")
        else:
            last = None
        k = e0.get("k")
        if k == "match" and e0.get("src", "match") == "match":
            return all(leaves_in(arm, "body", out) for arm in e0["arms"])
        if k == "if" and "else" in e0:
            return leaves_in(e0, "then", out) and leaves_in(e0, "else", out)
        return False

    def leaves_in(holder, key, out):
        e = holder[key]
        t = e
        h, kk = holder, key
        while t.get("k") == "blockexpr" and "tail" in t["b"] and not t["b"]["stmts"]:
            h, kk = t["b"], "tail"
            t = t["b"]["tail"]
        if _diverges(t):
            return True
        if t.get("k") == "ctor" and (callee(t) or "").endswith("Option::Some") and len(t.get("args", [])) == 1:
            out.append((h, kk, "some"))
            return True
        if t.get("k") == "def" and (t.get("path") or "").endswith("Option::None"):
            out.append((h, kk, "none"))
            return True
        if t.get("k") in ("match", "if", "blockexpr"):
            return leaves(t, out)
        return False

    def visit(holder, key):
        n = holder[key]
        if isinstance(n, list):
            for i in range(len(n)):
                visit(n, i)
            return
        if not isinstance(n, dict):
            return
        for k_ in list(n.keys()):
            if k_ != "mac" and isinstance(n[k_], (dict, list)):
                visit(n, k_)
        if n.get("k") == "mcall" and n["name"] in ("ok_or", "ok_or_else", "unwrap_or", "unwrap_or_else") and "Option" in (n.get("path") or "") and len(n.get("args", [])) == 1:
            recv = n["recv"]
            r0 = recv
            while r0.get("k") == "blockexpr" and "tail" in r0["b"]:
                r0 = r0["b"]["tail"]
            if r0.get("k") not in ("match", "if"):
                return
            out = []
            if not leaves(recv, out) or not out:
                return
            d = n["args"][0]
            if n["name"].endswith("_else"):
                cl = d
                while cl.get("k") in ("ref",):
                    cl = cl["e"]
                if cl.get("k") != "closure" or cl.get("params"):
                    return
                d = cl["body"]
            for h, kk, what in out:
                leaf = h[kk]
                if n["name"].startswith("ok_or"):
                    if what == "some":
                        h[kk] = {"k": "ctor", "dk": "ctor_variant", "path": "core::result::Result::Ok", "args": leaf["args"], "ty": n.get("ty"), "sp": leaf.get("sp")}
                    else:
                        h[kk] = {"k": "ctor", "dk": "ctor_variant", "path": "core::result::Result::Err", "args": [copy.deepcopy(d)], "ty": n.get("ty"), "sp": leaf.get("sp")}
                else:
                    h[kk] = leaf["args"][0] if what == "some" else copy.deepcopy(d)
            holder[key] = recv
    wrapper = {"r": root}
    visit(wrapper, "r")


_COPY_COUNTER = [0]


def push_continuations(root):
    """`if let P = <inlined helper>[?] {A} else {C}` / `match <inlined helper>[?] {..}` / `if <inlined helper> {A} else {C}`:
    when every exit value of the helper is a literal constructor, the selected branch is moved to the helper's exit
    (case-of-case), so that the branch is seen under the helper's own conditions - the code as it was before the helper was extracted."""
    def visit(holder, key):
        n = holder[key]
        if isinstance(n, list):
            for i in range(len(n)):
                visit(n, i)
            return
        if not isinstance(n, dict):
            return
        for k_ in list(n.keys()):
            if k_ != "mac" and isinstance(n[k_], (dict, list)):
                visit(n, k_)
        kind = n.get("k")
        arms = None
        if kind == "if":
            c = n["cond"]
            while c.get("k") == "blockexpr" and not c["b"]["stmts"] and "tail" in c["b"] and "inl_id" not in c:
                c = c["b"]["tail"]
            els = n.get("else", {"k": "blockexpr", "b": {"k": "block", "stmts": []}, "ty": "()"})
            if c.get("k") == "letexpr":
                scrut, arms = c["init"], [(c["pat"], n["then"]), ({"k": "pwild"}, els)]
            else:
                scrut, arms = c, [({"k": "plit", "v": True}, n["then"]), ({"k": "plit", "v": False}, els)]
        elif kind == "match" and all("guard" not in a for a in n["arms"]):
            scrut, arms = n["scrut"], [(a["pat"], a["body"]) for a in n["arms"]]
        if not arms:
            return
        has_try = False
        x = scrut
        while True:
            if x.get("k") == "try":
                if has_try:
                    return
                has_try, x = True, x["e"]
            elif x.get("k") == "blockexpr" and "inl_id" not in x and not x["b"]["stmts"] and "tail" in x["b"]:
                x = x["b"]["tail"]
            else:
                break
        if x.get("k") != "blockexpr" or "inl_id" not in x:
            return
        iid = x["inl_id"]
        exits = []          # (kind, node or (holder,key))
        for y in walk(x["b"]):
            if y.get("k") == "ireturn" and y.get("inl") == iid:
                exits.append(("iret", y))
        leaves = []
        _tail_leaves((x, "b"), leaves)
        for h_, k2, div in leaves:
            if not div:
                exits.append(("leaf", (h_, k2)))
        plan = []
        for ek, tgt in exits:
            v = tgt.get("e") if ek == "iret" else tgt[0][tgt[1]]
            if v is None:
                return
            v = tail_value(v)
            if has_try:
                if v.get("k") == "ctor" and callee(v).endswith("Result::Ok") and len(v["args"]) == 1:
                    v = v["args"][0]
                elif v.get("k") == "ctor" and callee(v).endswith("Result::Err"):
                    plan.append((ek, tgt, "err", None, None))
                    continue
                else:
                    return
            chosen = None
            for pat, body in arms:
                r = match_value(pat, v)
                if r is None:
                    return
                if r is False:
                    continue
                chosen = (r, body)
                break
            if chosen is None:
                return
            plan.append((ek, tgt, "val", chosen[0], chosen[1]))
        if not plan:
            return
        for ek, tgt, what, binds, body in plan:
            if what == "err":
                if ek == "iret":
                    tgt["k"] = "return"
                    tgt.pop("inl", None)
                else:
                    old = tgt[0][tgt[1]]
                    tgt[0][tgt[1]] = {"k": "return", "e": old, "ty": "!", "sp": old.get("sp")}
                continue
            # every copy of the continuation gets its own binding ids (lets / patterns inside it and the pattern of the selected branch):
            # the global let / alias tables are keyed by id
            _COPY_COUNTER[0] += 1
            off_ = 10 ** 12 + 10 ** 6 * _COPY_COUNTER[0]
            body_c = copy.deepcopy(body)
            binds_c = [(copy.deepcopy(p_), val) for p_, val in binds]
            bound_ = {y["id"] for y in walk(body_c) if y.get("k") == "pbind" and isinstance(y.get("id"), int)}
            for p_, _v in binds_c:
                bound_ |= {y["id"] for y in walk(p_) if y.get("k") == "pbind" and isinstance(y.get("id"), int)}
            if bound_:
                for part in [body_c] + [p_ for p_, _v in binds_c]:
                    for y in walk(part):
                        if y.get("k") in ("local", "pbind") and y.get("id") in bound_:
                            y["id"] = y["id"] + off_
            stmts = [{"k": "let", "pat": p_, "init": val, "sp": val.get("sp"), "inl_param": True} for p_, val in binds_c]
            rep = {"k": "blockexpr", "b": {"k": "block", "stmts": stmts, "tail": body_c, "sp": body.get("sp")}, "ty": body.get("ty"), "sp": body.get("sp"), "cont_of": iid}
            if ek == "iret":
                tgt["e"] = rep
            else:
                tgt[0][tgt[1]] = rep
        x["ty"] = n.get("ty")
        x["case_of_case"] = True
        holder[key] = x
    box = {"r": root}
    visit(box, "r")
    return box["r"]



def collect_aliases(f):
    """{id: id} for trivial re-bindings: non-mut `let x = y` / `&y` / `&mut y` / `*y` / `y.clone()` of copy refs, incl. inlined params"""
    al = {}
    for n in walk(f["body"]):
        if n.get("k") == "let" and "init" in n and n["pat"].get("k") == "pbind" and not n["pat"].get("mut") and "sub" not in n["pat"]:
            src = n["init"]
            while True:
                src = src if src.get("k") != "blockexpr" else src
                k = src.get("k")
                if k == "ref" or (k == "unary" and src["op"] == "*" and "ovl" not in src):
                    src = src["e"]
                elif k == "blockexpr" and "tail" in src["b"]:
                    # `let a = { let mut v = ..; ..; v };` (also an inlined helper that builds and returns a value): a stands for v
                    src = src["b"]["tail"]
                elif k == "ctor" and callee(src).endswith(("Result::Ok",)) and len(src.get("args", [])) == 1 and False:
                    src = src["args"][0]
                else:
                    break
            if src.get("k") == "local":
                al[n["pat"]["id"]] = src["id"]
        elif n.get("k") == "let" and "init" in n and n["pat"].get("k") == "ptuple" and "els" not in n:
            # `let (a, b) = match X { P => (x, y), _ => <diverges> };`: a, b stand for x, y
            init = n["init"]
            while init.get("k") == "blockexpr" and not init["b"]["stmts"] and "tail" in init["b"]:
                init = init["b"]["tail"]
            if init.get("k") == "match":
                live = [a_ for a_ in init["arms"] if not (a_["body"].get("ty") == "!" or _diverges(a_["body"]))]
                if len(live) == 1:
                    t = tail_value(live[0]["body"])
                    if t.get("k") == "tuple" and len(t["es"]) == len(n["pat"]["subs"]):
                        for sp_, e_ in zip(n["pat"]["subs"], t["es"]):
                            e_ = peel(e_)
                            if sp_.get("k") == "pbind" and not sp_.get("mut") and e_.get("k") == "local":
                                al[sp_["id"]] = e_["id"]
    # resolve chains
    def root(i, seen=()):
        while i in al and i not in seen:
            seen = seen + (i,)
            i = al[i]
        return i
    return {i: root(i) for i in al}


def split_tuple_lets(root):
    """`let (a, b) = (x, y);` becomes `let a = x; let b = y;` (the initialisers are evaluated in the same order)"""
    for n in walk(root):
        if n.get("k") == "block" and any(s_.get("k") == "let" and s_["pat"].get("k") == "ptuple" and "init" in s_ and "els" not in s_ and tail_value(s_["init"]).get("k") == "tuple" for s_ in n["stmts"]):
            out = []
            for s_ in n["stmts"]:
                if s_.get("k") == "let" and s_["pat"].get("k") == "ptuple" and "init" in s_ and "els" not in s_:
                    t = tail_value(s_["init"])
                    if t.get("k") == "tuple" and len(t["es"]) == len(s_["pat"]["subs"]) and not s_["pat"].get("rest"):
                        for sp_, e in zip(s_["pat"]["subs"], t["es"]):
                            out.append({"k": "let", "pat": sp_, "init": e, "sp": s_.get("sp"), "split": True})
                        continue
                out.append(s_)
            n["stmts"] = out


def apply_ctor_values(root):
    """`let mk = Expr::BVAnd; mk(a, b, w)` (a constructor passed as a function value, e.g. to an inlined helper) is the construction itself"""
    lets = {}
    for n in walk(root):
        if n.get("k") == "let" and "init" in n and n["pat"].get("k") == "pbind" and not n["pat"].get("mut"):
            init = peel(n["init"])
            if init.get("k") == "def" and str(init.get("dk", "")).startswith("ctor"):
                lets[n["pat"]["id"]] = init
    if not lets:
        return
    for n in walk(root):
        if n.get("k") == "callv" and peel(n["f"]).get("k") == "local" and peel(n["f"])["id"] in lets:
            d = lets[peel(n["f"])["id"]]
            n["k"] = "ctor"
            n["dk"] = d.get("dk")
            n["path"] = d["path"]
            n.pop("f", None)


def desugar_bool_adapters(root):
    """`c.then_some(v)` is `if c { Some(v) } else { None }`, `c.then(|| v)` likewise"""
    def visit(holder, key):
        n = holder[key]
        if isinstance(n, list):
            for i in range(len(n)):
                visit(n, i)
            return
        if not isinstance(n, dict):
            return
        for k_ in list(n.keys()):
            if k_ != "mac" and isinstance(n[k_], (dict, list)):
                visit(n, k_)
        if n.get("k") == "mcall" and n["name"] in ("then_some", "then") and len(n.get("args", [])) == 1 and "bool" in (n.get("path") or "") + (n["recv"].get("ty") or ""):
            v = n["args"][0]
            if n["name"] == "then":
                cl = v
                while cl.get("k") == "ref":
                    cl = cl["e"]
                if cl.get("k") != "closure" or cl.get("params"):
                    return
                v = cl["body"]
            some = {"k": "ctor", "dk": "ctor_variant", "path": "core::option::Option::Some", "args": [v], "ty": n.get("ty"), "sp": n.get("sp")}
            none = {"k": "def", "dk": "ctor_variant", "path": "core::option::Option::None", "ty": n.get("ty"), "sp": n.get("sp")}
            holder[key] = {"k": "if", "cond": n["recv"], "then": {"k": "blockexpr", "b": {"k": "block", "stmts": [], "tail": some}, "ty": n.get("ty")},
                           "else": {"k": "blockexpr", "b": {"k": "block", "stmts": [], "tail": none}, "ty": n.get("ty")}, "ty": n.get("ty"), "sp": n.get("sp"), "desugared": n["name"]}
        if n.get("k") == "mcall" and n["name"] == "filter" and len(n.get("args", [])) == 1 and "Option" in (n.get("path") or "") and "Option<" in str(n.get("ty", "")):
            # `x.filter(|_| c)` with a closure that ignores its argument is `if c { x } else { None }`
            cl = n["args"][0]
            while cl.get("k") == "ref":
                cl = cl["e"]
            if cl.get("k") == "closure" and len(cl.get("params", [])) == 1:
                bound = {i for _, i in pat_bindings(cl["params"][0])}
                if not any(x.get("k") == "local" and x["id"] in bound for x in walk(cl["body"])):
                    none = {"k": "def", "dk": "ctor_variant", "path": "core::option::Option::None", "ty": n.get("ty"), "sp": n.get("sp")}
                    holder[key] = {"k": "if", "cond": cl["body"], "then": {"k": "blockexpr", "b": {"k": "block", "stmts": [], "tail": n["recv"]}, "ty": n.get("ty")},
                                   "else": {"k": "blockexpr", "b": {"k": "block", "stmts": [], "tail": none}, "ty": n.get("ty")}, "ty": n.get("ty"), "sp": n.get("sp"), "desugared": "filter"}
    box = {"r": root}
    visit(box, "r")
    return box["r"]


def unroll_literal_loops(root):
    """`for P in [e1, e2] { body }` (a literal array of at most four elements, directly or through an immutable let; no break / continue for this
    loop) is `{ let P = e1; body } { let P = e2; body }`: rules see each element's pass on its own"""
    lets = {}
    for n in walk(root):
        if n.get("k") == "let" and "init" in n and n["pat"].get("k") == "pbind" and not n["pat"].get("mut") and "els" not in n:
            lets[n["pat"]["id"]] = n["init"]

    def array_of(it):
        """(array literal, flattened?): `[a, b]`, `[a, b].iter()`, `[a, b].into_iter().flatten()` (elements are Options; None is skipped)"""
        it = peel(it)
        flat = False
        for _ in range(5):
            if it.get("k") == "mcall" and it["name"] in ("into_iter", "iter") and not it["args"]:
                it = peel(it["recv"])
            elif it.get("k") == "mcall" and it["name"] == "flatten" and not it["args"] and not flat:
                flat = True
                it = peel(it["recv"])
            elif it.get("k") == "local" and it["id"] in lets:
                it = peel(lets[it["id"]])
            else:
                break
        if it.get("k") == "array" and 1 <= len(it.get("es", [])) <= 4:
            if flat and not all("Option<" in str(peel(e_).get("ty", "")) for e_ in it["es"]):
                return None
            return it, flat
        return None

    def own_jumps(body):
        # break / continue that target this loop (not a nested one)
        stack = [body]
        while stack:
            x = stack.pop()
            if isinstance(x, dict):
                if x.get("k") in ("break", "continue"):
                    return True
                if x.get("k") in ("for", "while", "loop", "closure"):
                    continue
                stack.extend(v for k_, v in x.items() if k_ != "mac" and isinstance(v, (dict, list)))
            elif isinstance(x, list):
                stack.extend(v for v in x if isinstance(v, (dict, list)))
        return False

    def visit(holder, key):
        n = holder[key]
        if isinstance(n, list):
            for i in range(len(n)):
                visit(n, i)
            return
        if not isinstance(n, dict):
            return
        for k_ in list(n.keys()):
            if k_ != "mac" and isinstance(n[k_], (dict, list)):
                visit(n, k_)
        if n.get("k") == "for":
            arr = array_of(n["iter"])
            if arr is None or own_jumps(n["body"]):
                return
            arr, flat = arr
            copies = []
            for el in arr["es"]:
                _COPY_COUNTER[0] += 1
                off_ = 10 ** 12 + 10 ** 6 * _COPY_COUNTER[0]
                body_c = copy.deepcopy(n["body"])
                pat_c = copy.deepcopy(n["pat"])
                bound_ = {y["id"] for part in (body_c, pat_c) for y in walk(part) if y.get("k") == "pbind" and isinstance(y.get("id"), int)}
                for part in (body_c, pat_c):
                    for y in walk(part):
                        if y.get("k") in ("local", "pbind") and y.get("id") in bound_:
                            y["id"] = y["id"] + off_
                if flat:
                    # the element is an Option: its pass runs only for Some(P)
                    some_pat = {"k": "pvariant", "path": "core::option::Option::Some", "subs": [pat_c], "ty": peel(el).get("ty")}
                    copies.append({"k": "semi", "e": {"k": "if", "cond": {"k": "letexpr", "pat": some_pat, "init": el, "ty": "bool", "sp": n.get("sp")}, "then": body_c, "ty": "()", "sp": n.get("sp"),
                                                      "unrolled": True}})
                    continue
                copies.append({"k": "semi", "e": {"k": "blockexpr", "b": {"k": "block", "stmts": [{"k": "let", "pat": pat_c, "init": el, "sp": n.get("sp"), "unrolled": True},
                                                                                                      {"k": "semi", "e": body_c}]}, "ty": "()", "sp": n.get("sp")}})
            holder[key] = {"k": "blockexpr", "b": {"k": "block", "stmts": copies}, "ty": "()", "sp": n.get("sp"), "unrolled_for": True}
    box = {"r": root}
    visit(box, "r")
    return box["r"]


def _fresh_copy(node):
    """deep copy with fresh ids for the bindings introduced inside it"""
    _COPY_COUNTER[0] += 1
    off_ = 10 ** 12 + 10 ** 6 * _COPY_COUNTER[0]
    c = copy.deepcopy(node)
    bound_ = {y["id"] for y in walk(c) if y.get("k") == "pbind" and isinstance(y.get("id"), int)}
    for y in walk(c):
        if y.get("k") in ("local", "pbind") and y.get("id") in bound_:
            y["id"] = y["id"] + off_
    return c


def split_tuple_matches(root):
    """`match (a, b) { (P1, Q1) => x, (_, Q2) => y, .. }` where the patterns of the first component only classify (field-less variants, literals,
    `Some(<literal>)`, wildcards) is the nested `match a { P1 => match b { Q1 => x, Q2 => y, .. }, _ => match b { Q2 => y, .. } }`: the arms that can
    apply to a class, in their order.  `match o { Some(0) => x, Some(_) => y, None => z }` is `if let Some(t) = o { match t { 0 => x, _ => y } } else { z }`.
    Rules written for a dispatch on one value then see the flattened forms as well."""
    def strip(p):
        while p.get("k") in ("pref", "pderef"):
            p = p["pat"]
        return p

    def key_of(p):
        """classification key of a first-component pattern alternative: None = catch-all, False = not a pure classification"""
        p = strip(p)
        k = p.get("k")
        if k == "pwild":
            return None
        if k in ("pconst", "ppath") or (k == "pstruct" and not p.get("fields")):
            return ("v", p.get("path"), ())
        if k == "pvariant":
            subs = []
            for x in p.get("subs", []):
                x = strip(x)
                if x.get("k") == "pwild":
                    subs.append(None)
                elif x.get("k") == "plit" and not isinstance(x.get("v"), (list, dict)):
                    subs.append(("l", repr(x.get("v"))))
                else:
                    return False
            return ("v", p.get("path"), tuple(subs))
        if k == "plit" and not isinstance(p.get("v"), (list, dict)):
            return ("l", repr(p.get("v")))
        return False

    def subsumes(pk, k):
        if pk is None:
            return True
        if k is None:
            return False
        if pk[0] == "l" or k[0] == "l":
            return pk == k
        return pk[1] == k[1] and len(pk[2]) == len(k[2]) and all(a is None or a == b for a, b in zip(pk[2], k[2]))

    def simple(e):
        e = peel(e)
        while e.get("k") in ("field", "unary") and (e.get("k") == "field" or e.get("op") == "*"):
            e = peel(e["e"])
        return e.get("k") in ("local", "lit")

    def single(arms, scrut, n):
        """a match with one unguarded catch-all arm is its body (arms after an unguarded catch-all are dead)"""
        for i_, a_ in enumerate(arms):
            p_ = strip(a_["pat"])
            if "guard" not in a_ and (p_.get("k") == "pwild" or (p_.get("k") == "pbind" and "sub" not in p_)):
                arms = arms[:i_ + 1]
                break
        if len(arms) == 1 and "guard" not in arms[0]:
            p = strip(arms[0]["pat"])
            if p.get("k") == "pwild":
                return arms[0]["body"]
            if p.get("k") == "pbind" and "sub" not in p:
                return {"k": "blockexpr", "b": {"k": "block", "stmts": [{"k": "let", "pat": p, "init": scrut, "sp": n.get("sp")}], "tail": arms[0]["body"]}, "ty": n.get("ty"), "sp": n.get("sp")}
        return {"k": "match", "scrut": scrut, "arms": arms, "ty": n.get("ty"), "sp": n.get("sp"), "src": "match", "split_from_tuple": True}

    def split_tuple(holder, key, n):
        sc = peel(n["scrut"])
        if sc.get("k") != "tuple" or len(sc.get("es", [])) < 2 or not all(simple(x) for x in sc["es"]):
            return False
        rows = []          # (keys of the first component [None = any], rest pattern, arm)
        for arm in n["arms"]:
            p = strip(arm["pat"])
            if p.get("k") == "pwild":
                rows.append(([None], {"k": "pwild"}, arm))
                continue
            if p.get("k") != "ptuple" or len(p.get("subs", [])) != len(sc["es"]) or p.get("rest"):
                return False
            ks = [key_of(a) for a in pat_alts(p["subs"][0])]
            if any(k is False for k in ks):
                return False
            rest = p["subs"][1] if len(sc["es"]) == 2 else dict(p, subs=p["subs"][1:])
            rows.append((ks, rest, arm))
        order = []
        for ks, _, _ in rows:
            for k in ks:
                if k is not None and k not in order:
                    if any(subsumes(o, k) for o in order):
                        return False        # a class listed after a more general one: the arm order matters across classes
                    order.append(k)
        if not order or not any(None in ks or any(subsumes(k, o) and k != o for k in ks for o in order) for ks, _, _ in rows):
            return False          # nothing to regroup: every arm names exactly its own class
        first_pat = {}
        for ks, _, arm in rows:
            p = strip(arm["pat"])
            if p.get("k") == "ptuple":
                for a in pat_alts(p["subs"][0]):
                    if key_of(a) is not None:
                        first_pat.setdefault(key_of(a), a)
        used = set()

        def inner(sel):
            arms = []
            for ks, rest, arm in rows:
                if any(subsumes(k, sel) for k in ks):
                    a2 = dict(arm, pat=rest)
                    if id(arm) in used:
                        a2 = _fresh_copy(a2)
                    used.add(id(arm))
                    arms.append(a2)
            rest_scrut = sc["es"][1] if len(sc["es"]) == 2 else dict(sc, es=sc["es"][1:])
            return single(arms, rest_scrut, n)
        outer_arms = [{"pat": first_pat[k], "body": inner(k), "sp": n.get("sp")} for k in order]
        if any(None in ks for ks, _, _ in rows):
            outer_arms.append({"pat": {"k": "pwild"}, "body": inner(None), "sp": n.get("sp")})
        holder[key] = {"k": "match", "scrut": sc["es"][0], "arms": outer_arms, "ty": n.get("ty"), "sp": n.get("sp"), "src": "match", "split_from_tuple": True}
        return True

    def peel_option(holder, key, n):
        """Some(<literal>) / Some(_) / None / _ arms -> if let Some(t) = scrut { match t { literal arms } } else { None arm }"""
        if any("guard" in a for a in n["arms"]) or not simple(n["scrut"]):
            return False
        kinds = []
        for arm in n["arms"]:
            p = strip(arm["pat"])
            if p.get("k") == "pwild":
                kinds.append(("any", None))
            elif p.get("k") in ("pvariant", "pconst", "ppath") and p.get("path", "").endswith("Option::None"):
                kinds.append(("none", None))
            elif p.get("k") == "pvariant" and p.get("path", "").endswith("Option::Some") and len(p.get("subs", [])) == 1 and all(
                    strip(a).get("k") in ("plit", "pwild") for a in pat_alts(p["subs"][0])):
                kinds.append(("some", p["subs"][0]))
            else:
                return False
        if not any(k == "some" and any(strip(a).get("k") == "plit" for a in pat_alts(sp)) for k, sp in kinds):
            return False
        _COPY_COUNTER[0] += 1
        tid = 10 ** 12 + 10 ** 6 * _COPY_COUNTER[0] + 1
        pty = None
        inner_arms, else_body = [], None
        for (k, sp), arm in zip(kinds, n["arms"]):
            if k in ("some", "any"):
                inner_arms.append(dict(arm, pat=sp if k == "some" else {"k": "pwild"}) if k == "some" or else_body is not None else _fresh_copy(dict(arm, pat={"k": "pwild"})))
                if k == "some":
                    pty = strip(pat_alts(sp)[0]).get("ty") or pty
            if k in ("none", "any") and else_body is None:
                else_body = arm["body"]
        if else_body is None:
            return False
        tlocal = {"k": "local", "id": tid, "name": "matched", "ty": pty}
        some_pat = {"k": "pvariant", "path": "core::option::Option::Some", "subs": [{"k": "pbind", "id": tid, "name": "matched", "ty": pty}]}
        holder[key] = {"k": "if", "cond": {"k": "letexpr", "pat": some_pat, "init": n["scrut"], "ty": "bool", "sp": n.get("sp")},
                       "then": {"k": "blockexpr", "b": {"k": "block", "stmts": [], "tail": single(inner_arms, tlocal, n)}, "ty": n.get("ty"), "sp": n.get("sp")},
                       "else": else_body if else_body.get("k") == "blockexpr" else {"k": "blockexpr", "b": {"k": "block", "stmts": [], "tail": else_body}, "ty": n.get("ty"), "sp": n.get("sp")},
                       "ty": n.get("ty"), "sp": n.get("sp"), "split_from_tuple": True}
        return True

    def peel_bool(holder, key, n):
        """`match b { true => x, _ => y }` is `if b { x } else { y }`"""
        if len(n["arms"]) != 2 or any("guard" in a for a in n["arms"]):
            return False
        p0, p1 = strip(n["arms"][0]["pat"]), strip(n["arms"][1]["pat"])
        if not (p0.get("k") == "plit" and isinstance(p0.get("v"), bool)):
            return False
        if not (p1.get("k") == "pwild" or (p1.get("k") == "plit" and p1.get("v") is (not p0["v"]))):
            return False
        def blk(b):
            return b if b.get("k") == "blockexpr" else {"k": "blockexpr", "b": {"k": "block", "stmts": [], "tail": b}, "ty": n.get("ty"), "sp": b.get("sp")}
        yes, no = (n["arms"][0]["body"], n["arms"][1]["body"]) if p0["v"] else (n["arms"][1]["body"], n["arms"][0]["body"])
        holder[key] = {"k": "if", "cond": n["scrut"], "then": blk(yes), "else": blk(no), "ty": n.get("ty"), "sp": n.get("sp"), "split_from_tuple": True}
        return True

    def visit(holder, key):
        n = holder[key]
        if isinstance(n, list):
            for i in range(len(n)):
                visit(n, i)
            return
        if not isinstance(n, dict):
            return
        for k_ in list(n.keys()):
            if k_ != "mac" and isinstance(n[k_], (dict, list)):
                visit(n, k_)
        if n.get("k") != "match" or n.get("src", "match") != "match":
            return
        if split_tuple(holder, key, n):
            n = holder[key]
            for arm_ in (n.get("arms") or []):
                if isinstance(arm_.get("body"), dict) and arm_["body"].get("k") == "match":
                    peel_bool(arm_, "body", arm_["body"])
        if n.get("k") == "match":
            peel_option(holder, key, n)
        n = holder[key]
        if n.get("k") == "match" and n.get("split_from_tuple"):
            peel_bool(holder, key, n)
    box = {"r": root}
    visit(box, "r")
    return box["r"]


def prepare(f, crate, force=()):
    """inlined copy + alias registration (idempotent per function object)"""
    g = inline_helpers(f, crate, force=force)
    g["body"] = split_tuple_matches(g["body"])
    g["body"] = desugar_bool_adapters(g["body"])
    g["body"] = unroll_literal_loops(g["body"])
    apply_ctor_values(g["body"])
    split_tuple_lets(g["body"])
    _tree.ALIASES.update(collect_aliases(g))
    for n in walk(g["body"]):
        if n.get("k") == "let" and "init" in n and "els" not in n and n["pat"].get("k") == "pbind" and not n["pat"].get("mut") and "sub" not in n["pat"]:
            _tree.LET_INITS[n["pat"]["id"]] = n["init"]
    return g


def opt_elim(n):
    """normal form of an Option elimination: {scrut, bind, some, none} for
       `s.unwrap_or(d)`, `s.unwrap_or_else(|| d)`, `match s {Some(x) => a, None => b}`, `if let Some(x) = s {a} else {b}`, `s.map_or(d, |x| a)`;
       `bind` is the id bound to the payload (None: the payload itself is the result)"""
    n = peel(n)
    n = tail_value(n)
    k = n.get("k")
    if k == "mcall" and n["name"] in ("unwrap_or", "unwrap_or_else", "unwrap_or_default") and "Option" in (n.get("path") or ""):
        d = n["args"][0] if n["args"] else None
        if n["name"] == "unwrap_or_else" and d is not None and peel(d).get("k") == "closure":
            d = peel(d)["body"]
        return {"scrut": n["recv"], "bind": None, "some": None, "none": d}
    if k == "mcall" and n["name"] == "map_or" and "Option" in (n.get("path") or ""):
        d, fcl = n["args"]
        fcl = peel(fcl)
        if fcl.get("k") == "closure" and len(fcl["params"]) == 1:
            b = pat_bindings(fcl["params"][0])
            return {"scrut": n["recv"], "bind": b[0][1] if len(b) == 1 else None, "some": fcl["body"], "none": d}
    if k == "if" and "else" in n and peel(n["cond"]).get("k") == "binary" and peel(n["cond"])["op"] in ("<", ">", "<=", ">="):
        # the bounds-checked read `if i < xs.len() { &xs[i] } else { d }` is `xs.get(i).unwrap_or(d)`
        c = peel(n["cond"])
        l, r, op = peel(c["l"]), peel(c["r"]), c["op"]
        if op in (">", "<="):
            l, r, op = r, l, {">": "<", "<=": ">="}[op]
        # now `l < r` (hit in then) or `l >= r` (miss in then)
        hit, miss = (n["then"], n["else"]) if op == "<" else (n["else"], n["then"])
        h = tail_value(hit)
        if r.get("k") == "mcall" and r["name"] == "len" and not r["args"] and h.get("k") == "index" \
                and show(peel(h["e"])) == show(peel(r["recv"])) and show(peel(h["i"] if "i" in h else h.get("idx", {}))) == show(l):
            return {"scrut": {"k": "mcall", "name": "get", "recv": r["recv"], "args": [l], "path": "core::option::Option::get", "sp": n.get("sp"), "ty": "Option"},
                    "bind": None, "some": None, "none": miss}
    arms = None
    if k == "match":
        arms = [(a["pat"], a["body"]) for a in n["arms"] if "guard" not in a]
        scrut = n["scrut"]
        if len(arms) != len(n["arms"]):
            return None
    elif k == "if" and peel(n["cond"]).get("k") == "letexpr" and "else" in n:
        c = peel(n["cond"])
        arms = [(c["pat"], n["then"]), ({"k": "pwild"}, n["else"])]
        scrut = c["init"]
    if arms and len(arms) == 2:
        some = none = None
        for pat, body in arms:
            while pat.get("k") in ("pref", "pderef"):
                pat = pat["pat"]
            if pat.get("k") == "pvariant" and pat["path"].endswith("Option::Some") and len(pat["subs"]) == 1:
                some = (pat["subs"][0], body)
            elif pat.get("k") == "pwild" or (pat.get("k") in ("pvariant", "pconst") and pat.get("path", "").endswith("Option::None")):
                none = body
        if some and none is not None:
            b = pat_bindings(some[0])
            return {"scrut": scrut, "bind": b[0][1] if len(b) == 1 else None, "some": some[1], "none": none}
    return None


def tail_value(e):
    """the value expression of a block-like expression (peels blocks without statements)"""
    e = peel(e)
    while e.get("k") in ("blockexpr", "block"):
        b = e["b"] if e.get("k") == "blockexpr" else e
        if any(not s_.get("inl_param") for s_ in b.get("stmts", [])) or "tail" not in b:
            break
        e = peel(b["tail"])
    return e


def converts_param(e, pid):
    """e is the parameter pid itself or a lossless conversion of it (`.into()`, `T::from(p)`, `&p`), looking through lets"""
    e = resolve(e)
    if is_local(e, pid):
        return True
    if e.get("k") == "mcall" and e["name"] in ("into", "index", "clone") and not e["args"]:
        return converts_param(e["recv"], pid)
    if e.get("k") == "call" and (callee(e) or "").endswith("::from") and len(e["args"]) == 1:
        return converts_param(e["args"][0], pid)
    return False


def enum_dispatch(n, lid, enum_prefix):
    """{variant name: branch expression} for a two-way dispatch on the local `lid` of a field-less enum:
       `if lid == E::A {x} else {y}` (either polarity / operand order) or `match lid {E::A => x, E::B => y}` / with a wildcard arm.
       `other` names the branch taken for every other variant."""
    n = tail_value(n)
    if n.get("k") == "if" and "else" in n:
        c = resolve(n["cond"])
        if c.get("k") == "binary" and c["op"] in ("==", "!="):
            for a, b in ((c["l"], c["r"]), (c["r"], c["l"])):
                b = peel(b)
                if is_local(a, lid) and b.get("k") == "def" and (b.get("path") or "").startswith(enum_prefix):
                    v = b["path"][len(enum_prefix):]
                    t, e = n["then"], n["else"]
                    if c["op"] == "!=":
                        t, e = e, t
                    return {v: t, "other": e}
        return None
    if n.get("k") == "match" and is_local(n["scrut"], lid):
        out = {}
        for arm in n["arms"]:
            if "guard" in arm:
                return None
            for alt in pat_alts(arm["pat"]):
                while alt.get("k") in ("pref", "pderef"):
                    alt = alt["pat"]
                if alt.get("k") in ("pconst", "pvariant") and alt.get("path", "").startswith(enum_prefix) and not alt.get("subs"):
                    out[alt["path"][len(enum_prefix):]] = arm["body"]
                elif alt.get("k") in ("pwild", "pbind"):
                    out["other"] = arm["body"]
                else:
                    return None
        return out
    return None


def built_by_loop(ix, defs, vid):
    """a vector local filled by exactly one unconditional `v.push(E)` in the body of one `for pat in SRC` loop (and nothing else)
    is `SRC.map(|pat| E).collect()`: returns (SRC expression, loop pattern, E, loop node) or None"""
    d = defs.get(vid)
    if not (d and d[0] == "let" and "init" in d[1]):
        return None
    init = tail_value(d[1]["init"])
    fresh = (init.get("k") == "call" and (callee(init) or "").endswith(("Vec::<T>::new", "Vec::new", "Vec::<T>::with_capacity", "Vec::with_capacity"))) \
        or (init.get("k") in ("call", "mcall") and "vec" in mac_names(init) and not init.get("args")) or ("vec" in mac_names(init) and "[]" in show(init))
    if not fresh and not ((callee(init) or "").split("::")[-1] in ("new", "with_capacity", "default") and "Vec<" in (init.get("ty") or "")):
        return None
    uses = [n for n in ix.nodes if n.get("k") == "local" and n["id"] == vid]
    pushes = [n for n in ix.nodes if n.get("k") == "mcall" and n["name"] == "push" and is_local(n["recv"], vid)]
    muts = [n for n in ix.nodes if n.get("k") == "mcall" and peel(n["recv"]).get("k") == "local" and peel(n["recv"])["id"] == vid
            and n["name"] in ("push", "pop", "insert", "remove", "clear", "truncate", "extend", "extend_from_slice", "retain", "append", "drain", "swap_remove", "sort", "reverse", "dedup")]
    if len(pushes) != 1 or len(muts) != 1:
        return None
    pu = pushes[0]
    lp = ix.enclosing(pu, ("for",))
    if lp is None or ix.enclosing(pu, ("for", "while", "loop")) is not lp:
        return None
    if len(ix.regions[id(pu)]) != len(ix.regions[id(lp)]) + 1:
        return None                 # conditional push
    if any(x.get("k") in ("break", "continue", "return") for x in walk(lp["body"])):
        return None
    return lp["iter"], lp["pat"], pu["args"][0], lp


ITER_ADAPTORS = ("map", "for_each", "filter_map", "flat_map", "inspect", "try_for_each")


def iter_context(ix, node):
    """innermost per-element context around node: a `for` loop or the closure of an iterator adaptor.
    {"kind": "for"|"closure", "src": iterated expression, "pat": element pattern, "body": body, "node": loop / closure, "via": adaptor name}"""
    prev = node
    p = ix.parent.get(id(node))
    while p is not None:
        k = p.get("k")
        if k == "for" and (prev is p["body"] or contains(p["body"], node)):
            return {"kind": "for", "src": p["iter"], "pat": p["pat"], "body": p["body"], "node": p, "via": "for"}
        if k in ("while", "loop"):
            return {"kind": k, "src": None, "pat": None, "body": p["body"], "node": p, "via": k}
        if k == "closure":
            q = ix.parent.get(id(p))
            while q is not None and q.get("k") == "ref":
                q = ix.parent.get(id(q))
            if q is not None and q.get("k") == "mcall" and q["name"] in ITER_ADAPTORS and any(peel(a) is p for a in q["args"]) and len(p["params"]) == 1:
                return {"kind": "closure", "src": q["recv"], "pat": p["params"][0], "body": p["body"], "node": p, "via": q["name"], "call": q}
            return {"kind": "other-closure", "src": None, "pat": None, "body": p["body"], "node": p, "via": None}
        prev = p
        p = ix.parent.get(id(p))
    return None


def _diverges(b):
    if b.get("ty") == "!":
        return True
    t = b
    while t.get("k") in ("blockexpr", "block"):
        blk = t["b"] if t.get("k") == "blockexpr" else t
        if "tail" in blk:
            t = blk["tail"]
        elif blk["stmts"]:
            t = blk["stmts"][-1]
            if t.get("k") == "semi":
                t = t["e"]
        else:
            return False
    return t.get("k") in ("return", "ireturn", "continue", "break") or t.get("ty") == "!"


def may_reach_after(ix, start, target):
    """may `target` execute after `start` has completed normally, within the same loop iteration / function?  Structured and conservative:
    walks the statements that follow `start` outwards; a statement that always leaves (continue / break / return / `!`) ends the walk, the exit
    of an inlined helper (`ireturn`) continues after that helper's block, the end of a loop body ends the walk."""
    def leaves(n):
        """how a node always ends: "stop" (continue/break/return/never), ("inl", id) for an unconditional exit of an inlined block, or None"""
        t = n
        while True:
            k = t.get("k")
            if k in ("blockexpr", "block"):
                blk = t["b"] if k == "blockexpr" else t
                if "tail" in blk:
                    t = blk["tail"]
                elif blk["stmts"]:
                    t = blk["stmts"][-1]
                else:
                    return None
            elif k == "semi":
                t = t["e"]
            else:
                break
        if t.get("k") in ("return", "continue", "break") or t.get("ty") == "!":
            return "stop"
        if t.get("k") == "ireturn":
            return ("inl", t.get("inl"))
        if t.get("k") == "if" and "else" in t:
            a, b = leaves(t["then"]), leaves(t["else"])
            if a == "stop" and b == "stop":
                return "stop"
        return None

    def after(n, skip_to_inl=None):
        p = ix.parent.get(id(n))
        while p is not None:
            k = p.get("k")
            if k in ("while", "for", "loop", "closure") and (p.get("body") is n or contains(p.get("body", {}), n)):
                return False            # the end of the iteration
            if k == "block":
                seq = list(p["stmts"]) + ([p["tail"]] if "tail" in p else [])
                idx = [i for i, x in enumerate(seq) if x is n or contains(x, n)]
                if idx and skip_to_inl is None:
                    for nxt in seq[idx[0] + 1:]:
                        if nxt is target or contains(nxt, target):
                            return True
                        lv = leaves(nxt)
                        if lv == "stop":
                            return False
                        if isinstance(lv, tuple):
                            skip_to_inl = lv[1]
                            break
            if k == "blockexpr" and skip_to_inl is not None and p.get("inl_id") == skip_to_inl:
                skip_to_inl = None
            n = p
            p = ix.parent.get(id(n))
        return False
    lv = leaves(start)
    if lv == "stop":
        return False
    return after(start, lv[1] if isinstance(lv, tuple) else None)


def _same_pattern_shape(a, b):
    """the two patterns match the same values (identical up to the names of their bindings)"""
    ka, kb = a.get("k"), b.get("k")
    if ka != kb:
        return False
    if ka in ("pwild",):
        return True
    if ka == "pbind":
        return ("sub" in a) == ("sub" in b) and (("sub" not in a) or _same_pattern_shape(a["sub"], b["sub"]))
    if ka in ("pref", "pderef"):
        return _same_pattern_shape(a["pat"], b["pat"])
    if ka == "pvariant":
        return a["path"] == b["path"] and len(a["subs"]) == len(b["subs"]) and all(_same_pattern_shape(x, y) for x, y in zip(a["subs"], b["subs"]))
    if ka == "ptuple":
        return len(a["subs"]) == len(b["subs"]) and all(_same_pattern_shape(x, y) for x, y in zip(a["subs"], b["subs"]))
    if ka == "plit":
        return a.get("v") == b.get("v")
    return False


def path_conditions(ix, node, upto=None, arms=False):
    """conditions known to hold when node executes, as [(expression, polarity)]: enclosing if branches and the negations of
    earlier diverging guards (`if c { continue }`, `if c { return .. }`) in the enclosing blocks, up to the node `upto` (default: function)."""
    out = []

    def add(c, pol):
        c = resolve(c)
        if c.get("k") == "unary" and c["op"] == "!":
            add(c["e"], not pol)
        elif c.get("k") == "binary" and c["op"] == "&&" and pol:
            add(c["l"], True)
            add(c["r"], True)
        elif c.get("k") == "binary" and c["op"] == "||" and not pol:
            add(c["l"], False)
            add(c["r"], False)
        elif c.get("k") == "binary" and c["op"] == "!=":
            # canonical form: `a != b` holding is `a == b` not holding
            out.append((dict(c, op="=="), not pol))
        else:
            out.append((c, pol))
    child = node
    p = ix.parent.get(id(node))
    while p is not None and p is not upto:
        k = p.get("k")
        if k == "if":
            if child is p["then"] or contains(p["then"], node):
                add(p["cond"], True)
            elif "else" in p and (child is p["else"] or contains(p["else"], node)):
                add(p["cond"], False)
        elif k == "block":
            for s_ in p["stmts"]:
                if s_ is child or contains(s_, node):
                    break
                e = s_["e"] if s_.get("k") == "semi" else s_
                if e.get("k") == "if" and "else" not in e and _diverges(e["then"]):
                    add(e["cond"], False)
        elif k == "match":
            # the guard of the arm taken holds; the guards of earlier arms with the same pattern do not
            for i_, arm in enumerate(p["arms"]):
                if arm["body"] is child or contains(arm["body"], node):
                    if arms and p.get("src") == "match":
                        out.append(({"k": "armpat", "scrut": p["scrut"], "pat": arm["pat"]}, True))
                        for prev in p["arms"][:i_]:
                            if "guard" not in prev:
                                out.append(({"k": "armpat", "scrut": p["scrut"], "pat": prev["pat"]}, False))
                    if "guard" in arm:
                        add(arm["guard"], True)
                    for prev in p["arms"][:i_]:
                        if "guard" in prev and _same_pattern_shape(prev["pat"], arm["pat"]):
                            add(prev["guard"], False)
                    break
        child = p
        p = ix.parent.get(id(p))
    return out


def elementwise(ix, defs, e):
    """a collection expression built element by element from a source: `SRC.map(|pat| E).collect()` (with `?`), or a local
    filled by a loop (built_by_loop): {"src", "pat", "elem", "scope"} or None"""
    e0 = strip_try(e)
    if e0.get("k") == "local":
        bl = built_by_loop(ix, defs, e0["id"])
        if bl is not None:
            return {"src": bl[0], "pat": bl[1], "elem": bl[2], "scope": bl[3], "form": "loop"}
        init = simple_let_init(defs, e0["id"])
        if init is None:
            return None
        e0 = strip_try(init)
    base, ms = chain(e0)
    names = [m[0] for m in ms]
    if names and names[-1] == "collect" and "map" in names:
        i = names.index("map")
        cl = resolve(ms[i][1][0])
        if cl.get("k") == "closure" and len(cl["params"]) == 1 and names[i + 1:] == ["collect"]:
            src = ms[i][2]["recv"]
            return {"src": src, "pat": cl["params"][0], "elem": cl["body"], "scope": cl, "form": "map", "pre": names[:i]}
    return None


def bool_split(body, pred):
    """the two-way split of a function body on a bool expression c with pred(c) (through `!`):
    `if c {A} else {B}`, `if c {A; diverges}` + the rest of the block, `match c {true => A, false => B}`.
    returns (nodes executed when c is true, nodes executed when c is false, the branching node) or None"""
    parents = {}
    for n, ps in walk_parents(body):
        parents[id(n)] = ps[-1] if ps else None
    for n in walk(body):
        k = n.get("k")
        if k not in ("if", "match"):
            continue
        c = resolve(n["cond"] if k == "if" else n["scrut"])
        neg = False
        while c.get("k") == "unary" and c["op"] == "!":
            neg, c = not neg, resolve(c["e"])
        if not pred(c):
            continue
        t = e = None
        if k == "if":
            t = list(walk(n["then"]))
            if "else" in n:
                e = list(walk(n["else"]))
            elif _diverges(n["then"]):
                # the rest of the enclosing block
                holder = parents.get(id(n))
                child = n
                while holder is not None and holder.get("k") not in ("block",):
                    child, holder = holder, parents.get(id(holder))
                if holder is None:
                    continue
                rest, seen_ = [], False
                for s_ in holder["stmts"] + ([holder["tail"]] if "tail" in holder else []):
                    if seen_:
                        rest += list(walk(s_))
                    if s_ is child:
                        seen_ = True
                e = rest
            else:
                e = []
        else:
            arms = {}
            for arm in n["arms"]:
                for alt in pat_alts(arm["pat"]):
                    if alt.get("k") == "plit" and isinstance(alt.get("v"), bool):
                        arms[alt["v"]] = arm["body"]
                    elif alt.get("k") in ("pwild", "pbind"):
                        arms.setdefault("other", arm["body"])
            tb = arms.get(True, arms.get("other"))
            eb = arms.get(False, arms.get("other"))
            if tb is None or eb is None:
                continue
            t, e = list(walk(tb)), list(walk(eb))
        if neg:
            t, e = e, t
        return t, e, n
    return None


def value_source(ix, defs, n):
    """the expression a local's value comes from: its let initialiser (through `?`), or - for the parameter of a closure passed
    to Result/Option `map` / `and_then` / `map_err`-free chains - the receiver of that call"""
    n = strip_try(n)
    for _ in range(6):
        if n.get("k") != "local":
            return n
        d = defs.get(n["id"])
        if not d:
            return n
        if d[0] == "let" and "init" in d[1] and d[2].get("k") == "pbind":
            n = strip_try(d[1]["init"])
            continue
        if d[0] == "let" and "init" not in d[1] and d[2].get("k") == "pbind" and not d[2].get("mut") and id(n) in ix.regions:
            # deferred initialisation `let x; .. x = e; .. use(x)`: the one assignment that runs before this use on its path
            here = ix.regions[id(n)]
            asg = [a for a in ix.nodes if a.get("k") == "assign" and is_local(a["l"], n["id"]) and id(a) in ix.regions
                   and ix.regions[id(a)] == here[:len(ix.regions[id(a)])] and ix.precedes(a, n)]
            if len(asg) == 1:
                n = strip_try(asg[0]["r"])
                continue
            return n
        if d[0] == "closure" and len(d[1]["params"]) == 1:
            q = ix.parent.get(id(d[1]))
            while q is not None and q.get("k") == "ref":
                q = ix.parent.get(id(q))
            if q is not None and q.get("k") == "mcall" and q["name"] in ("map", "and_then") and ("Result" in (q.get("path") or "") or "Option" in (q.get("path") or "")):
                n = strip_try(q["recv"])
                continue
        return n
    return n


def enum_regions(body, lid, enum_prefix):
    """{variant name | "other": [nodes executed for that variant]} for the two-way dispatch of a function body on the field-less enum
    local `lid`: a `match lid {..}`, an `if lid == E::V {..} else {..}` or an early-exit `if lid == E::V { ..; return }` + rest"""
    for n in walk(body):
        if n.get("k") == "match" and is_local(n["scrut"], lid):
            d = enum_dispatch(n, lid, enum_prefix)
            if d:
                return {k_: list(walk(v)) for k_, v in d.items()}
    found = {}

    def pred(c):
        if c.get("k") == "binary" and c["op"] == "==":
            for a, b in ((c["l"], c["r"]), (c["r"], c["l"])):
                b = peel(b)
                if is_local(a, lid) and b.get("k") == "def" and (b.get("path") or "").startswith(enum_prefix):
                    found["v"] = b["path"][len(enum_prefix):]
                    return True
        return False
    sp = bool_split(body, pred)
    if sp:
        return {found["v"]: sp[0], "other": sp[1]}
    return None


def nonzero_at(ix, node, lid, place=None):
    """the unsigned local `lid` is known to be >= 1 where node executes: an enclosing / earlier-diverging comparison with 0 or 1,
    or node sits in a catch-all arm of `match lid` after an arm for the literal 0; no assignment to lid in between is checked by the caller's
    use (the decrement is the node itself)"""
    def same(x):
        if lid is not None:
            return is_local(x, lid)
        fa, fb = field_path(x), field_path(place)
        return fa is not None and fb is not None and fa[1] is not None and canon(fa[1]) == canon(fb[1]) and fa[2] == fb[2]

    def cmp_fact(c, pol):
        c = resolve(c)
        if c.get("k") != "binary" or c["op"] not in ("==", "!=", ">", ">=", "<", "<="):
            return False
        l, r, op = c["l"], c["r"], c["op"]
        if peel(l).get("k") == "lit":
            l, r = r, l
            op = {"<": ">", ">": "<", "<=": ">=", ">=": "<=", "==": "==", "!=": "!="}[op]
        if not (same(l) and peel(r).get("k") == "lit" and isinstance(peel(r).get("v"), int)):
            return False
        v = peel(r)["v"]
        if pol:
            return (op, v) in ((">", 0), (">=", 1), ("!=", 0)) or (op in (">", ">=") and v >= 1) or (op == "==" and v >= 1)
        return (op, v) in (("==", 0), ("<", 1), ("<=", 0))
    for c, pol in path_conditions(ix, node):
        if cmp_fact(c, pol):
            return True
    for a in ix.ancestors(node):
        if a.get("k") == "match" and same(a["scrut"]):
            zero_seen = False
            for arm in a["arms"]:
                alts = pat_alts(arm["pat"])
                if contains(arm["body"], node):
                    if zero_seen and all(x.get("k") in ("pwild", "pbind") or (x.get("k") == "plit" and x.get("v", 0) >= 1) for x in alts) and "guard" not in arm:
                        return True
                    if all(x.get("k") == "plit" and isinstance(x.get("v"), int) and x["v"] >= 1 for x in alts):
                        return True
                    break
                if any(x.get("k") == "plit" and x.get("v") == 0 for x in alts) and "guard" not in arm:
                    zero_seen = True
    return False


def literal_dispatch(body, lid):
    """{literal value: result expression} of a dispatch on the local `lid` against literals: arms of `match lid { b"x" => r, .. }`
    and early exits `if lid == b"x" { return r }` / `if lid == b"x" { r } else ..`"""
    out = {}
    for n in walk(body):
        if n.get("k") == "match" and is_local(n["scrut"], lid):
            for arm in n["arms"]:
                if "guard" in arm:
                    continue
                for alt in pat_alts(arm["pat"]):
                    while alt.get("k") in ("pref", "pderef"):
                        alt = alt["pat"]
                    if alt.get("k") == "plit" and "v" in alt:
                        out.setdefault(alt["v"], arm["body"])
        elif n.get("k") == "if":
            c = resolve(n["cond"])
            if c.get("k") == "binary" and c["op"] == "==":
                for a, b in ((c["l"], c["r"]), (c["r"], c["l"])):
                    b = peel(b)
                    if is_local(a, lid) and b.get("k") == "lit" and "v" in b:
                        out.setdefault(b["v"], n["then"])
    return out


def result_value(e):
    """the value a branch produces: tail of its block or the operand of its `return`, through Ok(..)"""
    e = tail_value(e)
    for _ in range(6):
        k = e.get("k")
        if k in ("blockexpr", "block"):
            b = e["b"] if k == "blockexpr" else e
            last = b.get("tail") or (b["stmts"][-1] if b["stmts"] else None)
            if last is None:
                return e
            e = tail_value(last["e"] if last.get("k") == "semi" else last)
        elif k in ("return", "ireturn") and "e" in e:
            e = tail_value(e["e"])
        elif k == "ctor" and callee(e).endswith("Result::Ok") and len(e["args"]) == 1:
            e = tail_value(e["args"][0])
        else:
            break
    return e


def value_alternatives(e, depth=0):
    """the expressions a value can be, each with the conditions selecting it: [([(cond, polarity)..], expr)] - through immutable lets,
    if/else and blocks (diverging branches are dropped)"""
    e = tail_value(e)
    if depth > 6:
        return [([], e)]
    if e.get("k") == "local" and e["id"] in _tree.LET_INITS:
        return value_alternatives(_tree.LET_INITS[e["id"]], depth + 1)
    if e.get("k") == "if" and "else" in e:
        out = []
        c0 = resolve(peel(e["cond"]))
        known = c0.get("v") if c0.get("k") == "lit" and isinstance(c0.get("v"), bool) else None     # e.g. a flag parameter of an inlined helper
        for br, pol in ((e["then"], True), (e["else"], False)):
            if _diverges(br) or (known is not None and known != pol):
                continue
            out += [(([] if known is not None else [(e["cond"], pol)]) + cs, x) for cs, x in value_alternatives(br, depth + 1)]
        return out
    if e.get("k") == "match" and e.get("src", "match") == "match":
        out = []
        for arm in e["arms"]:
            if _diverges(arm["body"]):
                continue
            conds = [({"k": "armpat", "scrut": e["scrut"], "pat": arm["pat"]}, True)]
            if "guard" in arm:
                conds += [(c_, True) for c_ in conjuncts(arm["guard"])]
            out += [(conds + cs, x) for cs, x in value_alternatives(arm["body"], depth + 1)]
        return out
    if e.get("k") == "blockexpr" and "tail" in e["b"]:
        return value_alternatives(e["b"]["tail"], depth + 1)
    if e.get("k") == "callv" and peel(e.get("f", {})).get("k") == "local":
        # a constructor chosen first and applied later: `let make = if c { A } else { B }; make(x, y)`
        alts = value_alternatives(peel(e["f"]), depth + 1)
        if alts and all(peel(x).get("k") == "def" and str(peel(x).get("dk", "")).startswith("ctor") for _, x in alts):
            return [(cs, {"k": "ctor", "dk": peel(x).get("dk"), "path": peel(x)["path"], "args": e.get("args", []), "ty": e.get("ty"), "sp": e.get("sp")}) for cs, x in alts]
    return [([], e)]


def _own_tries(blk):
    """the `x?` nodes of an inlined helper's body that exit *that helper* (not those of closures or of helpers inlined inside it)"""
    out = []
    stack = [blk["b"]]
    while stack:
        x = stack.pop()
        if isinstance(x, list):
            stack.extend(x)
            continue
        if not isinstance(x, dict):
            continue
        if x.get("k") == "closure" or (x.get("k") == "blockexpr" and "inl_id" in x):
            if x.get("k") == "blockexpr":
                # the arguments of the nested helper are evaluated in this helper
                stack.extend(s_.get("init") for s_ in x["b"].get("stmts", []) if s_.get("inl_param"))
            continue
        if x.get("k") == "try":
            out.append(x)
        stack.extend(v for k_, v in x.items() if k_ != "mac" and isinstance(v, (dict, list)))
    return out


def _try_exits(ix, blk):
    """[(conditions, leaf)] for the early exits `x?` of an inlined helper: the helper hands back None / Err when x is None / Err"""
    out = []
    for t in _own_tries(blk):
        ty = str(t["e"].get("ty", ""))
        if "Option<" in ty:
            leaf = {"k": "def", "dk": "ctor_variant", "path": "core::option::Option::None", "ty": blk.get("ty"), "sp": t.get("sp")}
            pat = {"k": "pvariant", "path": "core::option::Option::None", "subs": []}
        elif "Result<" in ty:
            leaf = {"k": "ctor", "dk": "ctor_variant", "path": "core::result::Result::Err", "args": [{"k": "lit", "v": "<the error of `%s`>" % show(t["e"])[:40], "ty": "?"}], "ty": blk.get("ty"), "sp": t.get("sp")}
            pat = {"k": "pvariant", "path": "core::result::Result::Err", "subs": [{"k": "pwild"}]}
        else:
            continue
        pre = path_conditions(ix, t, upto=blk) if id(t) in ix.parent else []
        out.append((pre + [({"k": "armpat", "scrut": t["e"], "pat": pat}, True)], leaf))
    return out


def result_table(ix, e, depth=0, unwrap=("Option::Some", "Result::Ok"), _body_of=None):
    """[(conditions, leaf expression)] for the values an expression can produce: through immutable lets, if/else, match arms
    (an arm contributes {"k": "armpat", "scrut", "pat"} and its guard; earlier guarded arms of the same pattern contribute their negated guard),
    blocks and the wrappers in `unwrap`.  Conditions are (node, polarity) pairs as in path_conditions."""
    e0 = e
    while e0.get("k") == "ref":
        e0 = e0["e"]
    if e0.get("k") == "blockexpr" and "inl_id" not in e0 and depth <= 8 and _body_of is not e0:
        # the body block of an inlined helper reached without its wrapper (the wrapper only binds the parameters and is peeled as trivial)
        par = ix.parent.get(id(e0))
        own = ix.parent.get(id(par)) if isinstance(par, dict) and par.get("k") == "block" and par.get("tail") is e0 else None
        if isinstance(own, dict) and own.get("k") == "blockexpr" and "inl_id" in own and all(s_.get("inl_param") for s_ in par.get("stmts", [])):
            e0 = own
    if e0.get("k") == "blockexpr" and "inl_id" in e0 and depth <= 8:
        # an inlined helper: its value is what its exits return (each under the conditions of that exit inside the helper) or its tail
        exits = [x for x in walk(e0) if x.get("k") == "ireturn" and x.get("inl") == e0["inl_id"] and "e" in x]
        tries = _try_exits(ix, e0)
        if exits or tries:
            out = list(tries)
            for x in exits:
                pre = path_conditions(ix, x, upto=e0)
                out += [(pre + cs, leaf) for cs, leaf in result_table(ix, x["e"], depth + 1, unwrap)]
            t = e0["b"].get("tail")
            while t is not None and t.get("k") == "blockexpr" and "tail" in t["b"]:
                t = t["b"]["tail"]
            if t is not None and not _diverges(t) and not (t.get("k") == "loop" and not any(y.get("k") == "break" for y in walk(t))):
                pre = path_conditions(ix, e0["b"]["tail"], upto=e0)      # the early exits before the tail were not taken
                out += [(pre + cs, leaf) for cs, leaf in result_table(ix, e0["b"]["tail"], depth + 1, unwrap, _body_of=e0["b"]["tail"])]
            return out
    e = tail_value(e)
    if depth > 8:
        return [([], e)]
    k = e.get("k")
    if k == "local" and e["id"] in _tree.LET_INITS:
        init = _tree.LET_INITS[e["id"]]
        return result_table(ix, init, depth + 1, unwrap)
    if k == "ctor" and callee(e).endswith(tuple(unwrap)) and len(e.get("args", [])) == 1:
        return result_table(ix, e["args"][0], depth + 1, unwrap)
    if k == "if" and "else" in e:
        out = []
        for br, pol in ((e["then"], True), (e["else"], False)):
            if _diverges(br):
                continue
            conds = []
            for c_ in ([resolve(e["cond"])] if not pol else conjuncts(e["cond"])):
                conds.append((c_, pol))
            out += [(conds + cs, x) for cs, x in result_table(ix, br, depth + 1, unwrap)]
        return out
    if k == "match":
        out = []
        for i_, arm in enumerate(e["arms"]):
            if _diverges(arm["body"]):
                continue
            conds = [({"k": "armpat", "scrut": e["scrut"], "pat": arm["pat"]}, True)]
            if "guard" in arm:
                conds += [(c_, True) for c_ in conjuncts(arm["guard"])]
            for prev in e["arms"][:i_]:
                if "guard" in prev and _same_pattern_shape(prev["pat"], arm["pat"]):
                    conds.append((resolve(prev["guard"]), False))
                elif "guard" not in prev:
                    conds.append(({"k": "armpat", "scrut": e["scrut"], "pat": prev["pat"]}, False))   # an earlier arm did not match
            out += [(conds + cs, x) for cs, x in result_table(ix, arm["body"], depth + 1, unwrap)]
        return out
    if k == "blockexpr":
        b = e["b"]
        if "inl_id" in e:
            # an inlined helper: its value is what its exits return (each under the conditions of that exit inside the helper) or its tail
            exits = [x for x in walk(e) if x.get("k") == "ireturn" and x.get("inl") == e["inl_id"] and "e" in x]
            tries = _try_exits(ix, e)
            if exits or tries:
                out = list(tries)
                for x in exits:
                    pre = path_conditions(ix, x, upto=e)
                    out += [(pre + cs, leaf) for cs, leaf in result_table(ix, x["e"], depth + 1, unwrap)]
                if "tail" in b and not _diverges(b["tail"]) and not (peel(b["tail"]).get("k") == "loop" and not any(y.get("k") == "break" for y in walk(b["tail"]))):
                    pre = path_conditions(ix, b["tail"], upto=e)
                    out += [(pre + cs, leaf) for cs, leaf in result_table(ix, b["tail"], depth + 1, unwrap, _body_of=b["tail"])]
                return out
        if "tail" in b:
            pre = path_conditions(ix, b["tail"], upto=e) if id(b["tail"]) in ix.parent else []     # early exits before the tail were not taken
            return [(pre + cs, leaf) for cs, leaf in result_table(ix, b["tail"], depth + 1, unwrap)]
    if k in ("return", "ireturn") and "e" in e:
        return result_table(ix, e["e"], depth + 1, unwrap)
    if k == "try" and unwrap and peel(e["e"]).get("k") in ("blockexpr", "match", "if"):
        return result_table(ix, e["e"], depth + 1, unwrap)      # `x?` continues with the payload of Some(..) / Ok(..)
    return [([], e)]


def expand_enum_conditions(ix, conds, depth=0):
    """conditions in which `the classification value matches variant V` (an armpat on a local / block whose every value is a constructor) is
    replaced by the conditions that select V: [[(cond, polarity)..]..] (one list per way of getting V).  Conditions on anything else stay."""
    out = [[]]
    for c_, pol in conds:
        alts = None
        if c_.get("k") == "armpat" and pol and depth < 3:
            alts = _variant_conditions(ix, c_)
        if alts:
            new = []
            for o in out:
                for a_ in alts:
                    for e_ in expand_enum_conditions(ix, a_, depth + 1):
                        new.append(o + e_)
            out = new
        else:
            out = [o + [(c_, pol)] for o in out]
    return out


def _variant_conditions(ix, armpat):
    """for armpat(scrut, pattern): the condition lists under which scrut evaluates to a constructor matched by one of the pattern's alternatives
    (None when scrut is not a value built from constructors by if / match / early returns)"""
    scr = strip_try(armpat["scrut"])
    if peel(scr).get("k") not in ("blockexpr", "match", "if", "local"):
        return None
    payload = None
    s0 = peel(scr)
    for _ in range(4):
        if s0.get("k") == "local" and s0["id"] in _tree.LET_INITS and peel(_tree.LET_INITS[s0["id"]]).get("k") == "local":
            s0 = peel(_tree.LET_INITS[s0["id"]])
    if s0.get("k") == "local" and s0["id"] not in _tree.LET_INITS:
        # the payload of a classification variant: `match kind { LineKind::Label(label) => .. match label { LabelKind::Output => .. } }`
        payload = _payload_source(ix, s0["id"])
        if payload is None:
            return None
    want = []
    for alt in pat_alts(armpat["pat"]):
        while alt.get("k") in ("pref", "pderef"):
            alt = alt["pat"]
        if alt.get("k") not in ("pvariant", "pconst", "ppath", "pstruct"):
            return None
        want.append(alt)
    if payload is not None:
        outer_scrut, outer_path, pos = payload
        table = []
        for cs_, lf in result_table(ix, strip_try(outer_scrut), unwrap=()):
            lf = peel(lf)
            if lf.get("k") == "ctor" and callee(lf) == outer_path and len(lf.get("args", [])) > pos:
                table.append((cs_, lf["args"][pos]))
        if not table:
            return None
    else:
        table = result_table(ix, scr, unwrap=())
    res = []
    for cs_, lf in table:
        lf = peel(lf)
        lp = lf.get("path") if lf.get("k") == "def" else (callee(lf) if lf.get("k") == "ctor" else None)
        if lp is None:
            return None
        for alt in want:
            if lp == alt.get("path"):
                # a payload pattern that is itself a variant (`Label(LabelKind::Output)`) must match the payload constructor too
                subs = alt.get("subs") or []
                ok = True
                if subs and lf.get("k") == "ctor" and len(lf.get("args", [])) == len(subs):
                    for sp_, a_ in zip(subs, lf["args"]):
                        while sp_.get("k") in ("pref", "pderef"):
                            sp_ = sp_["pat"]
                        if sp_.get("k") in ("pvariant", "pconst", "ppath"):
                            a0 = peel(a_)
                            ap = a0.get("path") if a0.get("k") == "def" else (callee(a0) if a0.get("k") == "ctor" else None)
                            if ap != sp_.get("path"):
                                ok = False
                if ok:
                    res.append(cs_)
                break
    return res


def _payload_source(ix, lid):
    """(scrutinee, variant path, position) when the local is bound by a sub-pattern of a variant pattern of a match arm"""
    for m in ix.nodes:
        if m.get("k") != "match":
            continue
        for arm in m["arms"]:
            for alt in pat_alts(arm["pat"]):
                while alt.get("k") in ("pref", "pderef"):
                    alt = alt["pat"]
                if alt.get("k") == "pvariant":
                    for i_, sp_ in enumerate(alt.get("subs", [])):
                        while sp_.get("k") in ("pref", "pderef"):
                            sp_ = sp_["pat"]
                        if sp_.get("k") == "pbind" and canon(sp_["id"]) == canon(lid):
                            return m["scrut"], alt["path"], i_
    return None


def function_results(f, ix):
    """result_table over every exit of a function body: the tail and every `return`, each with its path conditions"""
    out = []
    exits = [(n["e"], n) for n in ix.nodes if n.get("k") == "return" and "e" in n]
    body = f["body"]
    exits.append((body, None))
    for e, node in exits:
        pre = path_conditions(ix, node) if node is not None else []
        for cs, x in result_table(ix, e):
            out.append((pre + cs, x))
    return out


def deep_chain(ix, defs, e, depth=0):
    """chain(e) continued through immutable lets, inlined helpers and blocks: `let a = x.f(); a.g()` is (x, [f, g])"""
    e = tail_value(value_source(ix, defs, e))
    while e.get("k") == "blockexpr" and "tail" in e["b"]:
        e = tail_value(value_source(ix, defs, e["b"]["tail"]))
    b, ms = chain(e)
    b0 = peel(b)
    if depth < 8 and b0.get("k") == "local":
        src = value_source(ix, defs, b0)
        if src is not b0 and not (src.get("k") == "local" and src.get("id") == b0.get("id")):
            b2, ms2 = deep_chain(ix, defs, src, depth + 1)
            return b2, ms2 + ms
    if depth < 8 and b0.get("k") == "blockexpr":
        b2, ms2 = deep_chain(ix, defs, b0, depth + 1)
        return b2, ms2 + ms
    return b, ms


def enum_value_conditions(ix, scrut, pat):
    """the alternative condition lists under which the value of `scrut` (a local assigned a field-less enum variant by if/match chains,
    possibly through an inlined constructor function) matches the pattern `pat`: [[(cond, polarity)..]..], or None when its value is not of that kind"""
    alts = pat_alts(pat)
    want = set()
    for a in alts:
        while a.get("k") in ("pref", "pderef"):
            a = a["pat"]
        if a.get("k") in ("pvariant", "pconst") and not a.get("subs"):
            want.add(a["path"])
        elif a.get("k") in ("pwild", "pbind"):
            want.add("*")
        else:
            return None
    table = result_table(ix, scrut, unwrap=())
    out = []
    for cs, leaf in table:
        leaf = peel(leaf)
        if not (leaf.get("k") == "def" and str(leaf.get("dk", "")).startswith("ctor")):
            return None
        if "*" in want or leaf["path"] in want:
            out.append(cs)
    return out


def armpat_formula(ix, cond, extract, depth=0):
    """boolean formula (boolpred form) for "the scrutinee matches the pattern": bool literals / tuples of them / wildcards directly,
    field-less enum variants through the conditions that select the scrutinee's value (enum_value_conditions).
    `extract(expr)` turns a bool expression into a formula and raises on anything it does not understand."""
    from . import boolpred as bp
    scrut, pat = cond["scrut"], cond["pat"]
    while pat.get("k") in ("pref", "pderef"):
        pat = pat["pat"]
    k = pat.get("k")
    if depth > 6:
        raise bp.Opaque(scrut, "nested patterns")
    if k in ("pwild",) or (k == "pbind" and "sub" not in pat):
        return ("const", True)
    if k == "por":
        out = ("const", False)
        for a in pat["alts"]:
            out = ("or", out, armpat_formula(ix, {"scrut": scrut, "pat": a}, extract, depth + 1))
        return out
    if k == "plit" and isinstance(pat.get("v"), bool):
        f = extract(scrut)
        return f if pat["v"] else ("not", f)
    if k == "ptuple":
        t = tail_value(resolve(scrut))
        if t.get("k") != "tuple" or len(t["es"]) != len(pat["subs"]) or pat.get("rest"):
            raise bp.Opaque(scrut, "tuple pattern on a non-tuple")
        out = ("const", True)
        for sp_, e_ in zip(pat["subs"], t["es"]):
            out = ("and", out, armpat_formula(ix, {"scrut": e_, "pat": sp_}, extract, depth + 1))
        return out
    evc = enum_value_conditions(ix, scrut, pat)
    if evc is None:
        raise bp.Opaque(scrut, "match on a value that is not a condition-selected constant")
    out = ("const", False)
    for cs_ in evc:
        y = ("const", True)
        for c2, p2 in cs_:
            z = armpat_formula(ix, c2, extract, depth + 1) if c2.get("k") == "armpat" else extract(c2)
            y = ("and", y, z if p2 else ("not", z))
        out = ("or", out, y)
    return out


def enum_guarded(ix, node, lid, suffix, upto=None):
    """node executes only when the field-less enum local `lid` is the variant whose path ends with `suffix`:
    under `if lid == V`, in the else-branch of `if lid != V`, or in a `V =>` arm of `match lid`"""
    for c_, pol in path_conditions(ix, node, upto=upto, arms=True):
        if c_.get("k") == "armpat":
            if pol and is_local(c_["scrut"], lid):
                alts = pat_alts(c_["pat"])
                if alts and all((a.get("path") or "").endswith(suffix) for a in alts):
                    return True
            continue
        if pol and is_eq_test(c_, lid, suffix):
            return True
    return False
