"""Normalisation of function bodies before rules look at them:
 * inlining of *new* private single-caller helper functions (helpers extracted during maintenance), with renumbered locals
 * alias resolution for trivial re-bindings (`let x = y;`, `let x = &y;`, `let x = *y;`, parameters of inlined helpers)
The set of function paths that existed when the rules were written is kept in psa/known_fns.json: those are never inlined
(rules may name them as anchors); only functions that are new relative to that list are candidates."""
import copy
import json
import os

from .tree import *  # noqa
from . import tree as _tree

_KNOWN = None
_FN_COUNTER = [0]


def known_fns():
    """path -> {"params": [names by position], "binds": [[name, type] in source order]} of the tree the rules were written against"""
    global _KNOWN
    if _KNOWN is None:
        p = os.path.join(os.path.dirname(os.path.abspath(__file__)), "known_fns.json")
        _KNOWN = json.load(open(p)) if os.path.exists(p) else {}
    return _KNOWN


def signature_of(f):
    params = []
    for p in f.get("params", []):
        b = pat_bindings(p)
        params.append(b[0][0] if len(b) == 1 and p.get("k") == "pbind" else None)
    binds = [[n["name"], n.get("ty")] for n in walk(f["body"]) if n.get("k") == "pbind"]
    return {"params": params, "binds": binds}


def rename_to_known(g):
    """names are role labels for the rules: parameters are renamed to the known names by position; local bindings are renamed
       to the known names when the sequence of binding types is unchanged (a pure renaming).  Works in place on a private copy."""
    k = known_fns().get(g["path"])
    if not k:
        return
    ren = {}
    if len(k["params"]) == len(g.get("params", [])):
        for want, p in zip(k["params"], g["params"]):
            if want and p.get("k") == "pbind" and p["name"] != want:
                ren[p["id"]] = want
    cur = [n for n in walk(g["body"]) if n.get("k") == "pbind"]
    if len(cur) == len(k["binds"]) and all(n.get("ty") == t for n, (_, t) in zip(cur, k["binds"])):
        for n, (want, _) in zip(cur, k["binds"]):
            if n["name"] != want:
                ren[n["id"]] = want
    if not ren:
        return
    for n in list(walk(g["body"])) + [x for p in g.get("params", []) for x in walk(p)]:
        if n.get("k") in ("local", "pbind") and n.get("id") in ren:
            n["name"] = ren[n["id"]]
    g["renamed"] = sorted(set(ren.values()))


def _offset_ids(n, off, mark_returns=True):
    stack = [n]
    while stack:
        x = stack.pop()
        if isinstance(x, dict):
            if x.get("k") in ("local", "pbind") and isinstance(x.get("id"), int):
                x["id"] += off
            if mark_returns and x.get("k") == "return":
                x["inl"] = True
            for v in x.values():
                if isinstance(v, (dict, list)):
                    stack.append(v)
        elif isinstance(x, list):
            stack.extend(v for v in x if isinstance(v, (dict, list)))


def callers_of(crate):
    """callee path -> set of caller paths (direct calls only)"""
    out = {}
    for p, fl in crate.raw_fns.items():
        for f in fl:
            for n in walk(f["body"]):
                c = callee(n) if n.get("k") in ("call", "mcall") else None
                if c:
                    out.setdefault(c, set()).add(p)
    return out


def inline_helpers(f, crate, depth=2, _callers=None, _counter=None):
    """returns a copy of f whose body has calls to new private single-caller helpers replaced by their bodies"""
    if _counter is None:
        _counter = [0]
    known = known_fns()
    g = dict(f)
    g["body"] = copy.deepcopy(f["body"])
    g["params"] = copy.deepcopy(f.get("params", []))
    rename_to_known(g)
    # local ids are per-function in the facts: make them globally unique so that alias / let tables can be shared
    _FN_COUNTER[0] += 1
    base = 10000000 * _FN_COUNTER[0]
    _offset_ids(g["body"], base, False)
    _offset_ids(g["params"], base, False)
    changed = [False]

    def helper_of(n):
        c = callee(n)
        if not c or c in known or c == f["path"]:
            return None
        fl = crate.raw_fns.get(c)
        if not fl or len(fl) != 1:
            return None
        h = fl[0]
        if h.get("kind") not in ("Fn", "AssocFn"):
            return None
        if c in known:
            return None
        return h

    def rewrite(n, d):
        if isinstance(n, list):
            return [rewrite(x, d) for x in n]
        if not isinstance(n, dict):
            return n
        for k, v in list(n.items()):
            if k != "mac" and isinstance(v, (dict, list)):
                n[k] = rewrite(v, d)
        if n.get("k") in ("call", "mcall") and d > 0:
            h = helper_of(n)
            if h is not None:
                _counter[0] += 1
                off = base + 100000 * _counter[0]
                body = copy.deepcopy(h["body"])
                params = copy.deepcopy(h["params"])
                _offset_ids(body, off)
                _offset_ids(params, off)
                body = rewrite(body, d - 1)
                args = call_args(n) if n["k"] == "mcall" else n["args"]
                if len(args) != len(params):
                    return n
                stmts = [{"k": "let", "pat": p, "init": a, "sp": n.get("sp"), "inl_param": True} for p, a in zip(params, args)]
                changed[0] = True
                return {"k": "blockexpr", "b": {"k": "block", "stmts": stmts, "tail": body, "sp": n.get("sp")}, "ty": n.get("ty"), "sp": n.get("sp"), "inlined_from": h["path"]}
        return n
    g["body"] = rewrite(g["body"], depth)
    g["inlined"] = changed[0]
    return g


def collect_aliases(f):
    """{id: id} for trivial re-bindings: non-mut `let x = y` / `&y` / `&mut y` / `*y` / `y.clone()` of copy refs, incl. inlined params"""
    al = {}
    for n in walk(f["body"]):
        if n.get("k") == "let" and "init" in n and n["pat"].get("k") == "pbind" and not n["pat"].get("mut") and "sub" not in n["pat"]:
            src = n["init"]
            while True:
                src = src if src.get("k") != "blockexpr" else src
                k = src.get("k")
                if k == "ref" or (k == "unary" and src["op"] == "*" and "ovl" not in src):
                    src = src["e"]
                elif k == "blockexpr" and not src["b"]["stmts"] and "tail" in src["b"]:
                    src = src["b"]["tail"]
                else:
                    break
            if src.get("k") == "local":
                al[n["pat"]["id"]] = src["id"]
    # resolve chains
    def root(i, seen=()):
        while i in al and i not in seen:
            seen = seen + (i,)
            i = al[i]
        return i
    return {i: root(i) for i in al}


def prepare(f, crate):
    """inlined copy + alias registration (idempotent per function object)"""
    g = inline_helpers(f, crate)
    _tree.ALIASES.update(collect_aliases(g))
    for n in walk(g["body"]):
        if n.get("k") == "let" and "init" in n and "els" not in n and n["pat"].get("k") == "pbind" and not n["pat"].get("mut") and "sub" not in n["pat"]:
            _tree.LET_INITS[n["pat"]["id"]] = n["init"]
    return g


def opt_elim(n):
    """normal form of an Option elimination: {scrut, bind, some, none} for
       `s.unwrap_or(d)`, `s.unwrap_or_else(|| d)`, `match s {Some(x) => a, None => b}`, `if let Some(x) = s {a} else {b}`, `s.map_or(d, |x| a)`;
       `bind` is the id bound to the payload (None: the payload itself is the result)"""
    n = peel(n)
    n = tail_value(n)
    k = n.get("k")
    if k == "mcall" and n["name"] in ("unwrap_or", "unwrap_or_else", "unwrap_or_default") and "Option" in (n.get("path") or ""):
        d = n["args"][0] if n["args"] else None
        if n["name"] == "unwrap_or_else" and d is not None and peel(d).get("k") == "closure":
            d = peel(d)["body"]
        return {"scrut": n["recv"], "bind": None, "some": None, "none": d}
    if k == "mcall" and n["name"] == "map_or" and "Option" in (n.get("path") or ""):
        d, fcl = n["args"]
        fcl = peel(fcl)
        if fcl.get("k") == "closure" and len(fcl["params"]) == 1:
            b = pat_bindings(fcl["params"][0])
            return {"scrut": n["recv"], "bind": b[0][1] if len(b) == 1 else None, "some": fcl["body"], "none": d}
    arms = None
    if k == "match":
        arms = [(a["pat"], a["body"]) for a in n["arms"] if "guard" not in a]
        scrut = n["scrut"]
        if len(arms) != len(n["arms"]):
            return None
    elif k == "if" and peel(n["cond"]).get("k") == "letexpr" and "else" in n:
        c = peel(n["cond"])
        arms = [(c["pat"], n["then"]), ({"k": "pwild"}, n["else"])]
        scrut = c["init"]
    if arms and len(arms) == 2:
        some = none = None
        for pat, body in arms:
            while pat.get("k") == "pref":
                pat = pat["sub"]
            if pat.get("k") == "pvariant" and pat["path"].endswith("Option::Some") and len(pat["subs"]) == 1:
                some = (pat["subs"][0], body)
            elif pat.get("k") == "pwild" or (pat.get("k") in ("pvariant", "pconst") and pat.get("path", "").endswith("Option::None")):
                none = body
        if some and none is not None:
            b = pat_bindings(some[0])
            return {"scrut": scrut, "bind": b[0][1] if len(b) == 1 else None, "some": some[1], "none": none}
    return None


def tail_value(e):
    """the value expression of a block-like expression (peels blocks without statements)"""
    e = peel(e)
    while e.get("k") in ("blockexpr", "block"):
        b = e["b"] if e.get("k") == "blockexpr" else e
        if any(not s_.get("inl_param") for s_ in b.get("stmts", [])) or "tail" not in b:
            break
        e = peel(b["tail"])
    return e


def converts_param(e, pid):
    """e is the parameter pid itself or a lossless conversion of it (`.into()`, `T::from(p)`, `&p`), looking through lets"""
    e = resolve(e)
    if is_local(e, pid):
        return True
    if e.get("k") == "mcall" and e["name"] in ("into", "index", "clone") and not e["args"]:
        return converts_param(e["recv"], pid)
    if e.get("k") == "call" and (callee(e) or "").endswith("::from") and len(e["args"]) == 1:
        return converts_param(e["args"][0], pid)
    return False


def enum_dispatch(n, lid, enum_prefix):
    """{variant name: branch expression} for a two-way dispatch on the local `lid` of a field-less enum:
       `if lid == E::A {x} else {y}` (either polarity / operand order) or `match lid {E::A => x, E::B => y}` / with a wildcard arm.
       `other` names the branch taken for every other variant."""
    n = tail_value(n)
    if n.get("k") == "if" and "else" in n:
        c = resolve(n["cond"])
        if c.get("k") == "binary" and c["op"] in ("==", "!="):
            for a, b in ((c["l"], c["r"]), (c["r"], c["l"])):
                b = peel(b)
                if is_local(a, lid) and b.get("k") == "def" and (b.get("path") or "").startswith(enum_prefix):
                    v = b["path"][len(enum_prefix):]
                    t, e = n["then"], n["else"]
                    if c["op"] == "!=":
                        t, e = e, t
                    return {v: t, "other": e}
        return None
    if n.get("k") == "match" and is_local(n["scrut"], lid):
        out = {}
        for arm in n["arms"]:
            if "guard" in arm:
                return None
            for alt in pat_alts(arm["pat"]):
                while alt.get("k") == "pref":
                    alt = alt["sub"]
                if alt.get("k") in ("pconst", "pvariant") and alt.get("path", "").startswith(enum_prefix) and not alt.get("subs"):
                    out[alt["path"][len(enum_prefix):]] = arm["body"]
                elif alt.get("k") in ("pwild", "pbind"):
                    out["other"] = arm["body"]
                else:
                    return None
        return out
    return None
